"""C06 — streaming responses always terminate and release the producer.

Op lines (one self-contained scenario each):

  wsgi_sched <n> <fails> <schedule>
      forced schedule on the real WSGI SendEventResponse: `baize.wsgi.responses.queue` is replaced
      by a shim whose Queue parks every calling thread at its call, the thread pool by a shim
      executor whose future parks at done()/cancel()/exception(); a controller releases exactly the
      thread the schedule names (0 relay, 1 consumer, 2 server closes the iterable, 3 ping timeout,
      4 the consumer's own code raises while encoding the event it takes).
      Output: the observable state after every step (`x` = the named thread is blocked).
  wsgi_real <n> <k> <fails> <mode>
      real queue.Queue, real threads, a fresh ThreadPoolExecutor: read k events, close(), under a
      watchdog.  mode 0 plain, 1 slow producer (mid-step at close), 2 slow closer (relay ahead),
      3 slow producer + tiny ping interval.
  wsgi_encfail <n> <j>
      real threads: the j-th event cannot be encoded (charset latin-1), the server iterates to the end.
  wsgi_busy
      the pool's only worker is busy: first chunk is a ping, close() cancels the relay before it starts.
  wsgi_stream <n> <k> <fails>
      WSGI StreamResponse (`yield from`): read k chunks, close().
  asgi_stream <n> <d> <fails> <aw> / asgi_sse <n> <d> <fails> <aw>
      ASGI StreamResponse / SendEventResponse on an event loop with scripted send/receive; the
      disconnect is delivered when the d-th body chunk is sent (d = 0: before the first one,
      d > n: never), aw = number of extra suspensions per producer step.

All scenarios run in a worker process (a hang of the code under test must not hang run.py; a
leaked pool thread would block interpreter exit).
"""
import os
import select
import subprocess
import sys

from .common import corpus_lines

PROPERTY = "C06"
LEAN_MODULES = ["BaizeVerif.Props.C06"]
MODEL_MODULES = ["BaizeVerif.Model.Stream", "BaizeVerif.Model.StreamAsgi", "BaizeVerif.Model.StreamWsgi"]
DRIVER_OPS = {
    "wsgi_sched": "Stream.runSched",
    "wsgi_real": "Stream.runReal",
    "wsgi_busy": "Stream.runBusy",
    "wsgi_encfail": "Stream.runEncfail",
    "asgi_trace": "StreamAsgi.runTrace",
    "wsgi_stream": "StreamWsgi.runStream",
}
THEOREMS = [
    "Baize.Stream.w_no_deadlock",
    "Baize.Stream.w_never_stuck",
    "Baize.Stream.w_rank_decreases",
    "Baize.Stream.w_rank_bounded",
    "Baize.Stream.w_no_new_producer_step",
    "Baize.Stream.w_terminates",
    "Baize.Stream.w_finished_released",
    "Baize.Stream.w_closed_at_most_once",
    "Baize.Stream.w_delivered_prefix",
    "Baize.Stream.w_no_loss_while_open",
    "Baize.Stream.w_no_deadlock_witness",
    "Baize.Stream.w_no_deadlock_witness_midstep",
    "Baize.Stream.w_no_deadlock_witness_consfail",
    "Baize.Stream.source_pinned",
    "Baize.StreamWsgi.ws_stream_terminates_and_releases",
    "Baize.StreamAsgi.s_no_deadlock",
    "Baize.StreamAsgi.s_rank_decreases",
    "Baize.StreamAsgi.s_rank_bounded",
    "Baize.StreamAsgi.s_no_new_producer_step",
    "Baize.StreamAsgi.s_finished_released",
    "Baize.StreamAsgi.s_cleanup_at_most_once",
    "Baize.StreamAsgi.s_delivered_prefix",
    "Baize.StreamAsgi.e_no_deadlock",
    "Baize.StreamAsgi.e_rank_decreases",
    "Baize.StreamAsgi.e_rank_bounded",
    "Baize.StreamAsgi.e_one_ping",
    "Baize.StreamAsgi.e_finished_released",
    "Baize.StreamAsgi.e_cleanup_at_most_once",
    "Baize.StreamAsgi.e_aclose_exactly_once",
    "Baize.StreamAsgi.e_delivered_prefix",
    "Baize.StreamAsgi.asgi_source_pinned",
]
GEN_MODULES = ["c06"]

ROOT = os.path.dirname(os.path.dirname(os.path.abspath(__file__)))
REPO = os.environ.get("BAIZE_REPO", "/repo")
WATCHDOG = 10.0          # seconds granted to something that takes milliseconds
SUFFIX = [2] + [1, 0] * 40   # fair completion appended to every forced schedule


# ======================================================================================
# worker side: everything that touches baize runs here
# ======================================================================================


def _chunks_to_items(chunks):
    """delivered item indices and number of pings from the yielded byte chunks"""
    items, pings, other = [], 0, 0
    for c in chunks:
        if c.startswith(b"data: ") and c.endswith(b"\n\n") and c[6:-2].isdigit():
            items.append(int(c[6:-2]))
        elif c.startswith(b":"):
            pings += 1
        else:
            other += 1
    return items, pings, other


class ProducerError(Exception):
    pass


class ConsumerError(Exception):
    pass


class Producer:
    """the user's iterable: a generator with a `finally`, wrapped so that next()/close() are counted"""

    def __init__(self, n, fails, delay=0.0, sse=True, hook=None, cleanup_raises=False):
        self.n, self.fails, self.delay, self.sse = n, fails, delay, sse
        self.cleanup_raises = cleanup_raises
        self.cleanup_exc = ProducerError("producer cleanup failed")
        self.produced = 0
        self.started = 0
        self.finally_runs = 0
        self.close_calls = 0
        self.exc = ProducerError("producer failed")
        self.hook = hook
        self.gen = self._gen()

    def _gen(self):
        import time

        self.started = 1
        try:
            for i in range(self.n):
                if self.delay:
                    time.sleep(self.delay)
                if self.hook:
                    self.hook(i)
                self.produced += 1
                yield {"data": str(i)} if self.sse else b"%d;" % i
            if self.delay:
                time.sleep(self.delay)
            if self.fails:
                raise self.exc
        except GeneratorExit:
            # closed before it was exhausted: a producer whose own cleanup fails (its error is the producer's error)
            if self.cleanup_raises:
                self.finally_runs += 1
                raise self.cleanup_exc
            raise
        finally:
            if not (self.cleanup_raises and self.finally_runs):
                self.finally_runs += 1

    def __iter__(self):
        return self

    def __next__(self):
        return next(self.gen)

    def close(self):
        self.close_calls += 1
        self.gen.close()


# ---- forced schedules ---------------------------------------------------------------


class Hang(Exception):
    pass


class Ctl:
    """controller of a forced-schedule run: threads park at every queue / future call"""

    def __init__(self):
        import threading

        self.cv = threading.Condition()
        self.state = {}      # role -> ("running",) | ("parked", label, enabled_fn) | ("yield",) | ("finished",)
        self.go = {}         # role -> None | "go" | "timeout"
        self.roles = {}      # thread ident -> role
        self.threads = []

    def role(self):
        import threading

        return self.roles[threading.get_ident()]

    def park(self, label, enabled):
        """called by a participating thread before a shared call; returns "go" or "timeout" """
        role = self.role()
        with self.cv:
            self.state[role] = ("parked", label, enabled)
            self.go[role] = None
            self.cv.notify_all()
            while self.go[role] is None:
                self.cv.wait()
            how = self.go[role]
            self.go[role] = None
            self.state[role] = ("running",)
            return how

    def set_state(self, role, st):
        with self.cv:
            self.state[role] = st
            self.cv.notify_all()

    def wait_quiet(self, role):
        import time

        end = time.monotonic() + WATCHDOG
        with self.cv:
            while self.state.get(role, ("running",))[0] == "running":
                left = end - time.monotonic()
                if left <= 0:
                    raise Hang()
                self.cv.wait(left)

    def release(self, role, how="go"):
        with self.cv:
            self.go[role] = how
            self.cv.notify_all()


class ShimEmpty(Exception):
    pass


class ShimQueue:
    ctl = None
    instances = []

    def __init__(self, maxsize=0):
        self.maxsize = maxsize
        self.items = []
        ShimQueue.instances.append(self)

    def _room(self):
        return self.maxsize <= 0 or len(self.items) < self.maxsize

    def put(self, item, block=True, timeout=None):
        self.ctl.park("putNone" if item is None else "put", self._room)
        assert self._room()
        self.items.append(item)

    def get(self, block=True, timeout=None):
        how = self.ctl.park("get" if timeout is None else "get_t", lambda: bool(self.items))
        if how == "timeout":
            raise ShimEmpty()
        return self.items.pop(0)

    def get_nowait(self):
        self.ctl.park("get_nowait", lambda: True)
        if not self.items:
            raise ShimEmpty()
        return self.items.pop(0)

    def empty(self):
        self.ctl.park("empty?", lambda: True)
        return not self.items

    def qsize(self):
        return len(self.items)


class ShimQueueModule:
    Queue = ShimQueue
    Empty = ShimEmpty


class ShimFuture:
    def __init__(self, ctl, fut):
        self.ctl, self.fut = ctl, fut

    def done(self):
        self.ctl.park("done?", lambda: True)
        return self.fut.done()

    def cancel(self):
        self.ctl.park("cancel", lambda: True)
        return self.fut.cancel()

    def exception(self, timeout=None):
        self.ctl.park("exception", self.fut.done)
        return self.fut.exception()

    def result(self, timeout=None):
        self.ctl.park("result", self.fut.done)
        return self.fut.result()

    def cancelled(self):
        return self.fut.cancelled()


class ShimExecutor:
    """one thread per submitted callable; the thread parks before it starts (so that cancel() can win)"""

    def __init__(self, ctl):
        self.ctl = ctl
        self.futures = []

    def submit(self, fn, *a, **kw):
        import threading
        from concurrent.futures import Future

        fut = Future()
        self.futures.append(fut)
        ctl = self.ctl

        def runner():
            ctl.roles[threading.get_ident()] = "relay"
            ctl.park("start", lambda: not fut.cancelled())
            if not fut.set_running_or_notify_cancel():
                ctl.set_state("relay", ("finished",))
                return
            try:
                res = fn(*a, **kw)
            except BaseException as exc:  # noqa
                fut.set_exception(exc)
            else:
                fut.set_result(res)
            ctl.set_state("relay", ("finished",))

        t = threading.Thread(target=runner, daemon=True, name="C06-relay")
        with ctl.cv:
            ctl.state["relay"] = ("running",)
        t.start()
        ctl.threads.append(t)
        return ShimFuture(ctl, fut)


class Forced:
    """one forced-schedule execution of the real WSGI SendEventResponse"""

    def __init__(self, n, fails):
        import queue as real_queue
        import threading

        import baize.wsgi.responses as wr

        self.wr = wr
        self.real_queue = real_queue
        self.ctl = Ctl()
        ShimQueue.ctl = self.ctl
        ShimQueue.instances = []
        self.saved = (wr.queue, wr.SendEventResponse.thread_pool, wr.build_bytes_from_sse)
        wr.queue = ShimQueueModule
        self.fail_next = False
        self.cfail = 0
        self.consumer_error = ConsumerError("consumer failed to encode the event")
        real_build = wr.build_bytes_from_sse

        def build(event, charset):
            if self.fail_next:
                self.fail_next = False
                self.cfail = 1
                raise self.consumer_error
            return real_build(event, charset)

        wr.build_bytes_from_sse = build
        self.pool = ShimExecutor(self.ctl)
        wr.SendEventResponse.thread_pool = self.pool
        self.prod = Producer(n, fails)
        self.resp = wr.SendEventResponse(self.prod, ping_interval=3)
        self.chunks = []
        self.raised = 0
        self.crash = None
        self.cmd = None
        self.cmd_cv = threading.Condition()
        self.it = self.resp({}, lambda status, headers: None)
        self.hung = False
        t = threading.Thread(target=self._consumer, daemon=True, name="C06-consumer")
        self.ctl.state["cons"] = ("running",)
        self.cons_thread = t
        t.start()
        self.ctl.roles[t.ident] = "cons"
        self._command("next")

    # the thread standing for the WSGI server: it drives the response iterable
    def _consumer(self):
        import threading

        self.ctl.roles[threading.get_ident()] = "cons"
        while True:
            with self.cmd_cv:
                while self.cmd is None:
                    self.cmd_cv.wait()
                cmd, self.cmd = self.cmd, None
            if cmd == "quit":
                return
            try:
                if cmd == "next":
                    self.chunks.append(next(self.it))
                    self.ctl.set_state("cons", ("yield",))
                    continue
                self.it.close()
            except StopIteration:
                pass
            except BaseException as exc:  # noqa
                if exc is self.prod.exc:
                    self.raised = 1
                elif exc is not self.consumer_error:
                    self.crash = type(exc).__name__
            self.ctl.set_state("cons", ("finished",))
            return

    def _command(self, cmd):
        with self.ctl.cv:
            self.ctl.state["cons"] = ("running",)
        with self.cmd_cv:
            self.cmd = cmd
            self.cmd_cv.notify_all()
        self.ctl.wait_quiet("cons")
        # the relay thread is created by the first command
        if "relay" in self.ctl.state:
            self.ctl.wait_quiet("relay")

    def queue_obj(self):
        return ShimQueue.instances[0] if ShimQueue.instances else None

    def enabled(self, tid):
        st = self.ctl.state
        if tid == 0:
            s = st.get("relay")
            return bool(s) and s[0] == "parked" and bool(s[2]())
        c = st["cons"]
        if tid == 1:
            return c[0] == "yield" or (c[0] == "parked" and bool(c[2]()))
        if tid == 2:
            return c[0] == "yield"
        q = self.queue_obj()
        if tid == 4:
            return c[0] == "parked" and c[1] == "get_t" and q is not None and bool(q.items) and q.items[0] is not None
        return c[0] == "parked" and c[1] == "get_t" and q is not None and not q.items

    def step(self, tid):
        """returns False when the named thread is blocked"""
        if not self.enabled(tid):
            return False
        if tid == 0:
            with self.ctl.cv:
                self.ctl.state["relay"] = ("running",)
            self.ctl.release("relay")
            self.ctl.wait_quiet("relay")
        elif tid == 1 and self.ctl.state["cons"][0] == "yield":
            self._command("next")
        elif tid == 2:
            self._command("close")
        else:
            if tid == 4:
                self.fail_next = True
            with self.ctl.cv:
                self.ctl.state["cons"] = ("running",)
            self.ctl.release("cons", "timeout" if tid == 3 else "go")
            self.ctl.wait_quiet("cons")
        return True

    def render(self):
        st = self.ctl.state
        r = st.get("relay")
        if r is None:
            rp = "none"
        elif r[0] == "finished":
            rp = "cancelled" if self.pool.futures[0].cancelled() else "done"
        elif r[1] == "start" and self.pool.futures[0].cancelled():
            rp = "cancelled"
        else:
            rp = r[1]
        c = st["cons"]
        cp = {"yield": "yield", "finished": "end"}.get(c[0]) or c[1]
        q = self.queue_obj()
        if q is None or not q.items:
            qs = "e"
        elif len(q.items) > 1:
            qs = "many"
        elif q.items[0] is None:
            qs = "s"
        else:
            qs = "i" + q.items[0]["data"]
        items, pings, other = _chunks_to_items(self.chunks)
        d = ",".join(map(str, items)) if items else "-"
        tail = "/crash=%s" % self.crash if self.crash else ""
        if other:
            tail += "/other=%d" % other
        return "%s/%s/q=%s/y=%d/d=%s/p=%d/c=%d/r=%d/f=%d%s" % (
            rp, cp, qs, self.prod.produced, d, pings, self.prod.close_calls, self.raised, self.cfail, tail)

    def teardown(self):
        """let every parked thread run to its end (best effort), restore the module"""
        import time

        self.wr.queue, self.wr.SendEventResponse.thread_pool, self.wr.build_bytes_from_sse = self.saved
        end = time.monotonic() + 2.0
        with self.cmd_cv:
            self.cmd = "quit"
            self.cmd_cv.notify_all()
        while time.monotonic() < end:
            alive = [t for t in [self.cons_thread] + self.ctl.threads if t.is_alive()]
            if not alive:
                return True
            with self.ctl.cv:
                q = self.queue_obj()
                for role, s in list(self.ctl.state.items()):
                    if s[0] != "parked":
                        continue
                    how = "go"
                    if s[1] in ("put", "putNone") and q is not None:
                        q.items.clear()
                    elif s[1] == "get_t" and q is not None and not q.items:
                        how = "timeout"
                    elif s[1] == "get" and q is not None and not q.items:
                        q.items.append(None)
                    self.ctl.go[role] = how
                    self.ctl.state[role] = ("running",)
                self.ctl.cv.notify_all()
            time.sleep(0.002)
        return False


def forced_trace(n, fails, sched):
    """(trace string, clean?) of one forced schedule"""
    f = None
    out = []
    try:
        f = Forced(n, fails)
        out.append(f.render())
        for tid in sched:
            if f.step(tid):
                out.append(f.render())
            else:
                out.append("x")
    except Hang:
        out.append("hang")
    clean = f.teardown() if f is not None else True
    return " ".join(out), clean


def forced_enumerate(n, fails, depth, limit):
    """stateless depth-first enumeration of every schedule of enabled steps of length <= depth on
    the REAL code (each then completed by SUFFIX); returns [(schedule, trace)]"""
    results = []
    stack = [[]]
    clean = True
    while stack and len(results) < limit:
        prefix = stack.pop()
        f = None
        out = []
        sched = []
        try:
            f = Forced(n, fails)
            out.append(f.render())
            for tid in prefix:
                ok = f.step(tid)
                out.append(f.render() if ok else "x")
                sched.append(tid)
            while len(sched) < depth:
                en = [t for t in (0, 1, 2, 3, 4) if f.enabled(t)]
                if not en:
                    break
                for alt in en[1:]:
                    stack.append(sched + [alt])
                f.step(en[0])
                out.append(f.render())
                sched.append(en[0])
            for tid in SUFFIX:
                ok = f.step(tid)
                out.append(f.render() if ok else "x")
        except Hang:
            out.append("hang")
        if f is not None:
            clean = f.teardown() and clean
        results.append((sched + SUFFIX, " ".join(out)))
    return results, clean


# ---- real threads -------------------------------------------------------------------


class RecordingPool:
    """a fresh baize ThreadPoolExecutor whose futures are remembered"""

    def __init__(self, workers):
        from baize.concurrency import ThreadPoolExecutor

        self.pool = ThreadPoolExecutor(max_workers=workers, thread_name_prefix="C06pool_")
        self.futures = []

    def submit(self, fn, *a, **kw):
        f = self.pool.submit(fn, *a, **kw)
        self.futures.append(f)
        return f


def _watchdog_call(fn):
    """run fn in a thread; ('ret', value) | ('exc', exception) | ('hang', None)"""
    import threading

    box = {}

    def run():
        try:
            box["r"] = ("ret", fn())
        except BaseException as exc:  # noqa
            box["r"] = ("exc", exc)

    t = threading.Thread(target=run, daemon=True, name="C06-server")
    t.start()
    t.join(WATCHDOG)
    return box.get("r", ("hang", None))


def real_case(n, k, fails, mode, busy=False, encfail=None, cleanup_raises=False, iterfail=False):
    """(canonical outcome, leaked?)"""
    import concurrent.futures
    import threading
    import time

    import baize.wsgi.responses as wr

    delay = {0: 0.0, 1: 0.003, 2: 0.0, 3: 0.02}[mode]
    prod = Producer(n, fails, delay=delay, cleanup_raises=cleanup_raises)
    source = prod
    if iterfail:
        # an iterable OBJECT whose __iter__ raises (the producer fails before it yields anything)
        class _IterFail:
            def __iter__(self_inner):
                raise prod.exc

            def close(self_inner):
                prod.close_calls += 1

        source = _IterFail()
    if encfail is not None:
        # the encfail-th event carries a character the response's charset cannot encode
        inner = prod.gen

        def poisoned():
            try:
                for i, ev in enumerate(inner):
                    yield {"data": "\u65e5"} if i == encfail else ev
            finally:
                inner.close()

        prod.gen = poisoned()
    pool = RecordingPool(1 if busy else 2)
    saved = wr.SendEventResponse.thread_pool
    wr.SendEventResponse.thread_pool = pool
    blocker = threading.Event()
    if busy:
        pool.pool.submit(blocker.wait)
    try:
        resp = wr.SendEventResponse(source, ping_interval=0.005 if (mode == 3 or busy) else 60,
                                    charset="latin-1" if encfail is not None else "utf-8")
        it = resp({}, lambda status, headers: None)
        chunks = []

        def server():
            got = 0
            try:
                while got < k:
                    c = next(it)
                    chunks.append(c)
                    if busy or not c.startswith(b":"):
                        got += 1
            except StopIteration:
                return "ended"
            if mode == 2:
                time.sleep(0.003)
            it.close()
            return "closed"

        kind, val = _watchdog_call(server)
        if kind == "hang":
            outcome = "hang"
        elif kind == "exc":
            if encfail is not None and isinstance(val, UnicodeEncodeError):
                outcome = "fail"
            else:
                if val is prod.cleanup_exc:
                    outcome = "end"        # the error of the producer's own cleanup reaches the server: fine
                else:
                    outcome = ("end" if fails else "raise-own") if val is prod.exc else "crash %s" % type(val).__name__
        else:
            outcome = "end" if fails else "ret"
        if busy:
            blocker.set()
        futs = list(pool.futures)
        left = 0
        if outcome != "hang":
            _done, not_done = concurrent.futures.wait(futs, timeout=WATCHDOG)
            left = len(not_done)
        else:
            left = len([f for f in futs if not f.done()])
        items, _pings, other = _chunks_to_items(chunks)
        # the relay is at most two items ahead of the consumer (one queued, one in hand or being
        # produced) and calls next() at most once more after the close
        # (an event the consumer failed to encode was taken from the queue without being delivered)
        over = max(0, prod.produced - (len(items) + 2 + (1 if outcome == "fail" else 0)))
        out = "%s closed=%d left=%d over=%d del=%s" % (outcome, prod.close_calls, left, over,
                                                       ",".join(map(str, items)) if items else "-")
        if prod.finally_runs != prod.started:
            out += " finally=%d/started=%d" % (prod.finally_runs, prod.started)
        if other:
            out += " other=%d" % other
        leaked = outcome == "hang" or left > 0
        if not leaked:
            pool.pool.shutdown(wait=True)
        return out, leaked
    finally:
        blocker.set()
        wr.SendEventResponse.thread_pool = saved


def wsgi_stream_case(n, k, fails):
    import baize.wsgi.responses as wr

    prod = Producer(n, fails, sse=False)
    resp = wr.StreamResponse(prod.gen)
    it = resp({}, lambda status, headers: None)
    chunks = []

    def server():
        try:
            for _ in range(k):
                chunks.append(next(it))
        except StopIteration:
            return
        it.close()

    kind, val = _watchdog_call(server)
    if kind == "hang":
        outcome = "hang"
    elif kind == "exc":
        outcome = "end" if (fails and val is prod.exc) else "crash %s" % type(val).__name__
    else:
        outcome = "end" if fails else "ret"
    items = [int(c[:-1]) for c in chunks]
    closed = 1 if prod.gen.gi_frame is None else 0
    out = "%s closed=%d left=0 del=%s" % (outcome, closed, ",".join(map(str, items)) if items else "-")
    if prod.finally_runs != prod.started:
        out += " finally=%d/started=%d" % (prod.finally_runs, prod.started)
    return out, outcome == "hang"


# ---- ASGI ---------------------------------------------------------------------------


def asgi_case(kind, n, d, fails, aw, mode=0, encfail=None):
    """run the ASGI response on a fresh event loop with scripted send / receive.
    kind: "stream" | "sse"; the disconnect is delivered when the d-th body chunk is sent (d = 0: it is
    already waiting when the call starts; d larger than the number of chunks: never); aw = extra
    suspensions per producer step and per send; mode 1 (sse only): after its n items the producer
    blocks for ever and the ping interval is short.
    Returns (canonical outcome, hung?, observation trace, raised?)."""
    import asyncio

    import baize.asgi.responses as ar

    st = {"started": 0, "finally": 0, "produced": 0}
    exc = ProducerError("producer failed")
    send_exc = OSError("client gone (raised by send)")
    sent = []
    state = {"bodies": 0, "final": 0, "after_final": 0, "items": 0, "pings": 0, "other": 0}
    trace = []

    def snap():
        o = [st["produced"], state["items"], state["pings"], st["finally"], state["final"]]
        if not trace or trace[-1] != o:
            trace.append(o)

    async def producer():
        st["started"] = 1
        try:
            for i in range(n):
                if mode in (6, 7) and i == d:
                    box["disconnect"].set()     # the client goes away while the response idles between two events
                for _ in range(aw):
                    await asyncio.sleep(0)
                st["produced"] += 1
                snap()
                if encfail is not None and i == encfail:
                    yield {"data": "\u65e5"}      # cannot be encoded in latin-1
                else:
                    if kind == "sse" and mode == 2:
                        yield {}                       # a field-less heartbeat event: it renders as one line break
                    else:
                        yield {"data": str(i)} if kind == "sse" else b"%d;" % i
            for _ in range(aw):
                await asyncio.sleep(0)
            if mode == 1:
                await asyncio.Event().wait()
            if fails:
                raise exc
        finally:
            if mode in (5, 7):
                # a producer whose cleanup itself waits (unsubscribes, closes a connection): it counts once complete
                et = sys.exc_info()[0]
                st["why"] = "close" if et is GeneratorExit else "cancel" if et is asyncio.CancelledError else "end"
                for _ in range(aw + 1):
                    await asyncio.sleep(0)
            if mode != 4:
                st["finally"] += 1
                snap()

    class ObjProducer:
        """mode 4: the producer is an iterator OBJECT (a subscription, a receive stream) whose cleanup is its
        aclose() - idempotent, as such objects are - rather than an async generator's finally block"""

        def __init__(self):
            self.inner = producer()
            self.closed = False

        def __aiter__(self):
            return self

        async def __anext__(self):
            if self.closed:
                raise StopAsyncIteration
            return await self.inner.__anext__()

        async def aclose(self):
            if not self.closed:
                self.closed = True
                st["finally"] += 1
                snap()
                await self.inner.aclose()

    box = {}

    async def main():
        disconnect = box["disconnect"] = asyncio.Event()

        # what the server still holds of the request when the application never read its body: in every other
        # scenario the (empty, or two-piece) request body comes out of receive() before the disconnect does
        pending = []
        if (n + d + aw) % 2 == 1:
            pending = [{"type": "http.request", "body": b"", "more_body": False}] if n % 2 == 0 else \
                [{"type": "http.request", "body": b"x", "more_body": True},
                 {"type": "http.request", "body": b"", "more_body": False}]

        async def receive():
            if pending:
                return pending.pop(0)
            await disconnect.wait()
            return {"type": "http.disconnect"}

        async def send(message):
            if message["type"] == "http.response.body":
                if state["final"]:
                    state["after_final"] += 1
                if message.get("more_body"):
                    body = message.get("body", b"")
                    sent.append(body)
                    if kind == "sse" and body.startswith(b":"):
                        state["pings"] += 1
                    elif (kind == "sse" and body.startswith(b"data: ")) or (kind != "sse" and body.endswith(b";")) \
                            or (kind == "sse" and mode == 2 and body == b"\n"):
                        state["items"] += 1
                    else:
                        state["other"] += 1
                    state["bodies"] += 1
                    if mode == 8:
                        if state["bodies"] == max(d, 1):
                            snap()
                            raise send_exc      # the server reports the vanished client through send() itself
                    elif state["bodies"] == d and mode not in (6, 7):
                        disconnect.set()
                else:
                    state["final"] += 1
                snap()
            for _ in range(aw):
                await asyncio.sleep(0)

        if d == 0 and mode not in (6, 7, 8):
            disconnect.set()
        gen = ObjProducer() if mode == 4 else producer()
        if kind == "sse":
            resp = ar.SendEventResponse(gen, ping_interval=0.02 if mode == 1 else 60,
                                        charset="latin-1" if encfail is not None else "utf-8")
        else:
            resp = ar.StreamResponse(gen)
        # keep a reference to the response's own async generator: its cleanup must be done by the
        # response (finally / aclose), not by the garbage collector's asyncgen finalizer
        orig_render = resp.render_stream
        held = []

        def render_stream():
            g = orig_render()
            held.append(g)
            return g

        resp.render_stream = render_stream
        before = set(asyncio.all_tasks())
        call = asyncio.ensure_future(resp({"type": "http"}, receive, send))
        raised = 0
        try:
            await asyncio.wait_for(asyncio.shield(call), WATCHDOG)
            outcome = "ret"
        except asyncio.TimeoutError:
            outcome = "hang"
        except BaseException as e:  # noqa
            if encfail is not None and isinstance(e, UnicodeEncodeError):
                outcome = "fail"
            elif e is send_exc:
                outcome = "sendfail"
            else:
                outcome = ("end" if e is exc else "crash %s" % type(e).__name__)
            raised = 1 if e is exc else 0
        if outcome == "sendfail":
            pass
        elif outcome == "ret" and fails:
            outcome = "end"
        elif outcome == "end" and not fails:
            outcome = "raise-own"
        # "cleanup already scheduled on the event loop": let the loop run until the tasks the call
        # created have finished (bounded by the watchdog)
        left = 0
        others = [t for t in asyncio.all_tasks() if t not in before and t is not call
                  and t is not asyncio.current_task()]
        if others:
            _done, pending = await asyncio.wait(others, timeout=WATCHDOG if outcome != "hang" else 0.05)
            left = len(pending)
            for t in pending:
                t.cancel()
        if outcome == "hang":
            call.cancel()
        try:
            agen_closed = gen.closed if mode == 4 else (gen.ag_frame is None or not st["started"])
        except Exception:  # noqa
            agen_closed = True
        # snapshot NOW: what the loop's shutdown (or the garbage collector) cleans up later does not count
        return outcome, left, agen_closed, st["finally"], raised

    loop = asyncio.new_event_loop()
    try:
        outcome, left, agen_closed, fin_runs, raised = loop.run_until_complete(main())
    finally:
        try:
            loop.run_until_complete(loop.shutdown_asyncgens())
        finally:
            loop.close()
    items = []
    for c in sent:
        if kind == "sse" and c.startswith(b"data: ") and c.endswith(b"\n\n") and c[6:-2].isdigit():
            items.append(int(c[6:-2]))
        elif kind != "sse" and c.endswith(b";") and c[:-1].isdigit():
            items.append(int(c[:-1]))
        elif kind == "sse" and mode == 2 and c == b"\n":
            items.append(len(items))
    other = state["other"]
    if not st["started"] and mode != 4:
        closed = 0
    elif fin_runs == 1 and agen_closed:
        closed = 1
    else:
        closed = -fin_runs - 1     # -1: cleanup never ran, -3: ran twice, ...
    out = "%s started=%d closed=%d left=%d final=%d del=%s" % (
        outcome, st["started"], closed, left, state["final"], ",".join(map(str, items)) if items else "-")
    if state["after_final"]:
        out += " after_final=%d" % state["after_final"]
    if other:
        out += " other=%d" % other
    out += " y=%d" % st["produced"]
    if mode in (5, 7) and fin_runs == 0 and "why" in st:
        out += " cut=%s" % st["why"]      # the cleanup began (for that reason) and was interrupted in its own await
    return out, outcome == "hang", trace, raised


def asgi_trace_line(kind, n, d, fails, aw, mode):
    """run the scenario and encode what was observed as an `asgi_trace` op line"""
    _out, _hung, trace, raised = asgi_case(kind, n, d, fails, aw, mode)
    flat = [x for o in trace for x in o]
    return "asgi_trace %d %d %d %d %d %d %d %s" % (
        1 if kind == "sse" else 0, n + (1 if mode == 1 else 0), 1 if fails else 0, d, aw, mode, raised,
        ",".join(map(str, flat)) if flat else "-")


def asgi_trace_check(a):
    """re-run the scenario of an `asgi_trace` line: the real code must still show this very trace"""
    kind = "sse" if a[1] == "1" else "stream"
    mode = int(a[6])
    n = int(a[2]) - (1 if mode == 1 else 0)
    now = None
    for _attempt in range(3):     # the stalled-producer scenarios use a real (20 ms) ping timer
        now = asgi_trace_line(kind, n, int(a[4]), a[3] != "0", int(a[5]), mode).split(" ")
        if now[7:] == a[7:]:
            return "accept"
    return "changed raised=%s trace=%s" % (now[7], now[8])


# ---- worker loop --------------------------------------------------------------------


def worker_exec(line):
    a = line.split(" ")
    op = a[0]
    if op == "wsgi_sched":
        sched = [] if a[3] in ("-", "") else [int(x) for x in a[3].split(",")]
        out, clean = forced_trace(int(a[1]), a[2] != "0", sched)
        return out, not clean
    if op == "wsgi_real":
        return real_case(int(a[1]), int(a[2]), a[3] != "0", int(a[4]) if len(a) > 4 else 0)
    if op == "wsgi_iterfail":
        return real_case(1, 1, True, int(a[1]) if len(a) > 1 else 0, iterfail=True)
    if op == "wsgi_cleanupfail":
        return real_case(int(a[1]), int(a[2]), False, int(a[3]) if len(a) > 3 else 0, cleanup_raises=True)
    if op == "wsgi_busy":
        return real_case(2, 1, False, 0, busy=True)
    if op == "wsgi_encfail":
        return real_case(int(a[1]), int(a[1]) + 1, False, int(a[3]) if len(a) > 3 else 0, encfail=int(a[2]))
    if op == "wsgi_stream":
        return wsgi_stream_case(int(a[1]), int(a[2]), a[3] != "0")
    if op in ("asgi_stream", "asgi_sse"):
        r = asgi_case(op[5:], int(a[1]), int(a[2]), a[3] != "0", int(a[4]) if len(a) > 4 else 0,
                      int(a[5]) if len(a) > 5 else 0)
        return r[0], r[1]
    if op == "asgi_encfail":
        r = asgi_case("sse", int(a[1]), int(a[1]) + 5, False, int(a[3]), 0, encfail=int(a[2]))
        return r[0], r[1]
    if op == "asgi_trace":
        return asgi_trace_check(a), False
    if op == "mktrace":
        return asgi_trace_line(a[1], int(a[2]), int(a[3]), a[4] != "0", int(a[5]), int(a[6])), False
    if op == "enum":
        res, clean = forced_enumerate(int(a[1]), a[2] != "0", int(a[3]), int(a[4]))
        return "\t".join("%s|%s" % (",".join(map(str, s)), t) for s, t in res), not clean
    return "bad-op", False


def worker_main():
    """protocol: one op line in, one result line out; exits after a scenario that leaked a thread"""
    out = sys.stdout
    for line in sys.stdin:
        line = line.rstrip("\n")
        if not line:
            continue
        if line.startswith("!wd "):
            global WATCHDOG
            WATCHDOG = float(line[4:])
            continue
        try:
            res, dirty = worker_exec(line)
        except BaseException as exc:  # noqa
            import traceback

            res, dirty = "adapter-error %s %s" % (type(exc).__name__, traceback.format_exc().replace("\n", " | ")[-600:]), True
        out.write(res + "\n")
        out.flush()
        if dirty:
            os._exit(0)
    os._exit(0)


# ======================================================================================
# parent side: the plugin proper (never imports baize; talks to the worker over a pipe)
# ======================================================================================


class Worker:
    """The watchdog is generous (WATCHDOG seconds for something that takes milliseconds).  Only once
    several hangs have been established with the generous value (the run is a violation by then)
    are further scenarios given less time, so that a broken tree is reported in minutes, not hours."""

    def __init__(self):
        self.p = None
        self.restarts = 0
        self.hangs = 0
        self.wd_sent = None

    def watchdog(self):
        return WATCHDOG if self.hangs < 3 else (1.5 if self.hangs < 10 else 0.3)

    def start(self):
        env = dict(os.environ)
        env["PYTHONPATH"] = os.pathsep.join([ROOT, REPO, env.get("PYTHONPATH", "")])
        self.p = subprocess.Popen(
            [sys.executable, "-c", "import harness.c06 as m; m.worker_main()"],
            stdin=subprocess.PIPE, stdout=subprocess.PIPE, stderr=subprocess.DEVNULL,
            cwd=ROOT, env=env, text=True, bufsize=1)

    def stop(self):
        if self.p is not None:
            try:
                self.p.kill()
                self.p.wait(5)
            except Exception:  # noqa
                pass
            self.p = None

    def ask(self, line, budget=12 * WATCHDOG):
        """result line of the worker; 'hang' when the worker itself does not answer"""
        import time

        t0 = time.monotonic()
        res = self._ask(line, budget)
        # a scenario that used up (nearly) the whole watchdog somewhere counts as an established hang,
        # whatever it printed (e.g. a task still pending while a trace was being recorded)
        if not line.startswith("enum ") and not res.startswith("hang") and time.monotonic() - t0 >= 0.9 * self.watchdog():
            self.hangs += 1
        return res

    def _ask(self, line, budget):
        for _attempt in range(2):
            if self.p is None or self.p.poll() is not None:
                self.stop()
                self.start()
                self.restarts += 1
                self.wd_sent = None
            try:
                if self.wd_sent != self.watchdog():
                    self.wd_sent = self.watchdog()
                    self.p.stdin.write("!wd %s\n" % self.wd_sent)
                self.p.stdin.write(line + "\n")
                self.p.stdin.flush()
            except (BrokenPipeError, OSError):
                self.stop()
                continue
            r, _, _ = select.select([self.p.stdout], [], [], budget)
            if not r:
                self.stop()
                self.hangs += 1
                return "hang"
            res = self.p.stdout.readline()
            if res == "":
                self.stop()
                continue
            res = res.rstrip("\n")
            if res.startswith("hang") or res.endswith(" hang") or (" left=" in res and " left=0" not in res):
                self.hangs += 1
            return res
        self.hangs += 1
        return "hang"


_WORKER = Worker()
_CACHE = {}


def _atexit():
    _WORKER.stop()


import atexit  # noqa: E402

atexit.register(_atexit)


def impl(line):
    if line in _CACHE:
        return _CACHE[line]
    return _WORKER.ask(line)


# ---- oracle: the property stated on the observable output, independent of the Lean model ----

CLOSING = ("cancel", "get", "exception", "get_nowait", "flag")


def _parse_state(tok):
    f = tok.split("/")
    st = {"relay": f[0], "cons": f[1]}
    for kv in f[2:]:
        k, _, v = kv.partition("=")
        st[k] = v
    return st


def _is_prefix(items, yielded):
    return items == list(range(len(items))) and len(items) <= yielded


def oracle_sched(line, out):
    toks = out.split(" ")
    if "hang" in toks:
        return "a scheduled step of the real code did not come back within %ss" % WATCHDOG
    last = None
    closes = 0
    y_close = None
    for tok in toks:
        if tok == "x":
            continue
        st = _parse_state(tok)
        if y_close is None and st["cons"] in CLOSING:
            y_close = int(st["y"])
        if y_close is not None and int(st["y"]) > y_close:
            return "the producer was stepped again after the close (yielded %s -> %s)" % (y_close, st["y"])
        if "crash" in st:
            return "the response raised %s (not the producer's exception)" % st["crash"]
        if "other" in st:
            return "a chunk that is neither an event nor a ping was delivered"
        items = [] if st["d"] == "-" else [int(x) for x in st["d"].split(",")]
        if not _is_prefix(items, int(st["y"])):
            return "delivered %s is not a prefix of the %s items yielded" % (items, st["y"])
        if int(st["c"]) > 1:
            return "generator closed %s times" % st["c"]
        last = st
        closes = int(st["c"])
    # every schedule ends with the fair completion SUFFIX: the call must have returned,
    # the relay must be gone, the generator closed exactly once (unless the relay never started)
    sched = line.split(" ")[3]
    full = [int(x) for x in sched.split(",")] if sched not in ("-", "") else []
    if len(full) >= len(SUFFIX) and full[-len(SUFFIX):] == SUFFIX:
        if last["cons"] != "end":
            return "after the close and a fair completion the response call has not returned (consumer at %s, relay at %s, queue %s)" % (
                last["cons"], last["relay"], last["q"])
        if last["relay"] not in ("done", "cancelled"):
            return "response call returned but the relay thread is still at %s" % last["relay"]
        if last["relay"] == "done" and closes != 1:
            return "relay finished but the generator was closed %d times" % closes
        if last["relay"] == "cancelled" and int(last["y"]) != 0:
            return "relay cancelled although the producer had started"
    return None


def _parse_outcome(out):
    f = out.split(" ")
    d = {"outcome": f[0]}
    for kv in f[1:]:
        k, _, v = kv.partition("=")
        d[k] = v
    return d


def oracle_outcome(line, out, asgi=False):
    a = line.split(" ")
    if out.startswith("hang"):
        return "the response call did not return within %ss after the close / disconnect (%s)" % (WATCHDOG, out)
    if out.startswith("crash") or out.startswith("adapter-error") or out.startswith("raise-own"):
        return "the response call raised something that is not the producer's own exception: %s" % out
    d = _parse_outcome(out)
    if d["outcome"] == "fail" and a[0] in ("wsgi_encfail", "asgi_encfail"):
        pass    # the consumer's own error (an event that cannot be encoded) propagates to the server
    elif d["outcome"] == "sendfail" and len(a) > 5 and a[5] == "8":
        pass    # the server's own error out of send() propagates; the producer is released all the same
    elif d["outcome"] not in ("ret", "end"):
        return "unexpected outcome %s" % out
    if "finally" in d:
        return "the generator's cleanup ran %s times" % d["finally"]
    if "other" in d or "after_final" in d:
        return "unexpected chunks delivered: %s" % out
    if int(d["left"]) != 0:
        return "%s pool thread(s) / task(s) still pending after the call returned" % d["left"]
    if int(d.get("over", "0")) != 0:
        return "the producer was stepped %s more time(s) than 'no later than the producer\'s next step' allows" % d["over"]
    items = [] if d["del"] == "-" else [int(x) for x in d["del"].split(",")]
    if items != list(range(len(items))):
        return "delivered %s is not in order / has loss or duplication" % items
    if asgi:
        if int(d["started"]) and int(d["closed"]) != 1 and "cut" in d:
            return ("the producer's cleanup (which awaits) began %s and was cut short by a cancellation: it never ran to "
                    "its end" % {"close": "when the response closed the producer", "cancel": "on the response's cancel()",
                                 "end": "when the producer ended by itself"}[d["cut"]])
        if len(a) > 5 and a[5] == "4" and int(d["closed"]) != 1:
            # an iterator object holds its resource from construction on: handed to a response that was called, it is
            # released by that response whether or not a first item was ever asked for
            return "the producer object's aclose() was not called exactly once (%s)" % d["closed"]
        if int(d["started"]) and int(d["closed"]) != 1:
            return "the generator was started but its cleanup did not run exactly once (%s)" % d["closed"]
        if len(items) > int(d["y"]):
            return "delivered more than was yielded"
        if a[0] == "asgi_encfail":
            n, j = int(a[1]), int(a[2])
            return None if len(items) == min(n, j) else "%d events delivered before the failing one" % len(items)
        n, dd = int(a[1]), int(a[2])
        # "returns no later than the producer's next step after the disconnect": the disconnect is handed over
        # while body number dd is sent, so the producer may be at most one step further (plus, for an event
        # stream, the one item in the relay's queue and the one in its hand)
        aw_ = int(a[4]) if len(a) > 4 else 0     # aw = 0: nothing ever suspends, the watcher task cannot run at all
        if aw_ >= 1 and dd < n and int(d["y"]) > dd + 3:
            return ("the client was gone after %d body messages, yet the producer was stepped %d times (of %d): the "
                    "disconnect was not acted upon" % (dd, int(d["y"]), n))
        if len(a) > 5 and a[5] == "8":
            return None
        if len(a) > 5 and a[5] in ("6", "7"):
            # the disconnect arrives while the producer works on item dd: what was yielded before may still be in
            # the relay's hand / queue, so only order and the stepping bound above are demanded
            return None
        if dd > n and len(items) != n:
            return "no disconnect, but only %d of %d chunks were delivered" % (len(items), n)
        if dd <= n and len(items) < min(dd, n):
            return "only %d chunks delivered before the disconnect at %d" % (len(items), dd)
        return None
    if a[0] == "wsgi_iterfail":
        if d["outcome"] != "end":
            return "a producer that fails in __iter__: the response call must raise the producer's own exception, got %s" % out
        return None if not items else "events delivered from a producer that never yielded: %s" % out
    if a[0] == "wsgi_busy":
        return None if int(d["closed"]) == 0 and not items else "relay was cancelled before it started, yet %s" % out
    if a[0] == "wsgi_encfail":
        n, j = int(a[1]), int(a[2])
        if int(d["closed"]) != 1:
            return "generator closed %s times" % d["closed"]
        if len(items) != min(n, j):
            return "%d events delivered before the failing one, expected %d" % (len(items), min(n, j))
        return None
    n, k = int(a[1]), int(a[2])
    if int(d["closed"]) != 1 and not (k == 0 and int(d["closed"]) == 0):
        # (k = 0: a producer that was never started needs no close; one that was started and not cleaned up has
        # been reported above through finally/started)
        return "generator closed %s times" % d["closed"]
    if len(items) != min(n, k):
        return "read %d events before the close, expected %d" % (len(items), min(n, k))
    return None


def oracle_trace(line, out):
    """the counters observed on the real ASGI run, judged directly"""
    a = line.split(" ")
    flat = [] if a[8] in ("-", "") else [int(x) for x in a[8].split(",")]
    obs = [flat[i:i + 5] for i in range(0, len(flat), 5)]
    prev = [0, 0, 0, 0, 0]
    for o in obs:
        if any(x < y for x, y in zip(o, prev)):
            return "observation counters went backwards: %s after %s" % (o, prev)
        if o[1] > o[0]:
            return "%d items delivered but only %d yielded" % (o[1], o[0])
        if o[3] > 1:
            return "the producer's cleanup ran %d times" % o[3]
        if o[4] > 1:
            return "%d final body messages" % o[4]
        prev = o
    if prev[0] > 0 and prev[3] != 1:
        return "the producer yielded %d items but its cleanup ran %d times" % (prev[0], prev[3])
    return None


def oracle(line, out):
    op = line.split(" ")[0]
    if out == "hang":
        return "the code under test hung (worker process did not answer)"
    if out.startswith("adapter-error"):
        return "adapter failed: %s" % out
    if op == "wsgi_sched":
        return oracle_sched(line, out)
    if op == "asgi_trace":
        return oracle_trace(line, out)
    return oracle_outcome(line, out, asgi=op.startswith("asgi"))


def classify(line, out):
    a = line.split(" ")
    if a[0] == "wsgi_sched":
        toks = [t for t in out.split(" ") if t != "x"]
        last = _parse_state(toks[-1]) if toks and toks[-1] != "hang" else {"relay": "hang", "cons": "hang"}
        at = "never"
        for t in toks:
            if t != "hang":
                st = _parse_state(t)
                if st["cons"] in CLOSING:
                    at = "relay=%s,q=%s" % (st["relay"], st["q"][0])
                    break
        return "sched/n=%s/close@%s/ends-%s" % (a[1] if int(a[1]) < 3 else "3+", at, last["relay"])
    if a[0] == "wsgi_real":
        return "real/mode=%s/%s" % (a[4] if len(a) > 4 else 0, out.split(" ")[0])
    if a[0] == "asgi_trace":
        where = "never" if int(a[4]) > int(a[2]) + 2 else ("before-first" if a[4] == "0" else "mid")
        return "trace/%s/disconnect-%s/%s/%s" % ("sse" if a[1] == "1" else "stream", where,
                                                 "stall" if a[6] == "1" else ("raises" if a[3] == "1" else "ends"), out.split(" ")[0])
    return "%s/%s" % (a[0], out.split(" ")[0])


def nontrivial(line, out):
    a = line.split(" ")
    if a[0] == "wsgi_sched":
        return "/cancel/" in out or "/get/" in out
    if a[0] in ("wsgi_real", "wsgi_stream"):
        return 0 < int(a[2]) < int(a[1])
    if a[0] == "asgi_trace":
        return 0 < int(a[4]) <= int(a[2])
    if a[0].startswith("asgi"):
        return 0 < int(a[2]) <= int(a[1])
    return True


def describe(line):
    a = line.split(" ")
    names = {0: "relay", 1: "consumer", 2: "close", 3: "ping-timeout", 4: "consumer-raises"}
    if a[0] == "wsgi_sched":
        sched = [] if a[3] in ("-", "") else [names[int(x)] for x in a[3].split(",")]
        return {"scenario": "forced schedule on wsgi SendEventResponse", "producer_items": int(a[1]),
                "producer_raises": a[2] != "0", "schedule": sched}
    if a[0] == "wsgi_real":
        return {"scenario": "wsgi SendEventResponse, real threads: read k events then close()",
                "producer_items": int(a[1]), "k": int(a[2]), "producer_raises": a[3] != "0",
                "mode": {0: "plain", 1: "slow producer", 2: "slow closer", 3: "slow producer, pings"}[int(a[4]) if len(a) > 4 else 0]}
    if a[0] == "asgi_trace":
        flat = [] if a[8] in ("-", "") else [int(x) for x in a[8].split(",")]
        return {"scenario": "asgi %s: trace of [yielded, delivered, pings, cleanups, final] observed on the real code"
                            % ("SendEventResponse" if a[1] == "1" else "StreamResponse"),
                "producer_items_in_model": int(a[2]), "producer_raises": a[3] != "0",
                "disconnect_at_body_chunk": int(a[4]), "extra_suspensions": int(a[5]),
                "producer_stalls_after_items": a[6] == "1", "call_raised": a[7] != "0",
                "observations": [flat[i:i + 5] for i in range(0, len(flat), 5)]}
    return {"scenario": a[0], "args": a[1:]}


# ---- generators ----------------------------------------------------------------------


def sched_line(n, fails, sched):
    return "wsgi_sched %d %d %s" % (n, 1 if fails else 0, ",".join(map(str, sched)) if sched else "-")


def cases(rng, tier):
    yield from corpus_lines(PROPERTY)
    thorough = tier == "thorough"
    # (0) WSGI StreamResponse (`yield from`): every producer length x close point x ending, against its model
    for n in range(0, 9 if thorough else 6):
        for k in range(0, n + 3):
            for fails in (0, 1):
                yield "wsgi_stream %d %d %d" % (n, k, fails)
    # (1) every schedule of enabled steps up to a depth, enumerated on the real code
    plan = [(0, 0, 8, 600), (0, 1, 8, 600), (1, 0, 11, 2500), (1, 1, 10, 1500), (2, 0, 12, 3000), (3, 0, 11, 2000)]
    if thorough:
        plan = [(0, 0, 12, 60000), (0, 1, 12, 60000), (1, 0, 20, 60000), (1, 1, 18, 60000), (2, 0, 20, 60000),
                (2, 1, 16, 60000), (3, 0, 18, 60000), (4, 0, 16, 60000), (5, 0, 14, 60000)]
    for n, fails, depth, limit in plan:
        res = _WORKER.ask("enum %d %d %d %d" % (n, fails, depth, limit), budget=3000)
        if res == "hang" or res.startswith("adapter-error"):
            yield sched_line(n, fails, SUFFIX)
            continue
        for entry in res.split("\t"):
            if not entry:
                continue
            s, _, trace = entry.partition("|")
            line = "wsgi_sched %d %d %s" % (n, fails, s)
            _CACHE[line] = trace
            yield line
    # (2) random schedules, blocked threads included (the model must agree on what is blocked)
    for _ in range(4000 if thorough else 250):
        n = rng.choice([0, 1, 2, 2, 3, 3, 4, 6])
        fails = rng.random() < 0.25
        length = rng.randrange(0, 45)
        w = rng.choice([(4, 4, 1, 1), (6, 3, 1, 1), (3, 6, 1, 0), (5, 5, 0, 2), (1, 1, 1, 1)])
        sched = rng.choices([0, 1, 2, 3], weights=w, k=length)
        if rng.random() < 0.3 and sched:
            sched[rng.randrange(len(sched))] = 4
        yield sched_line(n, fails, sched + SUFFIX)
    # (3) real queue, real threads
    yield "wsgi_busy"
    for n in range(1, (7 if thorough else 5) + 1):
        for j in range(0, n + 1):
            for mode in (0, 1):
                yield "wsgi_encfail %d %d %d" % (n, j, mode)
    top = 7 if thorough else 5
    for rep in range(6 if thorough else 1):
        for n in range(0, top):
            for k in range(1, n + 2):      # k = 0 closes a generator that never ran: nothing to check
                for fails in (0, 1):
                    for mode in (0, 1, 2, 3):
                        if mode == 3 and (n > 3 or (not thorough and fails)):
                            continue
                        yield "wsgi_real %d %d %d %d%s" % (n, k, fails, mode, "" if rep == 0 else " r%d" % rep)
            # the server closes the body iterable before it ever asked for a chunk: nothing may be left running
            for fails in (0, 1):
                yield "wsgi_real %d 0 %d 0%s" % (n, fails, "" if rep == 0 else " r%d" % rep)
    # (4) ASGI: every real execution must be a run of the model (trace acceptor)
    yield from trace_cases(tier)


def trace_cases(tier):
    """ASGI scenarios: run on the real code (worker), encoded as `asgi_trace` lines for the acceptor"""
    top = 6 if tier == "thorough" else 4
    for kind in ("stream", "sse"):
        for n in range(0, top):
            for d in range(0, n + 3):
                for fails in (0, 1):
                    for aw in (0, 1, 2, 3):
                        for mode in ((0, 1) if kind == "sse" else (0,)):
                            if mode == 1 and (fails or aw > 1 or n > (2 if tier == "thorough" else 1)):
                                continue
                            line = _WORKER.ask("mktrace %s %d %d %d %d %d" % (kind, n, d, fails, aw, mode))
                            if line.startswith("asgi_trace "):
                                yield line
                            else:   # hang / adapter error while recording: make it visible as a failing line
                                yield "asgi_trace %d %d %d %d %d %d 0 -" % (1 if kind == "sse" else 0, n, fails, d, aw, mode)


def extra(rng, tier):
    """scenarios without a Lean model: judged by the oracle alone"""
    violations = []
    stats = {}
    lines = []
    top = 6 if tier == "thorough" else 4
    for kind in ("asgi_stream", "asgi_sse"):
        for n in range(0, top):
            for d in range(0, n + 2):
                for fails in (0, 1):
                    for aw in (0, 1, 2, 3):
                        lines.append("%s %d %d %d %d" % (kind, n, d, fails, aw))
    # long producers, early disconnect: the response must stop long before the producer is exhausted
    for kind in ("asgi_stream", "asgi_sse"):
        for n in (6, 9):
            for d in (0, 1, 2):
                for aw in (0, 1, 2, 3):
                    lines.append("%s %d %d 0 %d" % (kind, n, d, aw))
    for n in range(1, top):
        for j in range(0, n + 1):
            for aw in (0, 1, 2):
                lines.append("asgi_encfail %d %d %d" % (n, j, aw))
    for mode in (0, 1, 2):
        lines.append("wsgi_iterfail %d" % mode)
    # the producer is an iterator object with aclose() (not an async generator): it is released all the same
    for kind in ("asgi_stream", "asgi_sse"):
        for n in range(0, top):
            for d in range(0, n + 2):
                for fails in (0, 1):
                    for aw in (0, 1, 2):
                        lines.append("%s %d %d %d %d 4" % (kind, n, d, fails, aw))
                        lines.append("%s %d %d %d %d 5" % (kind, n, d, fails, aw))
                        if 1 <= d <= n:
                            lines.append("%s %d %d %d %d 8" % (kind, n, d, fails, aw))
                        if d < n and aw:
                            lines.append("%s %d %d %d %d 6" % (kind, n, d, fails, aw))
                            lines.append("%s %d %d %d %d 7" % (kind, n, d, fails, aw))
    # ASGI event stream of field-less heartbeat events, the client gone from the start
    for n in (6, 9):
        for aw in (1, 2, 3):
            lines.append("asgi_sse %d 0 0 %d 2" % (n, aw))
            lines.append("asgi_sse %d 2 0 %d 2" % (n, aw))
    # WSGI event stream whose producer fails in its own cleanup when it is closed early
    for n in range(2, top + 1):
        for k in range(1, n):
            for mode in (0, 1, 2):
                lines.append("wsgi_cleanupfail %d %d %d" % (n, k, mode))
    for l in lines:
        out = impl(l)
        why = oracle(l, out)
        key = l.split(" ")[0] + "/" + out.split(" ")[0]
        stats[key] = stats.get(key, 0) + 1
        if why:
            violations.append({"line": l, "out": out, "why": why})
    return {"violations": violations, "oracle_only_scenarios": len(lines), "oracle_only_outcomes": stats,
            "worker_restarts": _WORKER.restarts}


MANIFEST = {
    "technique": "Lean 4 proof over explicit-scheduler transition systems (invariants + ranking functions, all "
                 "schedules) + forced-schedule replay, watchdog runs and trace acceptance on the real code",
    "text": "Lean theorems over three transition systems with an explicit, universally quantified scheduler (WSGI "
            "SSE relay threads; ASGI streaming loop; ASGI SSE relay task with asyncio's cancellation rule and a "
            "nondeterministic ping timeout), for every producer length, both producer endings and every "
            "close/disconnect point: no deadlock, a ranking function that strictly decreases on every step after "
            "the close/disconnect (bounded by a constant, at most one more producer step, at most one more ping), "
            "generator cleaned up exactly once and no thread/task left when finished, delivered is a prefix of "
            "yielded in every reachable state; plus a witness theorem that the WSGI protocol before the repair "
            "deadlocks.  Tie on every run: the shapes of the closing code are regenerated from /repo and pinned; "
            "every schedule of enabled steps up to a depth is enumerated and replayed on the real WSGI "
            "SendEventResponse through a parking queue/future shim and compared state by state with the model; "
            "real queue.Queue + real threads run under a watchdog; every real ASGI execution's observation trace "
            "must be accepted by the model; an independent oracle states the property on all outputs.",
    "note": "Trusted: Lean kernel (propext, Classical.choice, Quot.sound only), tools/extract.py, the parking shim "
            "(it replaces queue.Queue and the executor in forced runs; the watchdog runs use the real ones). Not "
            "modelled: OS thread fairness, wall-clock ping timing, queue.Queue's internal locking, asyncio internals "
            "beyond the cancellation rule, producers whose own cleanup awaits.  WSGI StreamResponse (`yield from`) has its own "
            "small model (Model/StreamWsgi.lean: Python's generator delegation rule) and theorem "
            "ws_stream_terminates_and_releases.",
    "design": "C06",
}
CORRESPONDENCE = ("Baize.Stream.macroStep / fairRun  vs  baize.wsgi.responses.SendEventResponse under a forced scheduler "
                  "and with real threads;  Baize.StreamAsgi.saccepts / eaccepts  vs  observation traces of "
                  "baize.asgi.responses.StreamResponse / SendEventResponse")
RULE = ("corpus (the deadlock schedules of the pinned tree) first; every schedule of enabled steps (relay / consumer / "
        "close / ping-timeout) up to depth 8-12 for producers of 0-3 items (thorough: up to 14, 0-5 items), "
        "enumerated statelessly on the real code, each completed by a fair suffix; random schedules including "
        "blocked threads; real-thread grid n<=4 (6) x close point x producer ending x 4 timing modes, plus the "
        "busy-pool cancel case; ASGI grid kind x n<=3 (5) x disconnect point x ending x 0-3 extra suspensions x "
        "stalled producer with short ping interval.  non-trivial = the close/disconnect happens while the "
        "producer still has items; distinct = distinct op line")
TRUSTED = [
    "the parking shim (harness/c06.py ShimQueue/ShimFuture/ShimExecutor) implements a bounded FIFO queue and future "
    "waiting faithfully; the real queue.Queue / ThreadPoolExecutor are exercised by the wsgi_real scenarios",
    "asyncio: a task runs from one suspension point to the next; cancel() delivers CancelledError at the "
    "suspension point of a task that is not done (the model's only assumption about the event loop)",
    "Python's GIL makes reads/writes of the should_stop flag sequentially consistent",
]
ASSUMPTIONS = [
    "the producer is a generator (has close()/aclose()) that yields finitely many items and whose own cleanup does "
    "not block / await; producer steps and send() calls eventually complete",
    "an enabled thread / ready task eventually runs (no other fairness)",
    "a producer that was never started has no cleanup to run (relay cancelled before its first step)",
]
PARTIAL = ("The ASGI models treat "
           "the relay's `await g.aclose()` as non-suspending: producers whose cleanup itself awaits are judged on "
           "the real code by the oracle only (scenario modes 5 and 7), not by a theorem; iterator objects whose "
           "cleanup is their aclose() are covered for the event stream by e_aclose_exactly_once, for the plain "
           "StreamResponse by the pinned shape of its finally block and scenario mode 4.  "
           "Forced-schedule replay is at queue/future-call granularity; interleavings of the should_stop flag finer "
           "than that are covered by the proofs only.")
