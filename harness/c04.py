"""C04 — the WSGI and ASGI stacks are observationally equivalent.

One op = one (application, abstract request) pair.  The application is built twice, from real
`baize.wsgi` objects and from real `baize.asgi` objects; the request is presented twice, as a PEP 3333
environ and as an ASGI scope + messages; both stacks are run and observed (status, header multiset with
lower-cased names, body bytes; the request view is observed from inside view functions).  The output
`W <outcome> | A <outcome>` is compared with the two Lean interpreters (two correspondences); the oracle
compares the two REAL outcomes with each other directly and never looks at the model.
"""
import asyncio
import hashlib
import io
import json
import zlib
import os
import tempfile
import re
import stat as statmod
import sys
import time
from email.utils import formatdate, parsedate_to_datetime
from mimetypes import guess_type

import baize.asgi as A
import baize.asgi.responses as asgi_responses
import baize.wsgi as W
import baize.wsgi.responses as wsgi_responses
from baize.exceptions import HTTPException, UnsupportedMediaType
from baize.responses import FileResponseMixin
from baize.routing import Route

from .common import corpus_lines, dec_bytes, dec_text, enc
from .mp_common import Part, encode_form, r_items

PROPERTY = "C04"
LEAN_MODULES = ["BaizeVerif.Props.C04"]
MODEL_MODULES = ["BaizeVerif.Model.Equiv"]
DRIVER_OPS = {"c04": "Equiv.run"}
THEOREMS = [
    "Baize.Equiv.source_pinned",
    "Baize.Equiv.headers_equal",
    "Baize.Equiv.request_view_equal_partial",
    "Baize.Equiv.client_needs_port_witness",
    "Baize.Equiv.response_equal",
    "Baize.Equiv.response_equal_encodable",
    "Baize.Equiv.response_latin1_witness",
    "Baize.Equiv.sse_connection_only",
    "Baize.Equiv.dispatch_presentations",
    "Baize.Equiv.static_equal",
    "Baize.Equiv.app_equal_partial",
    "Baize.Equiv.mount_prefix_witness",
    "Baize.Equiv.router_path_witness",
]
GEN_MODULES = ["c04", "c02", "c07", "c09", "c13", "c14", "c16", "c18", "c19", "c01"]
MANIFEST = {
    "technique": "Lean 4 proof over two separately transcribed interpreters (WSGI / ASGI) of one abstract-HTTP model "
                 "+ two differential correspondences + a direct WSGI-vs-ASGI differential oracle on the real stacks",
    "text": "An abstract request is presented as a PEP 3333 environ and as an ASGI scope; Lean theorems show that the "
            "two request views are equal (request_view_equal), that every response class gives the same status, "
            "header list and body on both interfaces up to the Connection header of the event-stream response "
            "(response_equal), and that compositions (Subpaths/Hosts trees of any depth over responses, views, "
            "Files/Pages, routers) answer alike (app_equal_partial, structural induction over the mount tree, re-using "
            "the models and theorems of C02, C07, C09, C13, C14, C16, C18, C19, C01).  Every key, codec, literal and "
            "default the twins use is regenerated from the sources per interface; each real stack is diffed against "
            "its interpreter and the two real stacks against each other on every generated (application, request).",
    "note": "Trusted: Lean kernel (propext, Classical.choice, Quot.sound), tools/gen/c04.py, the harness, and "
            "toEnviron/toScope as MY rendering of what PEP 3333 / ASGI servers do.  Opaque shared stdlib results "
            "(json, mimetypes, sha1, date formatting/parsing, re) enter both interpreters as the same values.",
    "design": "C04",
}
CORRESPONDENCE = ("Baize.Equiv.wsgiRun / asgiRun (interpreters over toEnviron / toScope)  vs  the real baize.wsgi / "
                  "baize.asgi applications called with the environ / scope built by the harness")
RULE = ("corpus; every response class x status (incl. unknown codes) x 0-3 extra headers x 0-3 cookies x str/bytes "
        "content x charsets; request views over header lists with mixed-case names, Accept / Content-Type / "
        "Content-Length / Cookie / Date / Referer / Host variants, JSON / urlencoded / multipart bodies in 1-4 chunks, "
        "non-ASCII paths and root paths; Subpaths/Hosts trees up to depth 3 over responses, views, routers, "
        "Files/Pages on a temp tree with conditional and Range headers.  non-trivial = a view, a static app, a "
        "router or a tree with >= 2 entries is involved; distinct = distinct op line")
TRUSTED = [
    "toEnviron / toScope (Lean) and make_environ / make_scope (harness): my rendering of PEP 3333 and of the ASGI "
    "HTTP scope (HTTP_* upper-casing, CONTENT_TYPE / CONTENT_LENGTH, Latin-1 presentation of UTF-8 paths, "
    "REMOTE_ADDR / REMOTE_PORT vs client, lower-cased byte headers)",
    "json, mimetypes.guess_type, sha1, email.utils.formatdate / parsedate_to_datetime, re, urllib.parse: shared "
    "stdlib results handed to both interpreters as opaque values",
    "the theorems of C02, C07, C09, C13, C14, C16, C18, C19, C01 that the composition cites",
]
ASSUMPTIONS = [
    "request header field names are ASCII tokens without '_' and occur once (a server folds repeats); header values "
    "are Latin-1",
    "the request path and root path are text (no lone surrogates); wsgi.input ends with EOF at the end of the body",
    "response header names / values / cookie lines are Latin-1 (what is not is C05's business: ASGI raises "
    "UnicodeEncodeError, WSGI hands the text to the server)",
    "mount prefixes are ASCII (a non-ASCII prefix is a recorded finding), router paths are ASCII (finding)",
    "finite streams, no keep-alive ping, no client disconnect (C06), no middleware (C20)",
]
PARTIAL = ("app_equal_partial: (1) mount prefixes must be ASCII and, under a Router, the request path must be ASCII — "
           "the WSGI twins match the configured text against the Latin-1 presentation of the UTF-8 path (findings "
           "wsgi-nonascii-mount-prefix / wsgi-router-nonascii-path, witnesses mount_prefix_witness / "
           "router_path_witness); (2) the Router is modelled over an opaque Route.matches (C08's model is not in this "
           "tree); (3) a multipart body must be a well-formed form for the form view (C01's theorem); "
           "request_view_equal needs the client port to be known whenever the address is (finding "
           "wsgi-client-needs-port).")
OP_TIMEOUT = 60

NOW = 1700000000
WORLD_ROOT = "/tmp/baize-verif-c04"
PROBES = ["application/json", "text/html", "text/plain", "image/png"]
KNOWN_CODECS = {"latin-1": "latin-1", "utf-8": "utf-8", "utf8": "utf-8", "ascii": "ascii"}

# ----------------------------------------------------------------------------------------------
# wire helpers


def opt(x):
    return "~" if x is None else enc(x)


def un_opt(tok, text=True):
    if tok == "~":
        return None
    return dec_text(tok) if text else dec_bytes(tok)


def enc_pairs(pairs):
    return "&".join("%s=%s" % (enc(k), enc(v)) for k, v in pairs) if pairs else "N"


def dec_pairs(tok):
    if tok in ("N", ""):
        return []
    return [tuple(dec_text(x) for x in kv.split("=")) for kv in tok.split("&")]


def enc_chunks(chunks):
    return "/".join(enc(c) for c in chunks) if chunks else "_"


def dec_chunks(tok):
    return [] if tok == "_" else [dec_bytes(c) for c in tok.split("/")]


COOKIE_FIELDS = ("name", "value", "expires", "max_age", "domain", "path", "httponly", "secure", "samesite")


def enc_cookies(cookies):
    if not cookies:
        return "N"
    out = []
    for c in cookies:
        out.append("=".join([enc(c["name"]), enc(c["value"]), "N" if c["expires"] is None else str(c["expires"]),
                             str(c["max_age"]), enc(c["domain"] or ""), enc(c["path"] or ""),
                             "1" if c["httponly"] else "0", "1" if c["secure"] else "0", enc(c["samesite"])]))
    return "&".join(out)


def dec_cookies(tok):
    if tok in ("N", ""):
        return []
    out = []
    for c in tok.split("&"):
        n, v, ex, ma, dom, pa, ho, se, ss = c.split("=")
        out.append(dict(name=dec_text(n), value=dec_text(v), expires=None if ex == "N" else int(ex), max_age=int(ma),
                        domain=dec_text(dom), path=dec_text(pa), httponly=ho == "1", secure=se == "1",
                        samesite=dec_text(ss)))
    return out


def enc_events(events):
    if not events:
        return "_"
    out = []
    for ev in events:
        fs = []
        for k, v in ev.items():
            if k == "retry":
                fs.append("r:%d" % v)
            else:
                fs.append("%s:%s" % (k[0], enc(v)))
        out.append("+".join(fs) if fs else "-")
    return "/".join(out)


def dec_events(tok):
    if tok in ("_", ""):
        return []
    out = []
    for e in tok.split("/"):
        ev = {}
        if e != "-":
            for f in e.split("+"):
                tag, val = f.split(":")
                if tag == "r":
                    ev["retry"] = int(val)
                else:
                    ev[{"e": "event", "i": "id", "d": "data"}[tag]] = dec_text(val)
        out.append(ev)
    return out


def enc_common(r):
    return "%d;%s;%s" % (r["status"], enc_pairs(r.get("headers") or []), enc_cookies(r.get("cookies") or []))


def enc_recipe(r):
    k = r["kind"]
    if k == "e":
        return "e;" + enc_common(r)
    if k in "pPhHj":
        return "%s;%s;%s;%s;%s" % (k, enc(r["body"]), opt(r.get("media_type")), opt(r.get("charset")), enc_common(r))
    if k == "d":
        return "d;%s;%s" % (enc(r["url"]), enc_common(r))
    if k == "t":
        return "t;%s;%s;%s" % (enc_chunks(r["chunks"]), opt(r.get("content_type")), enc_common(r))
    if k == "z":
        return "z;%s;%s;%s" % (enc_events(r["events"]), opt(r.get("charset")), enc_common(r))
    if k == "f":
        return "f;%d;%s" % (r["file"], enc_common(r))
    raise ValueError(k)


def dec_recipe(toks):
    k = toks[0]

    def common(rest):
        return dict(status=int(rest[0]), headers=dec_pairs(rest[1]), cookies=dec_cookies(rest[2]))

    if k == "e":
        return dict(kind="e", **common(toks[1:]))
    if k in "pPhHj":
        return dict(kind=k, body=dec_bytes(toks[1]), media_type=un_opt(toks[2]), charset=un_opt(toks[3]), **common(toks[4:]))
    if k == "d":
        return dict(kind="d", url=dec_text(toks[1]), **common(toks[2:]))
    if k == "t":
        return dict(kind="t", chunks=dec_chunks(toks[1]), content_type=un_opt(toks[2]), **common(toks[3:]))
    if k == "z":
        return dict(kind="z", events=dec_events(toks[1]), charset=un_opt(toks[2]), **common(toks[3:]))
    if k == "f":
        return dict(kind="f", file=int(toks[1]), **common(toks[2:]))
    raise ValueError(k)


def enc_endpoint(ep):
    if ep[0] == "r":
        return "r;" + enc_recipe(ep[1])
    if ep[0] == "v":
        return "v;%d" % ep[1]
    return "s;%d;%s" % (1 if ep[1] else 0, enc(ep[2]))


def dec_endpoint(tok):
    toks = tok.split(";")
    if toks[0] == "r":
        return ("r", dec_recipe(toks[1:]))
    if toks[0] == "v":
        return ("v", int(toks[1]))
    return ("s", toks[1] == "1", dec_text(toks[2]))


def enc_leaf(leaf):
    if leaf[0] == "E":
        return "E" + enc_endpoint(leaf[1])
    return "R" + "!".join("%d@%s" % (i, enc_endpoint(ep)) for i, ep in leaf[1])


def dec_leaf(tok):
    if tok.startswith("R"):
        routes = []
        for r in tok[1:].split("!"):
            i, ep = r.split("@")
            routes.append((int(i), dec_endpoint(ep)))
        return ("R", routes)
    return ("E", dec_endpoint(tok[1:]))


def enc_tree(tree):
    """C09's token: preorder, `0;id` leaf, `1;n` Subpaths, `2;n` Hosts"""
    out = []

    def go(t):
        if t[0] == "L":
            out.extend(["0", str(t[1])])
        elif t[0] == "M":
            out.extend(["1", str(len(t[1]))])
            for pre, sub in t[1]:
                out.append(enc(pre))
                go(sub)
        else:
            out.extend(["2", str(len(t[1]))])
            for i, sub in t[1]:
                out.append(str(i))
                go(sub)

    go(tree)
    return ";".join(out)


def dec_tree(tok):
    toks = tok.split(";")
    pos = [0]

    def go():
        k = toks[pos[0]]
        if k == "0":
            pos[0] += 2
            return ("L", int(toks[pos[0] - 1]))
        n = int(toks[pos[0] + 1])
        pos[0] += 2
        entries = []
        for _ in range(n):
            key = toks[pos[0]]
            pos[0] += 1
            sub = go()
            entries.append((dec_text(key) if k == "1" else int(key), sub))
        return ("M" if k == "1" else "H", entries)

    return go()


def enc_world(world):
    if world is None:
        return "-"
    out = [enc(world["base"])]
    for f in world["files"]:
        out.append("f:%s:%s:%s:%s:%s:%s:%d:%d" % (enc(f["rel"]), enc(f["content"]), enc(f["ct"]), opt(f["disp"]),
                                                  enc(f["lm"]), enc(f["etag"]), f["mtime"], f["ctime"]))
    for d in world["dirs"]:
        out.append("d:" + enc(d))
    return ";".join(out)


def dec_world(tok):
    if tok == "-":
        return None
    parts = tok.split(";")
    w = dict(base=dec_text(parts[0]), files=[], dirs=[])
    for e in parts[1:]:
        fs = e.split(":")
        if fs[0] == "f":
            w["files"].append(dict(rel=dec_text(fs[1]), content=dec_bytes(fs[2]), ct=dec_text(fs[3]), disp=un_opt(fs[4]),
                                   lm=dec_text(fs[5]), etag=dec_text(fs[6]), mtime=int(fs[7]), ctime=int(fs[8])))
        elif fs[0] == "d":
            w["dirs"].append(dec_text(fs[1]))
    return w


def enc_rm(entries):
    if not entries:
        return "N"
    out = []
    for i, path, res in entries:
        if res is None:
            r = "N"
        elif isinstance(res, str):
            r = "X" + res
        else:
            r = "P" + ("&".join("%s=%s" % (enc(k), enc(v)) for k, v in res) if res else "")
        out.append("%d:%s:%s" % (i, enc(path), r))
    return ";".join(out)


def mk_line(site, rq):
    """site: dict(tree, leaves, patterns, routes, world); rq: the abstract request"""
    host = None
    for n, v in rq["headers"]:
        if n.lower() == "host":
            host = v
    bits = ",".join("1" if re.fullmatch(p, host or "") is not None else "0" for p in site.get("patterns", [])) or "-"
    raw_path = rq["path"].encode("utf-8", "surrogatepass").decode("latin-1")
    cands = []
    for p in (rq["path"], raw_path):
        for i in range(len(p) + 1):
            if p[i:] not in cands:
                cands.append(p[i:])
    rm = []
    for i, fmt in enumerate(site.get("routes", [])):
        route = Route(fmt, None)
        for cnd in cands:
            try:
                ok, params = route.matches(cnd)
            except Exception as exc:  # noqa
                rm.append((i, cnd, type(exc).__name__))
                continue
            if ok:
                rm.append((i, cnd, [(k, repr(v)) for k, v in params.items()]))
    client = "~" if rq.get("client") is None else "%s:%s" % (enc(rq["client"][0]),
                                                            "~" if rq["client"][1] is None else rq["client"][1])
    ims = "~"
    for n, v in rq["headers"]:
        if n.lower() == "if-modified-since" and v:
            try:
                ims = str(int(parsedate_to_datetime(v).timestamp()))
            except Exception:  # noqa
                ims = "~"
            if ims.startswith("-"):
                ims = "~"
    return " ".join([
        "c04", enc_tree(site["tree"]), "|".join(enc_leaf(l) for l in site["leaves"]), bits, enc_rm(rm),
        enc_world(site.get("world")), enc(rq["method"]), enc(rq.get("scheme", "http")), enc(rq.get("shost", "srv")),
        str(rq.get("sport", 80)), enc(rq.get("root", "")), enc(rq["path"]), enc(rq.get("query", b"")),
        enc_pairs(rq["headers"]), client, enc_chunks(rq.get("body", [])), ims,
        ";".join(enc(p) for p in site.get("patterns", [])) or "-", ";".join(enc(r) for r in site.get("routes", [])) or "-"])


def parse_line(line):
    a = line.split(" ")
    site = dict(tree=dec_tree(a[1]), leaves=[dec_leaf(t) for t in a[2].split("|")], world=dec_world(a[5]),
                patterns=[] if a[17] == "-" else [dec_text(p) for p in a[17].split(";")],
                routes=[] if a[18] == "-" else [dec_text(p) for p in a[18].split(";")])
    client = None
    if a[14] != "~":
        h, p = a[14].split(":")
        client = (dec_text(h), None if p == "~" else int(p))
    rq = dict(method=dec_text(a[6]), scheme=dec_text(a[7]), shost=dec_text(a[8]), sport=int(a[9]), root=dec_text(a[10]),
              path=dec_text(a[11]), query=dec_bytes(a[12]), headers=dec_pairs(a[13]), client=client, body=dec_chunks(a[15]))
    return site, rq


# ----------------------------------------------------------------------------------------------
# the world of the static apps: real files, os.stat virtualised for their times

_real_stat = os.stat
_VIRT = {}


def _vstat(path, *a, **kw):
    try:
        v = _VIRT.get(path if isinstance(path, str) else os.fspath(path))
    except TypeError:
        v = None
    if v is not None:
        real = _real_stat(path, *a, **kw)
        m, c = v
        return os.stat_result((real.st_mode, real.st_ino, real.st_dev, real.st_nlink, real.st_uid, real.st_gid,
                               real.st_size, int(m), int(m), int(c), float(m), float(m), float(c),
                               m * 10 ** 9, m * 10 ** 9, c * 10 ** 9))
    return _real_stat(path, *a, **kw)


def _fake_stat(size, mtime, ctime):
    return os.stat_result((statmod.S_IFREG | 0o644, 7, 1, 1, 0, 0, size, mtime, mtime, ctime,
                           float(mtime), float(mtime), float(ctime), mtime * 10 ** 9, mtime * 10 ** 9, ctime * 10 ** 9))


_MATERIALISED = set()


def materialise(world):
    key = enc_world(world)
    if key in _MATERIALISED:
        return
    base = world["base"]
    for d in world["dirs"]:
        os.makedirs(os.path.join(base, d), exist_ok=True)
    os.makedirs(base, exist_ok=True)
    for f in world["files"]:
        p = os.path.join(base, f["rel"])
        os.makedirs(os.path.dirname(p), exist_ok=True)
        if not (os.path.isfile(p) and open(p, "rb").read() == f["content"]):
            with open(p, "wb") as fh:
                fh.write(f["content"])
    _MATERIALISED.add(key)


def make_world(name, files, dirs=(), mtime=NOW - 86400, ctime=None):
    """files: [(rel, content)] or [(rel, content, mtime, ctime)]; the opaque texts come from the real shared code"""
    spec = repr((name, files, dirs))
    base = os.path.join(WORLD_ROOT, "w" + hashlib.sha1(spec.encode()).hexdigest()[:10], "root")
    w = dict(base=base, files=[], dirs=list(dirs))
    mix = FileResponseMixin()
    for f in files:
        rel, content = f[0], f[1]
        mt = f[2] if len(f) > 2 else mtime
        ct_ = f[3] if len(f) > 3 else (ctime if ctime is not None else mt)
        st = _fake_stat(len(content), mt, ct_)
        ctype = guess_type(os.path.basename(rel))[0] or "application/octet-stream"
        common = mix.generate_common_headers(os.path.join(base, rel), ctype, None, st)
        w["files"].append(dict(rel=rel, content=content, ct=ctype, disp=common.get("content-disposition"),
                               lm=common["last-modified"], etag=common["etag"].strip('"'), mtime=mt, ctime=ct_))
    return w


# ----------------------------------------------------------------------------------------------
# presentations of the abstract request


def cgi_key(name):
    low = name.lower()
    if low == "content-type":
        return "CONTENT_TYPE"
    if low == "content-length":
        return "CONTENT_LENGTH"
    return "HTTP_" + name.upper().replace("-", "_")


class ChunkInput:
    """wsgi.input: read() returns the chunks one by one, then b'' (EOF)"""

    def __init__(self, chunks):
        self.chunks = [c for c in chunks if c]
        # the two servers need not cut the upload alike: for every other body the WSGI server hands it over in one
        # piece while the ASGI server delivers the pieces of the line (what the application sees must not depend on it)
        whole = b"".join(self.chunks)
        if whole and zlib.crc32(whole) % 2 == 0:
            self.chunks = [whole]

    def read(self, size=-1):
        return self.chunks.pop(0) if self.chunks else b""


def make_environ(rq, salt):
    env = {
        "REQUEST_METHOD": rq["method"],
        "SCRIPT_NAME": rq["root"].encode("utf-8").decode("latin-1"),
        "PATH_INFO": rq["path"].encode("utf-8").decode("latin-1"),
        "QUERY_STRING": rq["query"].decode("latin-1"),
        "SERVER_NAME": rq["shost"],
        "SERVER_PORT": str(rq["sport"]),
        "SERVER_PROTOCOL": "HTTP/1.1",
        "wsgi.version": (1, 0),
        "wsgi.url_scheme": rq["scheme"],
        "wsgi.input": ChunkInput(rq["body"]),
        "wsgi.errors": io.StringIO(),
        "wsgi.multithread": True,
        "wsgi.multiprocess": False,
        "wsgi.run_once": False,
    }
    if rq["client"] is not None:
        env["REMOTE_ADDR"] = rq["client"][0]
        if rq["client"][1] is not None:
            env["REMOTE_PORT"] = str(rq["client"][1])
    for n, v in rq["headers"]:
        env[cgi_key(n)] = v
    # a server may fill the dict in any order
    keys = sorted(env, key=lambda k: hashlib.sha1((salt + k).encode()).digest())
    return {k: env[k] for k in keys}


def _quote_path(path):
    """the path as it was on the wire (percent-encoded bytes), which servers put into the optional `raw_path`"""
    from urllib.parse import quote as _q
    try:
        return _q(path, safe="/").encode("ascii")
    except Exception:  # noqa
        return path.encode("utf-8", "replace")


def make_scope(rq):
    scope = {
        "type": "http",
        "asgi": {"version": "3.0", "spec_version": "2.3"},
        "http_version": "1.1",
        "method": rq["method"],
        "scheme": rq["scheme"],
        "path": rq["path"],
        "raw_path": _quote_path(rq["path"]),
        "query_string": rq["query"],
        "root_path": rq["root"],
        "headers": [(n.lower().encode("latin-1"), v.encode("latin-1")) for n, v in rq["headers"]],
        "client": None if rq["client"] is None else (rq["client"][0], rq["client"][1]),
        "server": (rq["shost"], rq["sport"]),
    }
    msgs = [{"type": "http.request", "body": c, "more_body": True} for c in rq["body"]]
    if msgs:
        msgs[-1]["more_body"] = False
    else:
        msgs = [{"type": "http.request", "body": b"", "more_body": False}]
    return scope, msgs


# ----------------------------------------------------------------------------------------------
# the view functions (the same text is produced by Baize.Equiv.stdViews)


def rl(x):
    return enc(x)


def r_pairs(items, srt=False):
    out = ["%s=%s" % (rl(k), rl(v)) for k, v in items]
    if srt:
        out.sort()
    return ";".join(out) if out else "-"


def guard(fn, render):
    try:
        return "ok:" + render(fn())
    except HTTPException as exc:
        return "http:%d" % exc.status_code
    except Exception as exc:  # noqa
        return "crash:" + type(exc).__name__


def header_lines(request):
    lines = []
    lines.append("m=" + guard(lambda: request.method, rl))
    lines.append("u=" + guard(lambda: request.url, lambda u: rl(str(u))))
    lines.append("h=" + guard(lambda: request.headers, lambda h: r_pairs(h.items(), True)))
    lines.append("q=" + guard(lambda: request.query_params, lambda q: r_pairs(q.multi_items())))
    lines.append("c=" + r_pairs(request.cookies.items()))
    ct = request.content_type
    lines.append("ct=%s|%s" % (rl(ct.type), r_pairs(ct.options.items())))
    cl = request.content_length
    lines.append("cl=" + ("~" if cl is None else str(cl)))
    ats = request.accepted_types
    lines.append("at=" + ("&".join("%s/%s/%s" % (rl(m.main_type), rl(m.sub_type), r_pairs(m.options.items()))
                                   for m in ats) if ats else "-"))
    lines.append("ac=" + "".join("1" if request.accepts(p) else "0" for p in PROBES))
    d = request.headers.get("date")
    lines.append("d=" + ("~" if d is None else rl(d)))
    try:
        ref = request.referrer
        lines.append("r=" + ("~" if ref is None else "ok:" + rl(str(ref))))
    except Exception as exc:  # noqa
        lines.append("r=crash:" + type(exc).__name__)
    lines.append("cli=" + guard(lambda: request.client,
                                lambda c: "%s/%s" % ("~" if c.host is None else rl(c.host),
                                                     "~" if c.port is None else repr(c.port))))
    return lines


def json_line(request, get_json, rich):
    try:
        rich["json"] = ("ok", get_json())
    except UnsupportedMediaType:
        rich["json"] = ("415",)
        return "j=415"
    except HTTPException as exc:
        rich["json"] = ("http", exc.status_code, exc.content)
    except Exception as exc:  # noqa
        rich["json"] = ("crash", type(exc).__name__)
    return "j=p:" + rl(request.content_type.options.get("charset", "utf8"))


def form_line(request, get_form, rich):
    ctype = request.content_type
    try:
        form = get_form()
    except UnsupportedMediaType:
        rich["form"] = ("415",)
        return "f=415"
    except HTTPException as exc:
        rich["form"] = ("http", exc.status_code)
        if ctype == "multipart/form-data":
            return "f=m:http_%d" % exc.status_code
        cs = ctype.options.get("charset", "latin-1")
        return "f=u:%s:%s" % (rl(cs), "http_%d" % exc.status_code if cs in KNOWN_CODECS else "opaque")
    except Exception as exc:  # noqa
        rich["form"] = ("crash", type(exc).__name__)
        if ctype == "multipart/form-data":
            return "f=m:crash_" + type(exc).__name__
        cs = ctype.options.get("charset", "latin-1")
        return "f=u:%s:%s" % (rl(cs), "crash_" + type(exc).__name__ if cs in KNOWN_CODECS else "opaque")
    items = form.multi_items()
    if ctype == "multipart/form-data":
        text = r_items(items, lambda f: f.read())
        rich["form"] = ("ok", text)
        return "f=m:ok_" + text
    cs = ctype.options.get("charset", "latin-1")
    rich["form"] = ("ok", items)
    return "f=u:%s:%s" % (rl(cs), r_pairs(items) if cs in KNOWN_CODECS else "opaque")


def pp_line(request):
    return "pp=" + r_pairs([(k, repr(v)) for k, v in request.path_params.items()])


def rich_headers(request, rich):
    try:
        d = request.date
        rich["date"] = None if d is None else (d.isoformat(), str(d.tzinfo))
    except Exception as exc:  # noqa
        rich["date"] = ("crash", type(exc).__name__)
    rich["accepts"] = [request.accepts(p) for p in ("text/*", "*/*", "application/xml", "x", "")]


def std_cookie_kwargs(nv):
    return dict(key=nv[0], value=nv[1])


def wsgi_view(i, M, rich):
    def view(request):
        if i == 0:
            lines = header_lines(request)
            rich_headers(request, rich)
            lines.append("b=" + guard(lambda: request.body, rl)[3:])
            lines.append(json_line(request, lambda: request.json, rich))
            lines.append(pp_line(request))
            return M.PlainTextResponse("\n".join(lines))
        if i == 5:
            lines = header_lines(request)[5:7]
            lines.append(form_line(request, lambda: request.form, rich))
            request.close()
            return M.PlainTextResponse("\n".join(lines))
        return _small_views(i, M, request, request.body if i == 4 else None)
    return view


def asgi_view(i, M, rich):
    async def view(request):
        if i == 0:
            lines = header_lines(request)
            rich_headers(request, rich)
            body = await request.body
            lines.append("b=" + rl(body))

            try:
                val = await request.json
                rich["json"] = ("ok", val)
                lines.append("j=p:" + rl(request.content_type.options.get("charset", "utf8")))
            except UnsupportedMediaType:
                rich["json"] = ("415",)
                lines.append("j=415")
            except HTTPException as exc:
                rich["json"] = ("http", exc.status_code, exc.content)
                lines.append("j=p:" + rl(request.content_type.options.get("charset", "utf8")))
            except Exception as exc:  # noqa
                rich["json"] = ("crash", type(exc).__name__)
                lines.append("j=p:" + rl(request.content_type.options.get("charset", "utf8")))
            lines.append(pp_line(request))
            return M.PlainTextResponse("\n".join(lines))
        if i == 5:
            lines = header_lines(request)[5:7]
            res = {}
            try:
                res["v"] = await request.form
            except Exception as exc:  # noqa
                res["e"] = exc

            def get():
                if "e" in res:
                    raise res["e"]
                return res["v"]

            lines.append(form_line(request, get, rich))
            try:
                await request.close()
            except Exception:  # noqa  (asgi close() re-raises a failed form; C10 observation, outside the view)
                pass
            return M.PlainTextResponse("\n".join(lines))
        return _small_views(i, M, request, (await request.body) if i == 4 else None)
    return view


def _small_views(i, M, request, body):
    if i == 1:
        if request.accepts("application/json"):
            return M.JSONResponse({"ok": True})
        if request.accepts("text/html"):
            return M.HTMLResponse("<p>ok</p>")
        return M.PlainTextResponse("no", 406)
    if i == 2:
        try:
            return M.RedirectResponse(request.url)
        except HTTPException:
            return M.Response(400)
    if i == 3:
        resp = M.Response(204, {"X-Method": request.method})
        for k, v in list(request.cookies.items())[:3]:
            resp.set_cookie(k, v)
        return resp
    ctype = request.content_type.type
    return M.PlainTextResponse(body, 200 if request.content_length is not None else 202, media_type=ctype or None)


# ----------------------------------------------------------------------------------------------
# building the two applications from one description


def _gen(items):
    for x in items:
        yield x


async def _agen(items):
    for x in items:
        yield x


def build_response(M, r, world, is_asgi):
    k = r["kind"]
    headers = dict(r["headers"]) if r["headers"] else None
    if k == "e":
        resp = M.Response(r["status"], headers)
    elif k in "pPhH":
        cls = M.PlainTextResponse if k in "pP" else M.HTMLResponse
        content = r["body"]
        if k in "PH":
            content = content.decode(r["charset"] or "utf-8")
        resp = cls(content, r["status"], headers, media_type=r["media_type"], charset=r["charset"])
    elif k == "j":
        resp = M.JSONResponse(json.loads(r["body"].decode("utf-8")), r["status"], headers)
    elif k == "d":
        resp = M.RedirectResponse(r["url"], r["status"], headers)
    elif k == "t":
        it = _agen(r["chunks"]) if is_asgi else _gen(r["chunks"])
        if r["content_type"] is None:
            resp = M.StreamResponse(it, r["status"], headers)
        else:
            resp = M.StreamResponse(it, r["status"], headers, content_type=r["content_type"])
    elif k == "z":
        _seen = {}
        evs = [_seen.setdefault(tuple(sorted(e.items())), dict(e)) for e in r["events"]]   # equal events: one dict object, yielded again
        it = _agen(evs) if is_asgi else _gen(evs)
        kw = {} if r["charset"] is None else {"charset": r["charset"]}
        resp = M.SendEventResponse(it, r["status"], headers, ping_interval=30, **kw)
    else:
        f = world["files"][r["file"]]
        resp = M.FileResponse(os.path.join(world["base"], f["rel"]))
    for c in r["cookies"]:
        resp.set_cookie(c["name"], c["value"], max_age=c["max_age"],
                        expires=None if c["expires"] is None else c["expires"] - NOW, path=c["path"] or None,
                        domain=c["domain"] or None, secure=c["secure"], httponly=c["httponly"], samesite=c["samesite"])
    return resp


def build_endpoint(M, ep, site, is_asgi, rich, marks):
    if ep[0] == "r":
        r = ep[1]
        if is_asgi:
            async def app(scope, receive, send):
                resp = build_response(M, r, site["world"], True)
                marks["sse"] = r["kind"] == "z"
                return await resp(scope, receive, send)
        else:
            def app(environ, start_response):
                resp = build_response(M, r, site["world"], False)
                marks["sse"] = r["kind"] == "z"
                return resp(environ, start_response)
        return app
    if ep[0] == "v":
        return M.request_response((asgi_view if is_asgi else wsgi_view)(ep[1], M, rich))
    cls = M.Pages if ep[1] else M.Files
    return cls(ep[2])


def build_app(M, site, is_asgi, rich, marks):
    leaves = []
    for leaf in site["leaves"]:
        if leaf[0] == "E":
            leaves.append(build_endpoint(M, leaf[1], site, is_asgi, rich, marks))
        else:
            leaves.append(M.Router(*[(site["routes"][i], build_endpoint(M, ep, site, is_asgi, rich, marks))
                                     for i, ep in leaf[1]]))

    def go(t):
        if t[0] == "L":
            return leaves[t[1]]
        if t[0] == "M":
            return M.Subpaths(*[(pre, go(sub)) for pre, sub in t[1]])
        return M.Hosts(*[(site["patterns"][i], go(sub)) for i, sub in t[1]])

    return go(site["tree"])


# ----------------------------------------------------------------------------------------------
# running and observing


def render_outcome(sse, status, headers, body):
    hs = sorted("%s=%s" % (enc(k.lower()), enc(v)) for k, v in headers)
    return "r%d %d %s %s" % (1 if sse else 0, status, ";".join(hs) if hs else "-", enc(body))


def exc_outcome(exc):
    if isinstance(exc, HTTPException):
        return "http %d" % exc.status_code
    return "crash %s" % type(exc).__name__


def run_wsgi(site, rq, salt, rich):
    marks = {"sse": False}
    try:
        app = build_app(W, site, False, rich, marks)
    except AssertionError:
        return "config AssertionError"
    environ = make_environ(rq, salt)
    seen = {}

    def start_response(status, headers, exc_info=None):
        seen["status"] = status
        seen["headers"] = list(headers)

    try:
        result = app(environ, start_response)
        chunks = []
        try:
            for c in result:
                chunks.append(c)
        finally:
            if hasattr(result, "close"):
                result.close()
    except Exception as exc:  # noqa
        return exc_outcome(exc)
    if "status" not in seen:
        return "crash NoStartResponse"
    return render_outcome(marks["sse"], int(seen["status"].split(" ", 1)[0]), seen["headers"], b"".join(chunks))


_LOOP = None


def _loop():
    global _LOOP
    if _LOOP is None or _LOOP.is_closed():
        _LOOP = asyncio.new_event_loop()
    return _LOOP


async def _inline_threadpool(fn, *a, **kw):
    return fn(*a, **kw)


def run_asgi(site, rq, rich):
    marks = {"sse": False}
    try:
        app = build_app(A, site, True, rich, marks)
    except AssertionError:
        return "config AssertionError"
    scope, msgs = make_scope(rq)
    sent = []

    async def receive():
        if msgs:
            return msgs.pop(0)
        await asyncio.Event().wait()      # the client stays connected and silent

    async def send(message):
        sent.append(message)

    async def main():
        await app(scope, receive, send)

    try:
        _loop().run_until_complete(main())
    except Exception as exc:  # noqa
        return exc_outcome(exc)
    if not sent or sent[0]["type"] != "http.response.start":
        return "crash NoResponseStart"
    body = b"".join(m.get("body", b"") for m in sent[1:] if m["type"] == "http.response.body")
    headers = [(k.decode("latin-1"), v.decode("latin-1")) for k, v in sent[0].get("headers", [])]
    return render_outcome(marks["sse"], sent[0]["status"], headers, body)


def _fixed_choices(population, k=1):
    return [population[(7 * i + 3) % len(population)] for i in range(k)]


def impl(line):
    try:
        site, rq = parse_line(line)
    except Exception as exc:  # noqa
        return "bad-line %s" % type(exc).__name__
    try:
        rq["root"].encode("utf-8")
        rq["path"].encode("utf-8")
    except UnicodeEncodeError:
        return "unpresentable"
    world = site["world"]
    saved = (time.time, wsgi_responses.random_choices, asgi_responses.random_choices, asgi_responses.run_in_threadpool)
    rich_w, rich_a = {}, {}
    try:
        if world is not None:
            materialise(world)
            for f in world["files"]:
                _VIRT[os.path.join(world["base"], f["rel"])] = (f["mtime"], f["ctime"])
            os.stat = _vstat
        time.time = lambda: float(NOW)
        wsgi_responses.random_choices = _fixed_choices
        asgi_responses.random_choices = _fixed_choices
        asgi_responses.run_in_threadpool = _inline_threadpool
        salt = hashlib.sha1(line.encode()).hexdigest()[:6]
        w = run_wsgi(site, rq, salt, rich_w)
        a = run_asgi(site, rq, rich_a)
    except Exception as exc:  # noqa  (the harness itself)
        return "harness-error %s: %s" % (type(exc).__name__, str(exc)[:80].replace(" ", "_"))
    finally:
        os.stat = _real_stat
        _VIRT.clear()
        (time.time, wsgi_responses.random_choices, asgi_responses.random_choices,
         asgi_responses.run_in_threadpool) = saved
    if w.startswith("config") and a == w:
        return w
    out = "W %s | A %s" % (w, a)
    if rich_w != rich_a:
        diff = sorted(k for k in set(rich_w) | set(rich_a) if rich_w.get(k) != rich_a.get(k))
        out += " | X diff:" + ",".join(diff)
    return out


# ----------------------------------------------------------------------------------------------
# oracle: the two REAL observations compared with each other (no model involved)


def split_out(out):
    parts = out.split(" | ")
    w = parts[0][2:] if parts[0].startswith("W ") else None
    a = parts[1][2:] if len(parts) > 1 and parts[1].startswith("A ") else None
    x = parts[2] if len(parts) > 2 else None
    return w, a, x


def parse_outcome(text):
    toks = text.split(" ")
    if toks[0] in ("http", "crash", "config"):
        return (toks[0], toks[1])
    if toks[0] in ("r0", "r1") and len(toks) == 4:
        hs = [] if toks[2] == "-" else sorted(toks[2].split(";"))
        return ("resp", toks[0] == "r1", int(toks[1]), hs, toks[3])
    return ("?", text)


CONNECTION = enc("connection")


def decode_view_body(body_tok):
    try:
        return dec_bytes(body_tok).decode("utf-8").split("\n")
    except Exception:  # noqa
        return None


def oracle(line, out):
    if out == "unpresentable" or out.startswith("config") :
        return None
    if out.startswith(("bad-line", "harness-error")) or out == "hang":
        return "the harness could not run the case: %s" % out
    w, a, x = split_out(out)
    if w is None or a is None:
        return "unreadable output %r" % out[:80]
    pw, pa = parse_outcome(w), parse_outcome(a)
    if pw[0] != pa[0]:
        return "WSGI %s but ASGI %s" % (w[:120], a[:120])
    if pw[0] != "resp":
        if pw != pa:
            return "WSGI raised %s, ASGI raised %s" % (w, a)
        return None if x is None else "same exception but the request views differ: %s" % x
    if pw[1] != pa[1]:
        return "different response classes answered (event stream on one side only)"
    if pw[2] != pa[2]:
        return "status differs: WSGI %d, ASGI %d" % (pw[2], pa[2])
    hw, ha = pw[3], pa[3]
    if pw[1]:      # the event-stream response: the Connection header is the sanctioned difference
        hw = [h for h in hw if not h.startswith(CONNECTION + "=")]
        ha = [h for h in ha if not h.startswith(CONNECTION + "=")]
    view_msg = None
    if pw[4] != pa[4]:
        lw, la = decode_view_body(pw[4]), decode_view_body(pa[4])
        if lw and la and len(lw) == len(la) and all("=" in l for l in lw + la):
            diff = [(l1, l2) for l1, l2 in zip(lw, la) if l1 != l2]
            if diff and all(l1.split("=")[0] == l2.split("=")[0] for l1, l2 in diff):
                view_msg = "request view differs [keys=%s]: WSGI %s, ASGI %s" % (
                    ",".join(l1.split("=")[0] for l1, _ in diff), diff[0][0][:100], diff[0][1][:100])
    if hw != ha:
        only_w = [h for h in hw if h not in ha]
        only_a = [h for h in ha if h not in hw]
        clen = enc("content-length") + "="
        if view_msg and all(h.startswith(clen) for h in only_w + only_a):
            return view_msg         # the views printed into the body differ (and so does its length)
        return "header multisets differ: only WSGI %s; only ASGI %s" % (
            [tuple(dec_text(p) for p in h.split("=")) for h in only_w][:4],
            [tuple(dec_text(p) for p in h.split("=")) for h in only_a][:4])
    if pw[4] != pa[4]:
        return view_msg or "bodies differ: WSGI %d bytes, ASGI %d bytes" % (len(dec_bytes(pw[4])), len(dec_bytes(pa[4])))
    if x is not None:
        return "request views differ in %s" % x
    return None


def nonascii_prefixes(tree):
    if tree[0] == "L":
        return []
    out = []
    for k, sub in tree[1]:
        if tree[0] == "M" and any(ord(c) > 127 for c in k):
            out.append(k)
        out.extend(nonascii_prefixes(sub))
    return out


def has_router(site):
    return any(l[0] == "R" for l in site["leaves"])


def finding_class(line):
    """which recorded divergence an input can exhibit (used by the `match` expressions of findings/C04.json)"""
    try:
        site, rq = parse_line(line)
    except Exception:  # noqa
        return set()
    out = set()
    nonascii_path = any(ord(c) > 127 for c in rq["path"])
    if nonascii_path and any(p in rq["path"] for p in nonascii_prefixes(site["tree"])):
        out.add("mount-prefix")
    if nonascii_path and has_router(site):
        out.add("router-path")
    if rq["client"] is not None and rq["client"][1] is None:
        out.add("client-port")
    return out


def view_diff_keys(why):
    m = re.search(r"request view differs \[keys=([a-z,]+)\]", why or "")
    return set(m.group(1).split(",")) if m else set()


def explained_keys(line):
    """view lines a recorded finding accounts for on this input"""
    fc = finding_class(line)
    return ({"cli"} if "client-port" in fc else set()) | ({"pp"} if "router-path" in fc else set())


def view_diff_explained(line, why, key):
    keys = view_diff_keys(why)
    return bool(keys) and key in keys and keys <= explained_keys(line)


def classify(line, out):
    try:
        site, rq = parse_line(line)
    except Exception:  # noqa
        return "bad-line"
    kinds = set()
    for l in site["leaves"]:
        eps = [l[1]] if l[0] == "E" else [ep for _, ep in l[1]]
        if l[0] == "R":
            kinds.add("router")
        for ep in eps:
            kinds.add({"r": "resp-" + (ep[1]["kind"] if ep[0] == "r" else ""), "v": "view", "s": "static"}[ep[0]]
                      if ep[0] != "v" else "view%d" % ep[1])
    tree = site["tree"]
    shape = "flat" if tree[0] == "L" else "tree"
    w, a, x = split_out(out) if out.startswith("W ") else (out, "", None)
    res = (w or "?").split(" ")
    res = res[0] + ("-" + res[1] if len(res) > 1 and res[0] in ("r0", "r1", "http", "crash") else "")
    return "%s/%s/%s" % (shape, "+".join(sorted(kinds))[:40], res)


def nontrivial(line, out):
    try:
        site, rq = parse_line(line)
    except Exception:  # noqa
        return False
    return site["tree"][0] != "L" or any(l[0] == "R" or l[1][0] in ("v", "s") for l in site["leaves"])


def describe(line):
    try:
        site, rq = parse_line(line)
    except Exception as exc:  # noqa
        return {"error": repr(exc)}
    w = site["world"]
    return {"tree (L=leaf id, M=Subpaths, H=Hosts by pattern index)": site["tree"],
            "leaves (E=endpoint: r recipe / v view id / s static(pages, directory); R=router)": site["leaves"],
            "host patterns": site["patterns"], "routes": site["routes"],
            "world": None if w is None else {"base": w["base"], "files": [f["rel"] for f in w["files"]], "dirs": w["dirs"]},
            "request": rq}


# ----------------------------------------------------------------------------------------------
# generators

STATUSES = [200, 201, 204, 301, 304, 404, 418, 500, 299, 599, 600, 999, 99]
EXTRA_HEADERS = [("X-A", "1"), ("x-b", "two words"), ("Cache-Control", "no-store"), ("X-Latin", "caf\xe9"),
                 ("Content-Type", "text/x-custom"), ("content-length", "7"), ("Vary", "Accept"),
                 ("Connection", "close"), ("connection", "x"), ("Content-type", "application/x"), ("Location", "/elsewhere"),
                 ("X-Empty", ""), ("ETag", '"abc"'), ("Set-Cookie", "raw=1")]
CHARSETS = [None, "utf-8", "latin-1", "ascii", "utf-16", "UTF-8"]
TEXTS = ["", "hello", "caf\xe9", "日本", "a\nb", "<p>x</p>", "{}", "x" * 70]


def cookie(name, value, expires=None, max_age=-1, domain="", path="/", httponly=False, secure=False, samesite="lax"):
    return dict(name=name, value=value, expires=expires, max_age=max_age, domain=domain, path=path, httponly=httponly,
                secure=secure, samesite=samesite)


COOKIES = [cookie("a", "b"), cookie("sid", "x y;z", max_age=3600), cookie("k", "v", expires=NOW + 60, secure=True),
           cookie("n", "caf\xe9", path="/p", domain="example.org", httponly=True, samesite="strict"),
           cookie("del", "", expires=NOW, max_age=0), cookie("p", "q", path="/\xe9"), cookie("s", "t", samesite="none"),
           cookie("w", 'quo"te\\', path="")]


def flat(ep, **kw):
    return dict(tree=("L", 0), leaves=[("E", ep)], **kw)


def req(method="GET", path="/", headers=(), **kw):
    rq = dict(method=method, scheme="http", shost="srv.example", sport=8000, root="", path=path, query=b"",
              headers=list(headers), client=("10.0.0.9", 40000), body=[])
    rq.update(kw)
    return rq


def pick_common(rng, status=None):
    k = rng.choice([0, 0, 1, 2, 3])
    hdrs = []
    for h in rng.sample(EXTRA_HEADERS, k):
        if h[0].lower() not in [x[0].lower() for x in hdrs] or rng.random() < 0.3:
            if h[0] not in [x[0] for x in hdrs]:
                hdrs.append(h)
    cookies = rng.sample(COOKIES, rng.choice([0, 0, 1, 2, 3]))
    return dict(status=rng.choice(STATUSES) if status is None else status, headers=hdrs, cookies=cookies)


def small_recipe(rng, kind=None, **common):
    kind = kind or rng.choice(["p", "P", "h", "H", "j"])
    if kind == "j":
        obj = rng.choice([{}, {"a": 1}, [1, "x", None, True], "caf\xe9", {"k": {"n": [1, 2]}, "u": "日"}, 0])
        body = json.dumps(obj, ensure_ascii=False, allow_nan=False, indent=None, separators=(",", ":")).encode("utf-8")
        return dict(kind="j", body=body, media_type=None, charset=None, **common)
    cs = rng.choice(CHARSETS)
    mt = rng.choice([None, None, "text/css", "application/xml", "text/", "", "image/svg+xml"])
    text = rng.choice(TEXTS)
    if kind in "PH":
        try:
            body = text.encode(cs or "utf-8")
        except UnicodeEncodeError:
            text = "plain"
            body = text.encode(cs or "utf-8")
    else:
        body = rng.choice([b"", b"raw \xff\x00 bytes", text.encode("utf-8")])
    return dict(kind=kind, body=body, media_type=mt, charset=cs, **common)


EVENTS = [{"data": "hello"}, {"event": "tick", "data": "1\n2"}, {"id": "7", "retry": 10}, {}, {"data": "caf\xe9 日"},
          {"data": "a\r\nb\rc", "event": "multi"}]


def any_recipe(rng, world=None):
    common = pick_common(rng)
    k = rng.choice(["e", "s", "s", "d", "t", "z"] + (["f"] if world else []))
    if k == "e":
        return dict(kind="e", **common)
    if k == "s":
        return small_recipe(rng, **common)
    if k == "d":
        return dict(kind="d", url=rng.choice(["/next", "http://example.org/a b", "/caf\xe9?q=日", "", "//host/x#f", "/a\nb"]),
                    **common)
    if k == "t":
        return dict(kind="t", chunks=rng.choice([[], [b"one"], [b"a", b"", b"bc"], [b"\xff" * 5, b"x"]]),
                    content_type=rng.choice([None, "text/csv", "application/x-ndjson"]), **common)
    if k == "z":
        cs = rng.choice([None, "utf-8", "latin-1", "ascii"])
        top = {"latin-1": 256, "ascii": 128}.get(cs, 1 << 21)
        # every event is encodable in the charset (what is not makes the WSGI response hang: C06's business)
        pool = [e for e in EVENTS if all(ord(ch) < top for v in e.values() if isinstance(v, str) for ch in v)]
        return dict(kind="z", events=[rng.choice(pool) for _ in range(rng.choice([0, 1, 2, 3]))], charset=cs, **common)
    common["headers"] = []
    return dict(kind="f", file=rng.randrange(len(world["files"])), **common)


HEADER_POOL = [
    ("Accept", ["*/*", "text/html", "application/json, text/*;q=0.5", "text/html;level=1, */*;q=0.1", "", " , ",
                "application/*", "TEXT/HTML", "text/html;q=\"0;5\"", "a/b;x=1;y=\"z;w\"", "text"]),
    ("Content-Type", ["application/json", "application/json; charset=utf-8", "application/json;charset=latin-1",
                      "text/plain", "application/x-www-form-urlencoded", "application/x-www-form-urlencoded; charset=utf-8",
                      "multipart/form-data", "multipart/form-data; boundary=XyZ", "", "APPLICATION/JSON",
                      "application/json; Charset=\"utf-8\"", "text/plain; a=1; a=2"]),
    ("Content-Length", ["0", "12", " 12 ", "+5", "-5", "1_000", "1__0", "abc", "", "12.0", "\xb2", "\xa07\xa0", "0x10",
                        "00012", "9" * 30]),
    ("Transfer-Encoding", ["chunked", "Chunked", "gzip, chunked", ""]),
    ("Cookie", ["a=b", "a=b; c=d", "sid=\"x\\040y\"; empty=; =nokey; flag", "a=1; a=2", ";;", "n=caf\xe9", " a = b "]),
    ("Date", ["Tue, 14 Nov 2023 22:13:20 GMT", "14 Nov 2023 22:13:20 +0100", "garbage", "", "Tue, 14 Nov 2023 22:13:20"]),
    ("Referer", ["http://example.org/a?b#c", "/relative", "http://[::1/x", "", "caf\xe9"]),
    ("Host", ["example.org", "example.org:8000", "EXAMPLE.org", "[::1]:80", "bad host", "", "caf\xe9.example"]),
    ("User-Agent", ["curl/8.0", ""]),
    ("X-Custom-Header", ["v", "caf\xe9", " "]),
    ("If-None-Match", ['"x"', "*"]),
    ("X.Dotted~Name", ["1"]),
    ("x-lower", ["1"]),
    ("X-UPPER", ["2"]),
]


def mixed_case(rng, name):
    return "".join(c.upper() if rng.random() < 0.5 else c.lower() for c in name)


def rand_headers(rng, must=()):
    names = list(must)
    for n, _ in rng.sample(HEADER_POOL, rng.choice([0, 1, 2, 3, 4, 6])):
        if n not in names:
            names.append(n)
    out = []
    pool = dict(HEADER_POOL)
    for n in names:
        out.append((mixed_case(rng, n), rng.choice(pool[n])))
    rng.shuffle(out)
    return out


PATHS = ["/", "", "/a", "/a/b", "/caf\xe9", "/日本/x", "/a b", "/a?b", "/a#b", "/%41", "//x", "/a/", "/\U0001f600"]
ROOTS = ["", "", "/app", "/r\xe9", "/r/"]
QUERIES = [b"", b"a=1", b"a=1&a=2&b=", b"q=caf%C3%A9&x=%ff", b"k=\xe9", b"a+b=c+d", b"&&=", b"a=1;b=2", b"x#y"]
CLIENTS = [("10.0.0.9", 40000), ("::1", 1), None, ("unix", 0)]


def split_chunks(rng, data, n=None):
    n = n or rng.choice([1, 1, 2, 3, 4])
    if n == 1 or len(data) < 2:
        return [data] if data or rng.random() < 0.5 else []
    cuts = sorted(rng.randrange(0, len(data) + 1) for _ in range(n - 1))
    # cuts where they hurt: inside the line break in front of a delimiter, inside the delimiter, inside a header block
    marks = [i + 1 for i in range(len(data) - 3) if data[i:i + 4] == b"\r\n--"]
    if marks and rng.random() < 0.6:
        cuts = sorted(set(cuts + rng.sample(marks, min(len(marks), rng.choice([1, 1, 2])))))
    out, prev = [], 0
    for c in cuts + [len(data)]:
        out.append(data[prev:c])
        prev = c
    return out


def rand_body(rng):
    """(content-type header or None, body bytes)"""
    k = rng.random()
    if k < 0.25:
        obj = rng.choice([{"a": 1}, [1, 2], "caf\xe9", {"u": "日"}])
        cs = rng.choice([None, "utf-8", "latin-1", "utf-16"])
        text = json.dumps(obj, ensure_ascii=rng.random() < 0.5)
        try:
            data = text.encode(cs or "utf-8")
        except UnicodeEncodeError:
            data = text.encode("utf-8")
        r = rng.random()
        if r < 0.35:
            # the body is NOT in the declared (or default) charset: a BOM, UTF-16 / UTF-32 text, an encoded surrogate
            data = rng.choice([text.encode("utf-8-sig"), text.encode("utf-16"), text.encode("utf-32"),
                               text.encode("utf-16-le"), text.encode("utf-32-be"), b'"\xed\xa0\x80"', b'{"k": "\xed\xb0\x80"}'])
        if rng.random() < 0.15:
            data = data[:-1] + b"!"
        return "application/json" + ("" if cs is None else "; charset=" + cs), data
    if k < 0.5:
        cs = rng.choice([None, "utf-8", "latin-1", "ascii", "utf-16"])
        data = rng.choice([b"a=1&b=2", b"a=1&a=2&c=", b"n=caf%C3%A9&m=caf\xc3\xa9", b"k=\xe9\xff", b"", b"a+b=%20c", b"x"])
        return "application/x-www-form-urlencoded" + ("" if cs is None else "; charset=" + cs), data
    if k < 0.85:
        boundary = rng.choice([b"XyZ", b"----b0undary", b"q"])
        cs = rng.choice([None, "utf-8", "latin-1"])
        parts = []
        for _ in range(rng.choice([0, 1, 2, 3])):
            if rng.random() < 0.5:
                parts.append(Part(rng.choice(["f", "name", "caf\xe9" if cs != "latin-1" else "n2"]),
                                  rng.choice([b"value", b"", b"caf\xc3\xa9", b"line1\r\nline2"])))
            else:
                parts.append(Part("file", rng.choice([b"\x00\x01\xff binary", b"", b"text file\n" * 3]),
                                  filename=rng.choice(["a.txt", "b.bin", ""]),
                                  headers=[("Content-Type", rng.choice(["text/plain", "application/octet-stream"]))]))
        data = encode_form(boundary, parts, preamble=rng.choice([b"", b"", b"preamble"]),
                           epilogue=rng.choice([b"", b"", b"epilogue"]), charset=cs or "utf-8")
        if rng.random() < 0.1:
            data = data[:max(0, len(data) - rng.randrange(1, 12))]
        ct = "multipart/form-data; boundary=" + boundary.decode()
        if cs:
            ct += "; charset=" + cs
        if rng.random() < 0.05:
            ct = "multipart/form-data"
        return ct, data
    return rng.choice([None, "text/plain", "application/octet-stream"]), rng.choice([b"", b"raw body", b"\xff\xfe"])


def view_request(rng):
    ct, data = rand_body(rng)
    hdrs = [h for h in rand_headers(rng) if h[0].lower() != "content-type" or ct is None]
    if ct is not None and not any(h[0].lower() == "content-type" for h in hdrs):
        hdrs.append((mixed_case(rng, "Content-Type"), ct))
    if rng.random() < 0.5 and not any(h[0].lower() == "content-length" for h in hdrs):
        hdrs.append(("Content-Length", str(len(data))))
    return req(method=rng.choice(["GET", "POST", "PUT", "HEAD", "get"]), path=rng.choice(PATHS), headers=hdrs,
               root=rng.choice(ROOTS), query=rng.choice(QUERIES), client=rng.choice(CLIENTS),
               body=split_chunks(rng, data), scheme=rng.choice(["http", "https"]),
               sport=rng.choice([80, 443, 8000]), shost=rng.choice(["srv.example", "::1", "10.1.1.1"]))


def std_world():
    return make_world("std", [
        ("file.txt", b"hello world, this is file.txt\n"),
        ("index.html", b"<h1>root index</h1>"),
        ("x.html", b"<p>x</p>"),
        ("data.bin", bytes(range(200, 256)) * 2),
        ("noext", b"no extension"),
        ("dir/index.html", b"<h1>dir index</h1>"),
        ("dir/sub/deep.css", b"body{}"),
        ("\xfc.txt", b"u-umlaut"),
        ("old.txt", b"old file", NOW - 10 ** 7, NOW - 10 ** 6),
    ], dirs=["empty"])


def static_request(rng, world):
    f = rng.choice(world["files"])
    paths = ["/" + wf["rel"] for wf in world["files"]] + ["/", "/dir", "/dir/", "/x", "/missing", "/dir/sub", "/empty",
                                                          "/../secret", "/dir/../file.txt", "/file.txt/", "", "/dir/index"]
    hdrs = []
    k = rng.random()
    if k < 0.5:
        which = rng.random()
        if which < 0.6:
            hdrs.append(("If-None-Match", rng.choice(['"%s"' % f["etag"], 'W/"%s"' % f["etag"], '"nope"', "*", "",
                                                      '"zzz", W/"%s"' % f["etag"], f["etag"]])))
        if which > 0.3:
            hdrs.append(("If-Modified-Since", rng.choice([f["lm"], formatdate(f["ctime"], usegmt=True),
                                                          formatdate(f["ctime"] - 1, usegmt=True),
                                                          formatdate(NOW, usegmt=True), "garbage", ""])))
    if rng.random() < 0.5:
        n = len(f["content"])
        hdrs.append(("Range", rng.choice(["bytes=0-3", "bytes=2-", "bytes=-4", "bytes=0-0,5-6", "bytes=%d-" % n, "bits=0-1",
                                          "bytes=5-2", "", "bytes=0-%d" % (n + 5), "bytes=1-2,4-5,7-8"])))
        if rng.random() < 0.4:
            hdrs.append(("If-Range", rng.choice(['"%s"' % f["etag"], f["lm"], '"other"', ""])))
    hdrs = [(mixed_case(rng, n), v) for n, v in hdrs]
    if rng.random() < 0.3:
        hdrs.append(("Host", rng.choice(["example.org", "example.org:8000"])))
    path = rng.choice(paths) if rng.random() < 0.6 else "/" + f["rel"]
    return req(method=rng.choice(["GET", "GET", "HEAD"]), path=path, headers=hdrs, query=rng.choice([b"", b"v=1"]))


MOUNT_PREFIXES = ["", "/api", "/apix", "/api/v1", "/a", "/static", "/s t"]
HOST_PATTERNS = [r"example\.org", r"(www\.)?example\.org", r".*", r"api\.example\.org", r"example\.org(:\d+)?", r"EXAMPLE\.org"]
ROUTES = ["/", "/about/{name}", "/u/{id:int}", "/f/{path:any}", "/d/{day:date}", "/x/{a}/{b:decimal}", "/{slug}", "/about/me"]
ROUTE_PATHS = ["/", "/about/bob", "/about/me", "/u/42", "/u/x", "/f/a/b/c", "/f/", "/d/2024-02-30", "/d/2024-02-28", "/x/p/1.5",
               "/hello", "/about/", "", "/u/" + "9" * 12]


def rand_endpoint(rng, world, depth_ok=True):
    k = rng.random()
    if k < 0.45:
        return ("r", any_recipe(rng, world))
    if k < 0.8 or world is None:
        return ("v", rng.choice([0, 0, 1, 2, 3, 4, 5]))
    return ("s", rng.random() < 0.5, os.path.join(world["base"], rng.choice(["", "", "dir"])).rstrip("/"))


def rand_site(rng, world, depth=None, ascii_only=True):
    leaves = []
    routes = list(ROUTES)
    patterns = list(HOST_PATTERNS)

    def new_leaf():
        if rng.random() < 0.3:
            n = rng.choice([1, 2, 3])
            leaf = ("R", [(rng.randrange(len(routes)), rand_endpoint(rng, world)) for _ in range(n)])
        else:
            leaf = ("E", rand_endpoint(rng, world))
        leaves.append(leaf)
        return ("L", len(leaves) - 1)

    def go(d):
        r = rng.random()
        if d == 0 or r < 0.2:
            return new_leaf()
        if r < 0.75:
            n = rng.choice([1, 2, 2, 3])
            pool = MOUNT_PREFIXES + ([] if ascii_only else ["/caf\xe9", "/日"])
            return ("M", [(rng.choice(pool), go(d - 1)) for _ in range(n)])
        n = rng.choice([1, 2, 2])
        return ("H", [(rng.randrange(len(patterns)), go(d - 1)) for _ in range(n)])

    tree = go(rng.choice([1, 2, 3]) if depth is None else depth)
    return dict(tree=tree, leaves=leaves, routes=routes, patterns=patterns, world=world)


def simulate(site, path, host):
    """which leaf the real tree would hand the request to (the oracle's own boundary rule), and the remainder"""
    node = site["tree"]
    while node[0] != "L":
        nxt = None
        for key, sub in node[1]:
            if node[0] == "M":
                if path == key or path.startswith(key + "/"):
                    nxt, path = sub, path[len(key):]
                    break
            elif re.fullmatch(site["patterns"][key], host or "") is not None:
                nxt = sub
                break
        if nxt is None:
            return None, path
        node = nxt
    return site["leaves"][node[1]], path


GUIDE_HOSTS = ["example.org", "www.example.org", "api.example.org", "example.org:8000", "other.test", "EXAMPLE.org"]


def guided_request(rng, site, world):
    parts = []
    node = site["tree"]
    host = None
    while node[0] != "L" and node[1]:
        key, sub = rng.choice(node[1])
        if node[0] == "M":
            if rng.random() < 0.9:
                parts.append(key)
        elif host is None:
            good = [h for h in GUIDE_HOSTS if re.fullmatch(site["patterns"][key], h)]
            host = rng.choice(good) if good and rng.random() < 0.85 else rng.choice(GUIDE_HOSTS)
        node = sub
    base = "".join(parts)
    leaf, _ = simulate(site, base + "/x", host)
    tail = rng.choice(["", "/", "/x"])
    if leaf is not None and leaf[0] == "R":
        tail = rng.choice(ROUTE_PATHS)
    elif leaf is not None and leaf[1][0] == "s" and world is not None:
        tail = rng.choice(["/file.txt", "/", "/dir", "/dir/", "/x", "/index.html", "/missing", "/sub/deep.css", "/data.bin"])
    path = base + tail
    if rng.random() < 0.08:
        path = rng.choice(PATHS)
    leaf, _ = simulate(site, path, host)
    static = leaf is not None and leaf[0] == "E" and leaf[1][0] == "s"
    if static and world is not None and rng.random() < 0.6:
        rq = static_request(rng, world)
    elif rng.random() < 0.5:
        rq = view_request(rng)
    else:
        rq = req(method=rng.choice(["GET", "HEAD", "POST"]), path=path)
    rq["path"] = path
    rq["headers"] = [h for h in rq["headers"] if h[0].lower() != "host"]
    if host is not None or rng.random() < 0.3:
        rq["headers"].append(("Host", host or "example.org"))
    if rng.random() < 0.2:
        rq["root"] = rng.choice(ROOTS)
    return rq


def cases(rng, tier):
    yield from corpus_lines(PROPERTY)
    big = tier != "quick"
    world = std_world()
    plain = req()
    # ---- every response class x status, bare and with headers / cookies
    for st in STATUSES:
        for hdrs, cks in (([], []), ([("X-A", "1"), ("Content-Type", "text/x-custom")], [COOKIES[1]]),
                          ([("connection", "x"), ("content-length", "7")], COOKIES[:3])):
            c = dict(status=st, headers=hdrs, cookies=cks)
            for r in (dict(kind="e", **c), dict(kind="P", body="caf\xe9".encode("utf-8"), media_type=None, charset=None, **c),
                      dict(kind="h", body=b"<p>raw</p>", media_type=None, charset="latin-1", **c),
                      dict(kind="j", body=b'{"a":1}', media_type=None, charset=None, **c),
                      dict(kind="d", url="/n\xe9xt", **c), dict(kind="t", chunks=[b"a", b"", b"bc"], content_type=None, **c),
                      dict(kind="z", events=EVENTS[:2], charset=None, **c)):
                yield mk_line(flat(("r", r)), plain)
    for i in range(len(world["files"])):
        for hdrs in ([], [("Range", "bytes=1-3")], [("RANGE", "bytes=0-1,4-5"), ("If-Range", '"nope"')], [("Range", "x")]):
            for m in ("GET", "HEAD"):
                yield mk_line(flat(("r", dict(kind="f", file=i, status=200, headers=[], cookies=[COOKIES[0]])), world=world),
                              req(method=m, headers=hdrs))
    # ---- request views: one header at a time, every pool value
    for name, values in HEADER_POOL:
        for v in values:
            for nm in (name, name.upper(), name.lower()):
                yield mk_line(flat(("v", 0)), req(headers=[(nm, v)]))
    for q in QUERIES:
        for p in PATHS:
            yield mk_line(flat(("v", 0)), req(path=p, query=q, root=ROOTS[(len(p) + len(q)) % len(ROOTS)]))
    for cl in CLIENTS + [("10.0.0.9", None)]:
        yield mk_line(flat(("v", 0)), req(client=cl))
    for v in (1, 2, 3, 4):
        for name, values in HEADER_POOL[:5] + HEADER_POOL[7:8]:
            for val in values:
                yield mk_line(flat(("v", v)), req(method="POST", headers=[(name, val)], body=[b"pay", b"load"]))
    # ---- static apps
    for pages in (False, True):
        for wf in world["files"]:
            for hdrs in ([], [("If-None-Match", '"%s"' % wf["etag"])], [("If-Modified-Since", wf["lm"])],
                         [("if-none-match", '"no"'), ("If-Modified-Since", formatdate(NOW, usegmt=True))],
                         [("Range", "bytes=0-2"), ("If-None-Match", "*")], [("Range", "bytes=0-2")]):
                yield mk_line(flat(("s", pages, world["base"]), world=world), req(path="/" + wf["rel"], headers=hdrs))
        for p in ("/", "/dir", "/dir/", "/x", "/missing", "/empty", "/../x", "", "/dir/index", "/noext"):
            for hdrs in ([], [("Host", "example.org:8000")]):
                yield mk_line(flat(("s", pages, world["base"]), world=world), req(path=p, headers=hdrs, query=b"a=1"))
    # ---- forms around the documented limit on the number of parts (the two helpers count on their own)
    for k in (323, 324, 325):
        parts = [Part("f%d" % (i % 7), b"v%d" % i) for i in range(k)]
        data = encode_form(b"XyZ", parts)
        for chunks in ([data], [data[:1000], data[1000:]]):
            yield mk_line(flat(("v", 5)), req(method="POST", path="/", body=chunks,
                                             headers=[("Content-Type", "multipart/form-data; boundary=XyZ")]))
    # ---- random
    n = 2400 if not big else 60000
    for _ in range(n):
        k = rng.random()
        if k < 0.22:
            yield mk_line(flat(("r", any_recipe(rng, world)), world=world), view_request(rng) if rng.random() < 0.3 else plain)
        elif k < 0.5:
            yield mk_line(flat(("v", rng.choice([0, 0, 0, 5, 5, 1, 2, 3, 4]))), view_request(rng))
        elif k < 0.62:
            yield mk_line(flat(("s", rng.random() < 0.5, world["base"] + rng.choice(["", "", "/dir"])), world=world),
                          static_request(rng, world))
        else:
            site = rand_site(rng, world)
            for _ in range(rng.choice([1, 2, 3])):
                yield mk_line(site, guided_request(rng, site, world))
    # ---- the recorded divergences (KNOWN-FINDING when they show)
    for _ in range(60 if not big else 600):
        site = rand_site(rng, world, ascii_only=False)
        rq = guided_request(rng, site, world)
        if rng.random() < 0.5:
            rq["path"] = rng.choice(["/caf\xe9/x", "/日", "/about/caf\xe9", "/f/日/x", "/caf\xe9"])
        if rng.random() < 0.3 and rq["client"] is not None:
            rq["client"] = (rq["client"][0], None)
        yield mk_line(site, rq)


def extra(rng, tier):
    """Routers nested inside routers and mounts below routers (outside the shape the Lean `Site` covers):
    real WSGI vs real ASGI only."""
    n = 150 if tier == "quick" else 2000
    violations = []
    checked = 0
    for _ in range(n):
        depth = rng.choice([1, 2, 3])

        def mk(M, is_asgi, d, seed):
            r = seed
            kind = r.choice(["router", "mount", "leaf"]) if d > 0 else "leaf"
            if kind == "leaf":
                status = r.choice([200, 201, 404])
                text = r.choice(["a", "b", "c"])
                if is_asgi:
                    async def view(request):
                        return M.PlainTextResponse("%s %r %r %r" % (text, request.path_params, request.get("root_path"),
                                                                    request.get("path")), status)
                else:
                    def view(request):
                        return M.PlainTextResponse("%s %r %r %r" % (text, request.path_params, request.get("SCRIPT_NAME"),
                                                                    request.get("PATH_INFO")), status)
                return M.request_response(view)
            if kind == "router":
                return M.Router(*[(r.choice(["/{a}", "/x/{rest:any}", "/", "/x/{n:int}", "/{a}/{b}", "/x/1", "/x", "/y/z",
                                             "/x/abc", "/{rest:any}"]), mk(M, is_asgi, d - 1, r))
                                  for _ in range(r.choice([1, 2, 3]))])
            return M.Subpaths(*[(r.choice(["", "/x", "/y", "/x/1"]), mk(M, is_asgi, d - 1, r)) for _ in range(r.choice([1, 2]))])

        import random as _random
        seed = rng.randrange(1 << 30)
        wapp = mk(W, False, depth, _random.Random(seed))
        aapp = mk(A, True, depth, _random.Random(seed))
        path = rng.choice(["/", "/x", "/x/1", "/x/1/2", "/y/z", "/q", "", "/x/abc", "/x/"])
        rq = req(path=path)
        site_w = {"app": wapp}
        out_w = _run_prebuilt_wsgi(wapp, rq)
        out_a = _run_prebuilt_asgi(aapp, rq)
        checked += 1
        if out_w != out_a:
            violations.append({"line": "extra nested-router seed=%d depth=%d path=%s" % (seed, depth, enc(path)),
                               "out": "W %s | A %s" % (out_w, out_a),
                               "why": "nested Router/Subpaths application answers differently: WSGI %s, ASGI %s" % (out_w[:80], out_a[:80])})
    # routers nested in routers, every pairing of an outer pattern with an inner pattern that match the same path
    # (parameters are those of the route that finally matched: an inner static route has none)
    def leaf_of(M, is_asgi):
        if is_asgi:
            async def view(request):
                return M.PlainTextResponse("leaf %r" % (sorted(request.path_params.items()),))
        else:
            def view(request):
                return M.PlainTextResponse("leaf %r" % (sorted(request.path_params.items()),))
        return M.request_response(view)

    pats = ["/{a}/{b}", "/x/{rest:any}", "/{rest:any}", "/x/1", "/x/{n:int}", "/{a}/1"]
    for outer in pats:
        for inner in pats:
            for innermost in (None, "/x/1", "/{a}/{b}"):
                def build(M, is_asgi):
                    app = leaf_of(M, is_asgi)
                    if innermost is not None:
                        app = M.Router((innermost, app))
                    return M.Router((outer, M.Router((inner, app))))

                rq = req(path="/x/1")
                out_w = _run_prebuilt_wsgi(build(W, False), rq)
                out_a = _run_prebuilt_asgi(build(A, True), rq)
                checked += 1
                if out_w != out_a:
                    violations.append({"line": "extra nested-routers outer=%s inner=%s innermost=%s" % (outer, inner, innermost),
                                       "out": "W %s | A %s" % (out_w, out_a),
                                       "why": "Router(%s -> Router(%s -> %s)) on /x/1 answers differently: WSGI %s, ASGI %s"
                                              % (outer, inner, innermost or "view", out_w[-90:], out_a[-90:])})
    # one response object answering a SEQUENCE of requests (a response is an application; a FileResponse mounted in
    # a Router lives as long as the process): whatever earlier requests left behind on it, the two interfaces
    # must still answer every request alike
    reused = 0
    tmp = os.path.join(tempfile.gettempdir(), "baize-verif-c04-reuse.txt")
    with open(tmp, "wb") as f:
        f.write(b"0123456789abcdefghij")
    sequences = [
        [None, "bytes=0-4", None, "bytes=0-1,5-6", None, "bytes=2-3"],
        ["bytes=0-1,5-6", None],
        ["bytes=0-1,5-6", "bytes=7-8", "bytes=99-", None, "bytes=x"],
        ["bytes=-3", "bytes=99-", None],
    ]
    saved = (wsgi_responses.random_choices, asgi_responses.random_choices)
    wsgi_responses.random_choices = asgi_responses.random_choices = _fixed_choices
    try:
        for method in ("GET", "HEAD"):
            for seq in sequences:
                wresp, aresp = W.FileResponse(tmp), A.FileResponse(tmp)
                for i, rg in enumerate(seq):
                    rq = req(method=method, path="/", headers=[("Range", rg)] if rg else [])
                    out_w = _run_prebuilt_wsgi(wresp, rq)
                    out_a = _run_prebuilt_asgi(aresp, rq)
                    reused += 1
                    if out_w != out_a:
                        violations.append({
                            "line": "extra reuse FileResponse %s ranges=%s request=%d" % (method, "|".join(x or "-" for x in seq), i),
                            "out": "W %s | A %s" % (out_w, out_a),
                            "why": "request %d (Range: %s) on a FileResponse object that already answered %s: WSGI %s, ASGI %s"
                                   % (i + 1, rg, [x or "no Range" for x in seq[:i]], out_w[:120], out_a[:120])})
                        break
    finally:
        wsgi_responses.random_choices, asgi_responses.random_choices = saved
    # constructor options of one response must not reach a later response (process-wide state): the same plain
    # recipe before and after a differently configured one, on each interface, and WSGI vs ASGI throughout
    leaks = 0
    content = {"k": ["caf\u00e9", "\u65e5", 1.5], "n": None}
    steps = [("plain", {}), ("options", {"ensure_ascii": True, "indent": 2, "sort_keys": True}), ("plain", {}),
             ("options", {"separators": (" , ", " : ")}), ("plain", {})]
    outs = {"W": [], "A": []}
    for label, kw in steps:
        rq = req(path="/")
        try:
            outs["W"].append(_run_prebuilt_wsgi(W.JSONResponse(content, **kw), rq))
            outs["A"].append(_run_prebuilt_asgi(A.JSONResponse(content, **kw), rq))
        except Exception as exc:  # noqa
            outs["W"].append("ctor %s" % type(exc).__name__)
            outs["A"].append("ctor %s" % type(exc).__name__)
        leaks += 1
    for i, (label, kw) in enumerate(steps):
        if outs["W"][i] != outs["A"][i]:
            violations.append({"line": "extra json-options step=%d %s" % (i, label),
                               "out": "W %s | A %s" % (outs["W"][i], outs["A"][i]),
                               "why": "JSONResponse(%s) #%d of the sequence %s answers differently: WSGI %s, ASGI %s"
                                      % (kw or "no options", i + 1, [l for l, _ in steps], outs["W"][i][-80:], outs["A"][i][-80:])})
            break
        if label == "plain" and outs["A"][i] != outs["A"][0]:
            violations.append({"line": "extra json-options step=%d plain-again" % i, "out": outs["A"][i],
                               "why": "a plain JSONResponse renders differently after a differently configured one was "
                                      "constructed (options leaked): %s vs %s" % (outs["A"][0][-80:], outs["A"][i][-80:])})
            break
    return {"violations": violations, "nested_router_apps_compared": checked, "reused_response_requests_compared": reused,
            "option_leak_steps": leaks}


def _run_prebuilt_wsgi(app, rq):
    environ = make_environ(rq, "x")
    seen = {}

    def start_response(status, headers, exc_info=None):
        seen["status"], seen["headers"] = status, list(headers)

    try:
        body = b"".join(app(environ, start_response))
    except Exception as exc:  # noqa
        return exc_outcome(exc)
    # the view prints SCRIPT_NAME / PATH_INFO resp. root_path / path: the same text for an ASCII path
    return render_outcome(False, int(seen["status"].split(" ")[0]), seen["headers"], body)


def _run_prebuilt_asgi(app, rq):
    scope, msgs = make_scope(rq)
    sent = []

    async def receive():
        if msgs:
            return msgs.pop(0)
        await asyncio.Event().wait()

    async def send(m):
        sent.append(m)

    try:
        _loop().run_until_complete(app(scope, receive, send))
    except Exception as exc:  # noqa
        return exc_outcome(exc)
    body = b"".join(m.get("body", b"") for m in sent[1:])
    return render_outcome(False, sent[0]["status"], [(k.decode("latin-1"), v.decode("latin-1")) for k, v in sent[0]["headers"]], body)
