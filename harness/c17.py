"""C17 — multi-value mappings stay consistent under any operation sequence.

Op lines (one self-contained scenario each):

  mm_seq  <nkeys> <init> <probe> <ops>
      init  = form,k,v,k,v,...   form 0 None | 1 list of pairs | 2 dict | 3 MultiMapping | 4 QueryParams |
                                       5 FormData | 6 MutableMultiMapping   (3-6: `isinstance(raw, MultiMapping)`)
      probe = k,v,k,v,...        pair list of the mapping every state is compared with (`==`)
      ops   = flat opcode list   0 k v  m[k]=v          1 k    del m[k]        2 k v  append
                                 3 k n v*n  setlist     4 k    poplist         5 k    pop(k)
                                 6 k d  pop(k, d)       7      popitem         8 k d  setdefault(k, d)
                                 9 n (k v)*n  update(pairs)      10 ..  update(dict)
                                 11 ..  update(MultiMapping)     12 ..  update(**kwargs)
                                 13     clear
      output: the views of the initial state, then `<return>|<views>` per step, joined by `;`
      views = items/keys/len/per-key getlist:getitem:contains/eq-flags/repr-flag
  mm_same <nkeys> <init>        the same raw input given to MultiMapping, MutableMultiMapping, QueryParams, FormData
  mm_eq   <pairs> <pairs>       `==` of two mappings (FormData and MutableMultiMapping) whose odd values are UploadFile
                                objects (the same number = the same object), even values strings
  qs_enc  <pairs>               str(QueryParams(pairs)) and whether QueryParams(str(q)) == q
  qs_parse <mode> <cps>         QueryParams(str | bytes).multi_items(), and the round trip of the parsed mapping

Keys are the strings a, b, c, …; values the decimal strings of the numbers on the wire.
"""
import itertools

from baize.datastructures import FormData, Headers, MultiMapping, MutableMultiMapping, QueryParams, UploadFile

from .common import corpus_lines, dec_text, enc, exc_name

PROPERTY = "C17"
LEAN_MODULES = ["BaizeVerif.Props.C17"]
MODEL_MODULES = ["BaizeVerif.Model.MultiMap"]
DRIVER_OPS = {
    "mm_seq": "MultiMap.runSeq",
    "mm_same": "MultiMap.runSame",
    "mm_eq": "MultiMap.runEq",
    "qs_enc": "MultiMap.runEnc",
    "qs_parse": "MultiMap.runParse",
}
THEOREMS = [
    "Baize.MultiMap.init_inv",
    "Baize.MultiMap.step_inv",
    "Baize.MultiMap.reachable_inv",
    "Baize.MultiMap.views_agree",
    "Baize.MultiMap.keys_perm_distinct",
    "Baize.MultiMap.eq_iff_perm",
    "Baize.MultiMap.setitem_surgery",
    "Baize.MultiMap.refines_pairlist",
    "Baize.MultiMap.run_refines",
    "Baize.MultiMap.clear_empties",
    "Baize.MultiMap.same_views",
    "Baize.MultiMap.utf8_roundtrip",
    "Baize.MultiMap.urlencode_ok_iff",
    "Baize.MultiMap.query_roundtrip",
    "Baize.MultiMap.queryparams_roundtrip_eq",
    "Baize.MultiMap.surrogate_witness",
    "Baize.MultiMap.source_pinned",
]
MANIFEST = {
    "technique": "Lean 4 proof (invariant by induction over the operation list, refinement to a pair-list "
                 "specification, percent/UTF-8 round trip) + differential correspondence of the Lean model with "
                 "MutableMultiMapping / QueryParams / FormData",
    "text": "Lean theorems over an executable model of MultiMapping/MutableMultiMapping (dict + pair list, every "
            "mutator incl. the inherited MutableMapping mixins, the constructor normalisations) prove for every "
            "operation sequence from every initial input that the two representations stay consistent, that every "
            "view is the corresponding function of the plain pair list, that each operation refines the abstract "
            "pair-list operation, and that parse_qsl(urlencode(ps)) = ps for all well-formed strings (UTF-8 + "
            "percent coding modelled at byte level), hence QueryParams(str(q)) == q.  The model is tied to /repo on "
            "every run by regenerated constants and by a differential correspondence (exhaustive short operation "
            "sequences from every small initial pair list + random long ones; arbitrary query strings) against the "
            "real classes; an independent list-of-pairs oracle states the property on the implementation's outputs.",
    "note": "Trusted: Lean kernel (propext, Classical.choice, Quot.sound only), tools/extract.py, the correspondence "
            "generator; CPython dict/list semantics, collections.abc.MutableMapping mixins and urllib.parse "
            "quote_plus/parse_qsl/UTF-8 codec behave as modelled (sampled on every run).  Keys/values are naturals "
            "in the model (only equality of keys matters to the code).",
    "design": "C17",
}
CORRESPONDENCE = ("Baize.MultiMap.step/init/views, urlencode, parseQsl  vs  baize.datastructures."
                  "MutableMultiMapping/MultiMapping/QueryParams/FormData (+ urllib.parse as used by them)")
RULE = ("corpus (defect witnesses, hand-picked edge states); every sequence of 2 operations over the 35-operation "
        "alphabet on keys {a,b} x values {1,2} from every initial pair list of length <=3 (quick: initial lists up to "
        "renaming of keys/values, i.e. starting with (a,1)); every single operation + popitem from every initial list "
        "through the dict / MultiMapping / QueryParams / FormData / MutableMultiMapping constructor forms; every sequence "
        "of 3 operations from initial lists of length <=1 (quick: 20-operation alphabet); thorough adds a third key; "
        "random sequences of 10-60 operations over 2-4 keys from random initial lists and constructor forms; the same raw "
        "input through all four classes; == on mappings holding UploadFile values; random Unicode pair lists (incl. "
        "&=+%#, blanks, astral, lone surrogates) through str(); arbitrary / mutated query strings (valid, truncated and "
        "non-hex escapes, malformed UTF-8, raw non-ASCII) through the parser, as str and as bytes.  non-trivial = a "
        "sequence that at some point holds a key with >=2 values, an == of >=2 pairs, or a query string with >=2 fields "
        "or an escape; distinct = distinct op line")
TRUSTED = [
    "CPython dict (insertion order, re-assignment keeps position) and list semantics as modelled by the assoc-list "
    "primitives dGet/dSet/dDel (checked through every generated sequence: keys() order is compared)",
    "collections.abc.MutableMapping.pop/popitem/setdefault/update/clear and Mapping.__contains__ as transcribed",
    "urllib.parse.urlencode/quote_plus/parse_qsl/unquote and the UTF-8 codec (errors='replace') agree with "
    "Baize.MultiMap.urlencode/parseQsl/utf8Dec (checked on every generated string)",
]
ASSUMPTIONS = [
    "keys are hashable with == consistent with hash (dict lookup and the list comprehensions' == agree); "
    "the model uses naturals",
    "query round trip: keys/values are str without lone surrogates (urlencode raises UnicodeEncodeError on them — "
    "a caller error; parse_qsl never produces one from ASCII input)",
    "setdefault(key) with the implicit default None and update(other, **kw) with both arguments are not generated",
]
PARTIAL = None

KEYERROR = "E"


def kname(n):
    return chr(97 + n) if n < 26 else "k%d" % n


def vname(n):
    return "" if n == 0 else str(n)      # value 0 is the blank string (which the mappings keep)


def inv_v(v):
    return "0" if v == "" else v


def nums(tok):
    return [] if tok in ("-", "") else [int(x) for x in tok.split(",")]


def pairs_of(flat):
    if len(flat) % 2:
        raise ValueError("odd pair list")
    return [(flat[i], flat[i + 1]) for i in range(0, len(flat), 2)]


def decode_ops(flat):
    """-> list of (name, args) or None when malformed"""
    ops = []
    i = 0
    n = len(flat)

    def take(c):
        nonlocal i
        if i + c > n:
            raise ValueError
        r = flat[i:i + c]
        i += c
        return r

    try:
        while i < n:
            code = take(1)[0]
            if code == 0:
                ops.append(("setitem", tuple(take(2))))
            elif code == 1:
                ops.append(("delitem", tuple(take(1))))
            elif code == 2:
                ops.append(("append", tuple(take(2))))
            elif code == 3:
                k, c = take(2)
                ops.append(("setlist", (k, take(c))))
            elif code == 4:
                ops.append(("poplist", tuple(take(1))))
            elif code == 5:
                ops.append(("pop", tuple(take(1))))
            elif code == 6:
                ops.append(("popd", tuple(take(2))))
            elif code == 7:
                ops.append(("popitem", ()))
            elif code == 8:
                ops.append(("setdefault", tuple(take(2))))
            elif code in (9, 10, 11, 12):
                c = take(1)[0]
                ops.append((("update_pairs", "update_map", "update_mm", "update_kw")[code - 9],
                            (pairs_of(take(2 * c)),)))
            elif code == 13:
                ops.append(("clear", ()))
            else:
                return None
    except ValueError:
        return None
    return ops


def build_raw(form, ps):
    """the `raw` constructor argument for an init form"""
    named = [(kname(k), vname(v)) for k, v in ps]
    if form == 0:
        return None
    if form == 1:
        # the pairs as a list, or (every other time) as a one-shot iterator: a generator / zip / map of pairs
        if len(named) % 2 == 1:
            return (p for p in named)
        if len(named) % 4 == 2:
            return zip([k for k, _ in named], [v for _, v in named])
        return named
    if form == 2:
        return dict(named)
    if form == 3:
        return MultiMapping(named)
    if form == 4:
        return QueryParams(named)
    if form == 5:
        return FormData(named)
    if form == 6:
        return MutableMultiMapping(named)
    raise ValueError("form")


def r_list(vs):
    return ".".join(inv_v(v) for v in vs) if vs else "-"


def inv_k(name):
    return str(ord(name) - 97) if len(name) == 1 else name[1:]


def view(m, nkeys, probe):
    items = m.multi_items()
    parts = [",".join("%s.%s" % (inv_k(k), inv_v(v)) for k, v in items) if items else "-"]
    ks = list(m.keys())
    parts.append(",".join(inv_k(k) for k in ks) if ks else "-")
    parts.append(str(len(m)))
    per = []
    for n in range(nkeys):
        k = kname(n)
        try:
            gi = inv_v(m[k])
        except KeyError:
            gi = KEYERROR
        per.append("%s:%s:%d" % (r_list(m.getlist(k)), gi, 1 if k in m else 0))
    parts.append(",".join(per) if per else "-")
    cls = type(m)
    e1 = m == probe if type(probe) is cls else m == cls(probe.multi_items())
    e2 = m == cls(list(reversed(items)))
    parts.append("%d%d" % (1 if e1 is True else 0, 1 if e2 is True else 0))
    rep = repr(m)
    if cls is QueryParams:
        good = rep == "QueryParams(%r)" % str(m)
    else:
        good = rep == "%s(%r)" % (cls.__name__, items) and str(m) == rep
    parts.append("R%d" % (1 if good else 0))
    return "/".join(parts)


def apply_op(m, name, args):
    """perform one operation on the real object, canonical return text"""
    try:
        if name == "setitem":
            m[kname(args[0])] = vname(args[1])
            return "N"
        if name == "delitem":
            del m[kname(args[0])]
            return "N"
        if name == "append":
            r = m.append(kname(args[0]), vname(args[1]))
            return "N" if r is None else "?"
        if name == "setlist":
            r = m.setlist(kname(args[0]), [vname(v) for v in args[1]])
            return "N" if r is None else "?"
        if name == "poplist":
            return "L" + r_list(m.poplist(kname(args[0])))
        if name == "pop":
            return "V" + inv_v(m.pop(kname(args[0])))
        if name == "popd":
            return "V" + inv_v(m.pop(kname(args[0]), vname(args[1])))
        if name == "popitem":
            k, v = m.popitem()
            return "I%s.%s" % (inv_k(k), inv_v(v))
        if name == "setdefault":
            return "V" + inv_v(m.setdefault(kname(args[0]), vname(args[1])))
        if name == "update_pairs":
            m.update([(kname(k), vname(v)) for k, v in args[0]])
            return "N"
        if name == "update_map":
            m.update(dict((kname(k), vname(v)) for k, v in args[0]))
            return "N"
        if name == "update_mm":
            m.update(MultiMapping([(kname(k), vname(v)) for k, v in args[0]]))
            return "N"
        if name == "update_kw":
            m.update(**dict((kname(k), vname(v)) for k, v in args[0]))
            return "N"
        if name == "clear":
            m.clear()
            return "N"
    except KeyError:
        return KEYERROR
    except Exception as exc:  # noqa
        return exc_name(exc).replace(" ", "_")
    return "?"


def impl_seq(args):
    nkeys = int(args[0])
    init = nums(args[1])
    if not init:
        return "bad-op"
    form = init[0]
    try:
        ps = pairs_of(init[1:])
        probe_ps = pairs_of(nums(args[2]))
    except ValueError:
        return "bad-op"
    ops = decode_ops(nums(args[3]))
    if ops is None or form > 6:
        return "bad-op"
    raw = build_raw(form, ps)
    m = MutableMultiMapping(raw)
    probe = MutableMultiMapping([(kname(k), vname(v)) for k, v in probe_ps])
    # the mapping this one was built FROM must be left alone by whatever is done to the copy
    src_probe = type(raw)(raw.multi_items()) if isinstance(raw, MultiMapping) else None
    src0 = view(raw, nkeys, src_probe) if src_probe is not None else None
    out = [view(m, nkeys, probe)]
    for name, a in ops:
        ret = apply_op(m, name, a)
        out.append(ret + "|" + view(m, nkeys, probe))
    if src0 is not None:
        src1 = view(raw, nkeys, src_probe)
        if src1 != src0:
            out.append("SOURCE-CHANGED %s -> %s" % (src0, src1))
    return ";".join(out)


def impl_same(args):
    nkeys = int(args[0])
    init = nums(args[1])
    if not init or init[0] > 6:
        return "bad-op"
    try:
        ps = pairs_of(init[1:])
    except ValueError:
        return "bad-op"
    out = []
    for cls in (MultiMapping, MutableMultiMapping, QueryParams, FormData):
        m = cls(build_raw(init[0], ps))
        probe = cls([(kname(k), vname(v)) for k, v in ps])
        out.append(view(m, nkeys, probe))
    return ";".join(out)


_UPLOADS = {}


def form_value(n):
    """odd numbers are uploaded files (one object per number), even numbers text"""
    if n % 2 == 0:
        return str(n)
    if n not in _UPLOADS:
        _UPLOADS[n] = UploadFile("f%d.bin" % n, Headers({"content-type": "application/octet-stream"}))
    return _UPLOADS[n]


def impl_eq(args):
    try:
        p1 = pairs_of(nums(args[0]))
        p2 = pairs_of(nums(args[1]))
    except ValueError:
        return "bad-op"
    out = []
    for cls in (FormData, MutableMultiMapping):
        a = cls([(kname(k), form_value(v)) for k, v in p1])
        b = cls([(kname(k), form_value(v)) for k, v in p2])
        r1, r2, r3 = a == b, b == a, a == cls(a)
        out.append("".join("1" if r is True else "0" if r is False else "?" for r in (r1, r2, r3)))
    return "ok " + ",".join(out)


def oracle_eq(args, out):
    if out == "bad-op":
        return None
    p1 = pairs_of(nums(args[0]))
    p2 = pairs_of(nums(args[1]))
    if not out.startswith("ok "):
        return "== of two form mappings raised: %s" % out
    # order of the pairs: not fixed by the property text (see check_view)
    want = "1" if p1 == p2 else "0" if sorted(p1) != sorted(p2) else "01"
    for flags in out[3:].split(","):
        if flags[2] != "1":
            return "a mapping is not equal to a copy of itself"
        if flags[0] not in want or flags[1] not in want or flags[0] != flags[1]:
            return "== gave %s for pair lists %s and %s" % (flags[:2], p1, p2)
    return None


def dec_pairs(tok):
    if tok in ("-", ""):
        return []
    out = []
    for p in tok.split(";"):
        k, v = p.split(":")
        out.append((dec_text(k), dec_text(v)))
    return out


def enc_pairs(ps):
    return ";".join("%s:%s" % (enc(k), enc(v)) for k, v in ps) if ps else "-"


def rt_flag(q):
    """does QueryParams(str(q)) == q (string form given as str, and as bytes) ?  X when str() raises"""
    try:
        s = str(q)
    except UnicodeEncodeError:
        return "X"
    if (QueryParams(s) == q) is not True:
        return "0"
    # ... and in its other presentation: the same string form as the bytes an ASGI server hands over
    try:
        raw = s.encode("latin-1")
    except UnicodeEncodeError:
        return "1"
    return "1" if (QueryParams(raw) == q) is True else "0"


def impl_enc(args):
    ps = dec_pairs(args[0])
    q = QueryParams(ps)
    try:
        s = str(q)
    except UnicodeEncodeError:
        return "crash UnicodeEncodeError"
    return "ok %s %s" % (enc(s), rt_flag(q))


def impl_parse(args):
    mode = args[0]
    raw = dec_text(args[1])
    if mode == "1":
        if any(ord(c) > 255 for c in raw):
            return "bad-op"
        q = QueryParams(raw.encode("latin-1"))
    elif mode == "0":
        q = QueryParams(raw)
    else:
        return "bad-op"
    return "ok %s %s" % (enc_pairs(q.multi_items()), rt_flag(q))


def impl(line):
    a = line.split(" ")
    try:
        if a[0] == "mm_seq":
            return impl_seq(a[1:])
        if a[0] == "mm_same":
            return impl_same(a[1:])
        if a[0] == "mm_eq":
            return impl_eq(a[1:])
        if a[0] == "qs_enc":
            return impl_enc(a[1:])
        if a[0] == "qs_parse":
            return impl_parse(a[1:])
    except Exception as exc:  # noqa
        return exc_name(exc)
    return "bad-op"


# ---- oracle: a plain list of pairs, written independently of the Lean model -----------------


def ref_assign(L, k, v):
    if any(a == k for a, _ in L):
        out = []
        done = False
        for a, b in L:
            if a != k:
                out.append((a, b))
            elif not done:
                out.append((k, v))
                done = True
        return out
    return L + [(k, v)]


def ref_values(L, k):
    return [b for a, b in L if a == k]


def ref_without(L, k):
    return [(a, b) for a, b in L if a != k]


def ref_step(L, name, args, ret):
    """-> (new list, None) if `ret` is the right answer for this op on L, else (None, why)"""
    def want(expected):
        return None if ret == expected else "%s returned %s, the pair list says %s" % (name, ret, expected)

    if name == "setitem":
        return ref_assign(L, args[0], args[1]), want("N")
    if name == "delitem":
        if not ref_values(L, args[0]):
            return L, want(KEYERROR)
        return ref_without(L, args[0]), want("N")
    if name == "append":
        return L + [(args[0], args[1])], want("N")
    if name == "setlist":
        return ref_without(L, args[0]) + [(args[0], v) for v in args[1]], want("N")
    if name == "poplist":
        return ref_without(L, args[0]), want("L" + r_list([str(v) for v in ref_values(L, args[0])]))
    if name in ("pop", "popd"):
        vs = ref_values(L, args[0])
        if not vs:
            return L, want(KEYERROR if name == "pop" else "V%d" % args[1])
        return ref_without(L, args[0]), want("V%d" % vs[-1])
    if name == "popitem":
        if not L:
            return L, want(KEYERROR)
        if not ret.startswith("I"):
            return L, "popitem on a non-empty mapping returned %s" % ret
        k, v = map(int, ret[1:].split("."))
        vs = ref_values(L, k)
        if not vs:
            return L, "popitem returned key %d which has no pair" % k
        if vs[-1] != v:
            return L, "popitem returned %d for key %d whose last value is %d" % (v, k, vs[-1])
        return ref_without(L, k), None
    if name == "setdefault":
        vs = ref_values(L, args[0])
        if vs:
            return L, want("V%d" % vs[-1])
        return L + [(args[0], args[1])], want("V%d" % args[1])
    if name == "update_pairs":
        for k, v in args[0]:
            L = ref_assign(L, k, v)
        return L, want("N")
    if name in ("update_map", "update_mm", "update_kw"):
        final = {}
        for k, v in args[0]:
            final[k] = v
        for k in final:
            L = ref_assign(L, k, final[k])
        return L, want("N")
    if name == "clear":
        return [], want("N")
    return L, "unknown op"


def check_view(text, L, nkeys, probe):
    """the views of one state against the plain pair list L"""
    f = text.split("/")
    if len(f) != 6:
        return "unparsable view %r" % text
    items = [] if f[0] == "-" else [tuple(map(int, p.split("."))) for p in f[0].split(",")]
    if items != L:
        return "multi_items %s, pair list %s" % (items, L)
    keys = [] if f[1] == "-" else [int(x) for x in f[1].split(",")]
    distinct = []
    for a, _ in L:
        if a not in distinct:
            distinct.append(a)
    if sorted(keys) != sorted(distinct):
        return "keys %s, distinct keys of the pair list %s" % (keys, distinct)
    if int(f[2]) != len(distinct):
        return "len %s, %d distinct keys" % (f[2], len(distinct))
    per = [] if f[3] == "-" else f[3].split(",")
    if len(per) != nkeys:
        return "per-key views missing"
    for k, p in enumerate(per):
        gl, gi, co = p.split(":")
        vs = ref_values(L, k)
        if gl != r_list([str(v) for v in vs]):
            return "getlist(%d) = %s, pair list says %s" % (k, gl, vs)
        if gi != (str(vs[-1]) if vs else KEYERROR):
            return "[%d] = %s, last value in the pair list: %s" % (k, gi, vs[-1] if vs else "KeyError")
        if co != ("1" if vs else "0"):
            return "(%d in m) = %s, pair list %s" % (k, co, L)
    # `==`: equal pair lists must compare equal, different multisets of pairs must not; whether the ORDER of
    # the pairs matters is not fixed by the property text (baize ignores it — that is pinned by the model
    # correspondence, not demanded here)
    if L == probe and f[4][0] != "1":
        return "== with a mapping of the same pairs %s gave False" % (probe,)
    if sorted(L) != sorted(probe) and f[4][0] != "0":
        return "== with a mapping of different pairs %s gave True, own pairs %s" % (probe, L)
    if L == L[::-1] and f[4][1] != "1":
        return "not equal to a mapping built from its own pairs"
    if f[5] != "R1":
        return "repr()/str() does not show the pair list"
    return None


def init_list(form, ps):
    if form == 0:
        return []
    if form == 2:
        final = {}
        for k, v in ps:
            final[k] = v
        return list(final.items())
    return list(ps)


def oracle_seq(args, out):
    nkeys = int(args[0])
    init = nums(args[1])
    ops = decode_ops(nums(args[3]))
    if out == "bad-op":
        return None if (ops is None or not init or init[0] > 6 or len(init) % 2 == 0) else "adapter refused a good line"
    probe = pairs_of(nums(args[2]))
    L = init_list(init[0], pairs_of(init[1:]))
    steps = out.split(";")
    if steps and steps[-1].startswith("SOURCE-CHANGED"):
        return ("operating on a mapping changed the mapping it had been constructed from (shared pair list): %s"
                % steps[-1][:200])
    if len(steps) != len(ops) + 1:
        return "trace has %d states for %d operations: %s" % (len(steps), len(ops), out[:80])
    why = check_view(steps[0], L, nkeys, probe)
    if why:
        return "initial state: " + why
    for i, ((name, a), st) in enumerate(zip(ops, steps[1:])):
        ret, _, vw = st.partition("|")
        if ret.startswith("crash") or ret.startswith("http"):
            return "step %d %s%s raised %s" % (i + 1, name, a, ret)
        L, why = ref_step(L, name, a, ret)
        if why:
            return "step %d: %s" % (i + 1, why)
        why = check_view(vw, L, nkeys, probe)
        if why:
            return "after step %d (%s%s): %s" % (i + 1, name, a, why)
    return None


def oracle_same(args, out):
    nkeys = int(args[0])
    init = nums(args[1])
    if out == "bad-op":
        return None if (not init or init[0] > 6 or len(init) % 2 == 0) else "adapter refused a good line"
    ps = pairs_of(init[1:])
    L = init_list(init[0], ps)
    vs = out.split(";")
    if len(vs) != 4:
        return "expected four views: %s" % out[:80]
    if len(set(vs)) != 1:
        return "classes built from the same input differ: %s" % vs
    return check_view(vs[0], L, nkeys, ps)


def well_formed(s):
    return not any(0xD800 <= ord(c) < 0xE000 for c in s)


def oracle_enc(args, out):
    ps = dec_pairs(args[0])
    wf = all(well_formed(k) and well_formed(v) for k, v in ps)
    if not wf:
        # str() of a mapping holding a lone surrogate: outside the property (caller error)
        return None
    if not out.startswith("ok "):
        return "str(QueryParams(pairs)) raised: %s" % out
    _, s, flag = out.split(" ")
    if flag != "1":
        return "QueryParams(str(q)) != q (str(q) = %r)" % dec_text(s)
    # independent reading of the string form: split and percent-decode by hand
    text = dec_text(s)
    got = []
    if text:
        for field in text.split("&"):
            k, _, v = field.partition("=")
            got.append((pct(k), pct(v)))
    if got != ps:
        return "str(q) = %r does not spell the pairs %r" % (text, ps)
    return None


def pct(s):
    """tiny independent percent-decoder for strictly encoded text"""
    bs = bytearray()
    i = 0
    while i < len(s):
        if s[i] == "%":
            bs.append(int(s[i + 1:i + 3], 16))
            i += 3
        elif s[i] == "+":
            bs.append(32)
            i += 1
        else:
            bs.append(ord(s[i]))
            i += 1
    return bs.decode("utf-8")


def oracle_parse(args, out):
    if out == "bad-op":
        return None
    if not out.startswith("ok "):
        return "QueryParams(text) raised: %s" % out
    _, ps, flag = out.split(" ")
    pairs = dec_pairs(ps)
    if flag == "X":
        if all(well_formed(k) and well_formed(v) for k, v in pairs):
            return "str() of a parsed mapping raised"
        return None
    if flag != "1":
        return "a query mapping parsed from its own string form differs from itself"
    return None


def oracle(line, out):
    a = line.split(" ")
    if out.startswith("crash") and a[0] != "qs_enc":
        return "escaped exception: %s" % out
    try:
        if a[0] == "mm_seq":
            return oracle_seq(a[1:], out)
        if a[0] == "mm_same":
            return oracle_same(a[1:], out)
        if a[0] == "mm_eq":
            return oracle_eq(a[1:], out)
        if a[0] == "qs_enc":
            return oracle_enc(a[1:], out)
        if a[0] == "qs_parse":
            return oracle_parse(a[1:], out)
    except Exception as exc:  # noqa
        return "unparsable output (%r): %s" % (exc, out[:120])
    return "unknown op"


def classify(line, out):
    a = line.split(" ")
    if out == "bad-op":
        return a[0] + "/bad-op"
    if a[0] == "mm_seq":
        n = len(decode_ops(nums(a[4])) or [])
        form = nums(a[2])[0]
        bucket = n if n < 5 else "5-19" if n < 20 else "20+"
        return "mm_seq/form%d/len=%s%s" % (form, bucket, "/keyerror" if ("E|" in out) else "")
    if a[0] == "mm_same":
        return "mm_same/form%d" % nums(a[2])[0]
    if a[0] == "mm_eq":
        return "mm_eq/" + out.replace(" ", "/")
    if a[0] == "qs_enc":
        return "qs_enc/" + out.split(" ")[0] + ("" if not out.startswith("ok") else "/rt" + out.split(" ")[2])
    if a[0] == "qs_parse":
        return "qs_parse/mode%s/rt%s" % (a[1], out.split(" ")[-1])
    return "other"


def nontrivial(line, out):
    a = line.split(" ")
    if a[0] == "mm_seq":
        for st in out.split(";"):
            vw = st.partition("|")[2] or st
            f = vw.split("/")
            if len(f) == 6 and any("." in p.split(":")[0] for p in f[3].split(",") if ":" in p):
                return len(decode_ops(nums(a[4])) or []) >= 1
        return False
    if a[0] == "mm_same":
        return len(nums(a[2])) >= 5
    if a[0] == "mm_eq":
        return len(nums(a[1])) >= 4
    if a[0] == "qs_enc":
        return len(dec_pairs(a[1])) >= 2 or "37," in out
    if a[0] == "qs_parse":
        t = dec_text(a[2])
        return "&" in t or "%" in t
    return False


def describe(line):
    a = line.split(" ")
    if a[0] == "mm_seq":
        init = nums(a[2])
        return {"probe_keys": int(a[1]), "constructor_form": init[0] if init else None,
                "initial_pairs": [(kname(k), vname(v)) for k, v in pairs_of(init[1:])] if len(init) % 2 else None,
                "compared_with": [(kname(k), vname(v)) for k, v in pairs_of(nums(a[3]))],
                "operations": ["%s%s" % (n, (x,) if not isinstance(x, tuple) else x)
                               for n, x in (decode_ops(nums(a[4])) or [])]}
    if a[0] == "mm_same":
        init = nums(a[2])
        return {"constructor_form": init[0] if init else None, "pairs": init[1:]}
    if a[0] == "mm_eq":
        return {"left": pairs_of(nums(a[1])), "right": pairs_of(nums(a[2])),
                "note": "keys a,b,..; odd values are UploadFile objects, even values strings"}
    if a[0] == "qs_enc":
        return {"pairs": dec_pairs(a[1])}
    if a[0] == "qs_parse":
        return {"mode": "bytes" if a[1] == "1" else "str", "text": dec_text(a[2])}
    return {"line": line}


# ---- generators ---------------------------------------------------------------------------


def flat(xs):
    return ",".join(map(str, xs)) if xs else "-"


def mk_seq(nkeys, form, ps, probe, ops):
    init = [form] + [x for p in ps for x in p]
    return "mm_seq %d %s %s %s" % (nkeys, flat(init), flat([x for p in probe for x in p]),
                                   flat([x for op in ops for x in op]))


def op_alphabet(keys, vals):
    """every operation over a small key/value alphabet, as opcode lists"""
    ops = []
    for k in keys:
        for v in vals:
            ops.append([0, k, v])
            ops.append([2, k, v])
        ops.append([1, k])
        ops.append([3, k, 0])
        ops.append([3, k, 1, vals[-1]])
        ops.append([3, k, 2, vals[0], vals[-1]])
        ops.append([4, k])
        ops.append([5, k])
        ops.append([6, k, vals[0]])
        ops.append([8, k, vals[-1]])
    ops.append([7])
    ops.append([13])
    two = [keys[0], vals[0], keys[0], vals[-1]]
    mixed = [keys[-1], vals[-1], keys[0], vals[0], keys[-1], vals[0]]
    for code in (9, 10, 11, 12):
        ops.append([code, 2] + two)
        ops.append([code, 3] + mixed)
    ops.append([9, 0])
    return ops


def all_pair_lists(keys, vals, maxlen):
    universe = [(k, v) for k in keys for v in vals]
    for n in range(maxlen + 1):
        for c in itertools.product(universe, repeat=n):
            yield list(c)


def rand_pairs(rng, nk, nv, n):
    return [(rng.randrange(nk), rng.randrange(0, nv + 1)) for _ in range(n)]


def rand_op(rng, nk, nv):
    k = rng.randrange(nk)
    v = rng.randrange(0, nv + 1)
    r = rng.random()
    if r < 0.16:
        return [0, k, v]
    if r < 0.32:
        return [2, k, v]
    if r < 0.39:
        return [1, k]
    if r < 0.50:
        vs = [rng.randrange(0, nv + 1) for _ in range(rng.choice([0, 1, 2, 2, 3]))]
        return [3, k, len(vs)] + vs
    if r < 0.56:
        return [4, k]
    if r < 0.61:
        return [5, k]
    if r < 0.66:
        return [6, k, v]
    if r < 0.73:
        return [7]
    if r < 0.81:
        return [8, k, v]
    if r < 0.98:
        ps = rand_pairs(rng, nk, nv, rng.choice([0, 1, 2, 3, 4]))
        return [rng.choice([9, 10, 11, 12]), len(ps)] + [x for p in ps for x in p]
    return [13]


SPECIAL = "&=+%# ;/?:@~_.-*'\"\\\x00\n\r\t\x7f\x80\xa0\xe9\xffĀ߿ࠀ€�￿\U00010000\U0001f600\U0010ffff"


def rand_text(rng, surrogates=False):
    n = rng.choice([0, 0, 1, 1, 2, 3, 5, 8])
    out = []
    for _ in range(n):
        r = rng.random()
        if r < 0.35:
            out.append(rng.choice("abcXYZ019"))
        elif r < 0.75:
            out.append(rng.choice(SPECIAL))
        elif r < 0.85:
            out.append(chr(rng.randrange(0, 0x80)))
        elif surrogates and r < 0.88:
            out.append(chr(rng.choice([0xD800, 0xDBFF, 0xDC00, 0xDFFF])))
        else:
            c = rng.choice([rng.randrange(0x80, 0x800), rng.randrange(0x800, 0xD800), rng.randrange(0xE000, 0x10000),
                            rng.randrange(0x10000, 0x110000)])
            out.append(chr(c))
    return "".join(out)


def rand_query(rng):
    """query-string-like text: fields, escapes (valid, truncated, non-hex, malformed UTF-8), raw non-ASCII"""
    fields = []
    for _ in range(rng.choice([0, 1, 1, 2, 3, 4])):
        parts = []
        for _ in range(rng.choice([0, 1, 2, 3, 5])):
            r = rng.random()
            if r < 0.3:
                parts.append(rng.choice("abcz019_.-~*"))
            elif r < 0.42:
                parts.append(rng.choice("=+&;%# "))
            elif r < 0.8:
                b = rng.choice([rng.randrange(256), rng.choice([0x25, 0x26, 0x3D, 0x2B, 0x20, 0x41, 0x7F, 0x80, 0xBF, 0xC0,
                                                                  0xC2, 0xDF, 0xE0, 0xA0, 0x9F, 0xED, 0xEF, 0xF0, 0x90, 0x8F,
                                                                  0xF4, 0xF5, 0xFF])])
                parts.append(rng.choice(["%%%02X", "%%%02x"]) % b)
            elif r < 0.88:
                parts.append(rng.choice(["%", "%4", "%g1", "%1g", "%%", "%+1", "% 41", "%4%41"]))
            else:
                parts.append(rng.choice(["\xe9", "€", "\U0001f600", "\x80", "\xff", "\ud800", "\udfff"]))
        fields.append("".join(parts))
    return rng.choice(["&", "&", "&", "&&", ";"]).join(fields)


def cases(rng, tier):
    yield from corpus_lines(PROPERTY)
    thorough = tier == "thorough"
    keys, vals = [0, 1], [0, 1]      # value 0 is the blank string
    alpha = op_alphabet(keys, vals)
    probe = [(0, 1), (1, 2)]
    # exhaustive: every sequence of length 2 from every initial list of length <= 3 (pairs form; quick: initial
    # lists up to renaming of keys / values, i.e. starting with (a,1)), the other constructor forms with every
    # initial list and every single op
    for ps in all_pair_lists(keys, vals, 3):
        if thorough or not ps or ps[0] == (0, 1):
            for o1 in alpha:
                for o2 in alpha:
                    yield mk_seq(2, 1, ps, ps[:2], [o1, o2])
        for form in (2, 3, 4, 5, 6):
            if thorough or (len(ps) + form) % 5 == 0 or len(ps) < 3:
                for o1 in alpha:
                    yield mk_seq(3, form, ps, probe, [o1, [7]])
        yield "mm_same 3 %s" % flat([1 + len(ps) % 2] + [x for p in ps for x in p])
    yield mk_seq(2, 0, [], [], [[7], [0, 0, 1]])
    # every sequence of length 3 from short initial lists (quick: reduced alphabet, one fresh value)
    small = alpha if thorough else [o for o in alpha if not (o[0] in (0, 2, 6, 8) and o[2] == vals[0])
                                    and not (o[0] in (10, 12)) and not (o[0] in (9, 11) and o[1] == 2)]
    for ps in all_pair_lists(keys, vals, 1):
        if thorough or not ps or ps[0] == (0, 1):
            for c in itertools.product(small, repeat=3):
                yield mk_seq(2, 1, ps, probe, list(c))
    if thorough:
        k3 = op_alphabet([0, 1, 2], [0, 1])
        for ps in all_pair_lists([0, 1, 2], [0, 1], 2):
            for c in itertools.product(k3, repeat=2):
                yield mk_seq(3, 1, ps, probe, list(c))
    for form in range(7):
        for ps in all_pair_lists([0, 1, 2], [0, 1], 2):
            yield "mm_same 3 %s" % flat([form] + [x for p in ps for x in p])
    # random long sequences
    for _ in range(40000 if thorough else 2500):
        nk = rng.choice([2, 2, 3, 4])
        nv = rng.choice([2, 3])
        ps = rand_pairs(rng, nk, nv, rng.choice([0, 1, 2, 3, 5, 8]))
        form = rng.choice([0, 1, 1, 1, 2, 3, 4, 5, 6])
        ops = [rand_op(rng, nk, nv) for _ in range(rng.randrange(10, 61))]
        yield mk_seq(nk, form, ps, rand_pairs(rng, nk, nv, rng.choice([0, 1, 2, 3])), ops)
    for _ in range(8000 if thorough else 800):
        nk = rng.choice([2, 3, 5])
        ps = rand_pairs(rng, nk, 3, rng.choice([0, 1, 2, 3, 4, 6, 9]))
        yield "mm_same %d %s" % (nk, flat([rng.randrange(7)] + [x for p in ps for x in p]))
    # == on mappings with unorderable values (uploaded files)
    for p1 in all_pair_lists([0, 1], [1, 2, 3], 2):
        for p2 in all_pair_lists([0, 1], [1, 2, 3], 2):
            if len(p1) == len(p2) or (len(p1) + len(p2)) % 3 == 0:
                yield "mm_eq %s %s" % (flat([x for p in p1 for x in p]), flat([x for p in p2 for x in p]))
    for _ in range(20000 if thorough else 1500):
        p1 = rand_pairs(rng, 3, 4, rng.choice([1, 2, 3, 4, 6]))
        p2 = list(p1)
        r = rng.random()
        if r < 0.5:
            rng.shuffle(p2)
        elif r < 0.7:
            p2[rng.randrange(len(p2))] = (rng.randrange(3), rng.randrange(1, 5))
            rng.shuffle(p2)
        elif r < 0.8:
            p2.append(rng.choice(p2))
        elif r < 0.9:
            p2 = rand_pairs(rng, 3, 4, len(p1))
        yield "mm_eq %s %s" % (flat([x for p in p1 for x in p]), flat([x for p in p2 for x in p]))
    # query strings
    fixed = [[], [("", "")], [("a", "")], [("", "b")], [("a", "1"), ("a", "2"), ("b", "")], [("a b", "c+d")],
             [("&", "="), ("%", "#")], [("\xe9", "€"), ("\U0001f600", "\U0010ffff")], [("%41", "%zz")],
             [("\ud800", "x")], [("a", "\udfff")], [(" ", " "), ("+", "+")], [("\x00", "\x7f"), ("\x80", "߿")],
             [("ࠀ", "퟿"), ("", "￿"), ("\U00010000", "~._-")]]
    for ps in fixed:
        yield "qs_enc " + enc_pairs(ps)
    # very many pairs (the round trip has no size in its statement): 1000, 1001, 2500 pairs, repeated and distinct keys
    for count in (1000, 1001, 2500):
        yield "qs_enc " + enc_pairs([("k%d" % (i % 40), "v%d" % i) for i in range(count)])
        yield "qs_enc " + enc_pairs([("k%d" % i, "") for i in range(count)])
        yield "qs_parse 0 " + enc("&".join("a=%d" % i for i in range(count)))
        yield "qs_parse 1 " + enc("&".join("a%d=1" % i for i in range(count)))
    # every pair list of length <= 3 over blank / plain / reserved keys and values (blank key with blank value included)
    alpha = [(k, v) for k in ("", "a", "b c") for v in ("", "1", "x&y=z")]
    for n in (1, 2, 3):
        for ps in itertools.product(alpha, repeat=n):
            yield "qs_enc " + enc_pairs(list(ps))
    for _ in range(60000 if thorough else 4000):
        sur = rng.random() < 0.08
        ps = [(rand_text(rng, sur), rand_text(rng, sur)) for _ in range(rng.choice([0, 1, 1, 2, 3, 5]))]
        yield "qs_enc " + enc_pairs(ps)
    for text in ["", "a", "a=", "=a", "=", "&", "&&", "a&b", "a=1&a=2", "a=1=2", "a+b=c+d", "%41=%42", "%4", "%", "%zz",
                 "a=%E2%82%AC", "a=%E2%82", "a=%E2%82x", "%C0%80", "%ED%A0%80", "%F4%90%80%80", "%F0%9F%98%80",
                 "\xe9=%C3%A9", "%C3\xe9%A9", "a;b=1", "a=1&&b=2&", "+=+", "%2B=%26%3D", "%e9", "%E9%80",
                 "\ud800=1", "%F0%9F%98", "%F0%9F%98A", "%E0%80%80", "%e2%82%ac"]:
        yield "qs_parse 0 " + enc(text)
        if all(ord(c) < 256 for c in text):
            yield "qs_parse 1 " + enc(text)
    for _ in range(60000 if thorough else 5000):
        t = rand_query(rng)
        if rng.random() < 0.25 and all(ord(c) < 256 for c in t):
            yield "qs_parse 1 " + enc(t)
        else:
            yield "qs_parse 0 " + enc(t)
    # str() of random mappings, re-parsed: the encoder's output through the parser
    for _ in range(20000 if thorough else 1500):
        ps = [(rand_text(rng), rand_text(rng)) for _ in range(rng.choice([1, 2, 3]))]
        yield "qs_parse 0 " + enc(str(QueryParams(ps)))
