"""C10 — the request body is read once, completely, and consistently cached (WSGI and ASGI)."""
import asyncio
import itertools
import json as _json
import os
import re
import subprocess

from baize.asgi import requests as asgi_requests
from baize.wsgi import requests as wsgi_requests

from .common import corpus_lines, dec_bytes, enc

PROPERTY = "C10"
LEAN_MODULES = ["BaizeVerif.Props.C10"]
MODEL_MODULES = ["BaizeVerif.Model.Body"]
DRIVER_OPS = {"c10w": "Body.runW", "c10a": "Body.runA"}
THEOREMS = [
    "Baize.Body.source_pinned",
    "Baize.Body.wsgi_body_is_concat",
    "Baize.Body.wsgi_each_byte_once",
    "Baize.Body.wsgi_reads_only_in_first_drain",
    "Baize.Body.wsgi_accessors_cached",
    "Baize.Body.wsgi_stream_after_body_replays",
    "Baize.Body.wsgi_body_after_stream_raises_consumed",
    "Baize.Body.asgi_each_message_once",
    "Baize.Body.asgi_drain_started_once",
    "Baize.Body.asgi_body_outcome",
    "Baize.Body.asgi_body_is_concat",
    "Baize.Body.asgi_disconnect_surfaces",
    "Baize.Body.asgi_concurrent_awaiters_agree",
    "Baize.Body.asgi_json_form_of_the_same_body",
    "Baize.Body.asgi_cached_no_receive",
    "Baize.Body.asgi_no_deadlock",
    "Baize.Body.asgi_stream_outcome",
    "Baize.Body.asgi_body_after_stream_raises_consumed",
]
MANIFEST = {
    "technique": "Lean 4 proof (invariants over all access sequences / all schedules of a small-step task pool) "
                 "+ differential correspondence with real Request objects under forced schedules",
    "text": "Lean theorems over an executable model of cached_property and of wsgi/asgi Request.stream/body/json/"
            "form/close: the body is the concatenation of all chunks for every chunking, every byte/message is "
            "handed out once at a single monotone read position, accessors are idempotent and read nothing again, "
            "stream-after-body replays, body-after-stream raises RuntimeError('Stream consumed'); on ASGI for "
            "every schedule of concurrently awaiting tasks the drain is started by exactly one task, all awaiters "
            "of body/json/form get the same outcome, and a disconnect before the final chunk never yields a "
            "truncated body.  The model is tied to /repo on every run by regenerated constants/shapes and by a "
            "correspondence on real Request objects with scripted wsgi.input / receive (call-counting), where "
            "every asyncio task step is forced to follow the model's schedule (all schedules exhaustively for "
            "small task sets); an independent oracle states the property on the implementation's outputs.",
    "note": "Trusted: Lean kernel (propext, Classical.choice, Quot.sound only), tools/gen/c10.py, the harness' "
            "stepping event loop (a stock SelectorEventLoop whose ready handles are run one at a time in the "
            "chosen order); json.loads / decode / parse_qsl are deterministic functions of the body (parameters "
            "of the model).  Not modelled: multipart/form-data forms, task cancellation, is_disconnected(), "
            "CONTENT_LENGTH (WSGI reads wsgi.input to EOF).",
    "design": "C10",
}
CORRESPONDENCE = ("Baize.Body.wRun / Baize.Body.runSched  vs  baize.wsgi.requests.Request / "
                  "baize.asgi.requests.Request (+ baize.utils.cached_property)")
RULE = ("corpus; WSGI: all access sequences over {body,json,form,close,stream k} up to length 4 (thorough 5) x "
        "chunkings x content types, plus explicit chunk sizes and bodies longer than the default chunk; ASGI "
        "sequential: the same sequences x message scripts (chunkings incl. empty messages x disconnect positions "
        "x unfinished scripts) under the fair scheduler; ASGI concurrent: every schedule (every choice among the "
        "ready asyncio task steps) for task sets of <=2 (thorough <=3) tasks x <=3 messages, random task sets "
        "and random schedules beyond.  non-trivial = at least two accesses that touch the body machinery, or "
        ">=2 tasks; distinct = distinct op line")
TRUSTED = [
    "harness stepping loop: asyncio.SelectorEventLoop, real Task/Future objects; each ready handle = one task "
    "step; the harness only chooses which ready handle runs next",
    "json.loads∘decode and parse_qsl∘decode are deterministic total functions of the body bytes (parameters of "
    "the model; the driver's stand-ins are exact on the alphabet the generators use: digits, x, a-z, =, &)",
]
ASSUMPTIONS = [
    "wsgi.input.read(n) returns at most n bytes and b'' only at EOF",
    "the ASGI server sends only http.request / http.disconnect messages, one per receive() call",
    "nobody but Request.stream() calls receive() (is_disconnected() is outside the op alphabet)",
    "tasks are not cancelled",
    "content types: application/json, application/x-www-form-urlencoded, other (multipart not modelled)",
]
PARTIAL = None

CTS = {"j": "application/json", "u": "application/x-www-form-urlencoded", "o": "text/plain"}
CONSUMED = "rt:Stream_consumed"   # the documented error, as rendered by `err`


# ---- canonical rendering ----------------------------------------------------------------


def err(exc):
    from baize.exceptions import HTTPException

    if isinstance(exc, asgi_requests.ClientDisconnect):
        return "disconnect"
    if isinstance(exc, HTTPException):
        return "http%d" % exc.status_code
    if type(exc) is RuntimeError:
        return "rt:" + re.sub(r"[^A-Za-z0-9]", "_", str(exc))[:40]
    return "crash:" + type(exc).__name__


def r_json(v):
    return "j:ok:" + enc(_json.dumps(v))


def r_form(f):
    items = f.multi_items()
    if not items:
        return "f:ok:."
    return "f:ok:" + "&".join("%s=%s" % (enc(k), enc(v)) for k, v in items)


_FIRST = {}


def same_object(req, kind, value):
    """'Repeated accesses return the IDENTICAL cached result': the form (and the parsed JSON document) of one
    request is one object, however often it is asked for and whatever was called in between (close() included)"""
    key = (id(req), kind)
    if key not in _FIRST:
        if len(_FIRST) > 64:
            _FIRST.clear()
        _FIRST[key] = (req, value)       # holds req, so the id stays taken
        return True
    return _FIRST[key][0] is req and _FIRST[key][1] is value


def r_items(items):
    return "[" + ";".join(enc(bytes(i)) for i in items) + "]"


def parse_ops(tok):
    return [] if tok in (".", "") else tok.split("/")


def stream_args(op):
    """'s3' -> (3, None); 's3x2' -> (3, 2)"""
    body = op[1:]
    if "x" in body:
        k, n = body.split("x")
        return int(k), int(n)
    return int(body), None


# ---- WSGI adapter --------------------------------------------------------------------------


class ScriptedInput:
    """wsgi.input handing out the scripted pieces; read(n) returns at most n bytes of the first
    non-empty piece (short reads), b'' only at EOF; counts calls"""

    def __init__(self, pieces):
        self.pieces = [bytes(p) for p in pieces]
        self.calls = 0
        self.sizes = []
        self.handed = []

    def read(self, n=-1):
        self.calls += 1
        self.sizes.append(n)
        while self.pieces and not self.pieces[0]:
            self.pieces.pop(0)
        if not self.pieces:
            return b""
        head = self.pieces[0]
        if n is None or n < 0 or len(head) <= n:
            self.pieces.pop(0)
            out = head
        else:
            out, self.pieces[0] = head[:n], head[n:]
        if out:
            self.handed.append(out)
        return out

    def left(self):
        return sum(len(p) for p in self.pieces)


def parse_chunks(tok):
    return [] if tok in (".", "") else [dec_bytes(c) for c in tok.split("/")]


def w_op(req, op):
    try:
        if op == "b":
            return "b:ok:" + enc(req.body)
        if op == "j":
            return r_json(req.json)
        if op == "f":
            form = req.form
            return r_form(form) if same_object(req, "f", form) else "f:another-object-than-before"
        if op == "c":
            req.close()
            return "c:ok"
    except Exception as exc:  # noqa
        return op + ":" + err(exc)
    k, n = stream_args(op)
    items = []
    fin = "open"
    gen = req.stream() if not n else req.stream(n)
    try:
        while len(items) < k:
            try:
                items.append(next(gen))
            except StopIteration:
                fin = "end"
                break
    except Exception as exc:  # noqa
        fin = "!" + err(exc)
    finally:
        gen.close()
    return "s:" + r_items(items) + fin


ENV_VARIANTS = ("cl", "nocl", "emptycl", "chunked", "terminated")


def run_wsgi(ct, chunks, ops, env="cl"):
    inp = ScriptedInput(chunks)
    # a real server announces the body length (variant `cl`); the code reads wsgi.input to EOF and must not let
    # the announcement (correct here) or short reads cut the body short.  The other variants are the
    # presentations of a body whose length the server does not announce: no CONTENT_LENGTH at all, an empty
    # one, a de-chunked upload (Transfer-Encoding still visible), `wsgi.input_terminated`.
    environ = {"REQUEST_METHOD": "POST", "CONTENT_TYPE": CTS[ct], "wsgi.input": inp,
               "PATH_INFO": "/", "QUERY_STRING": "", "SERVER_NAME": "t", "SERVER_PORT": "80",
               "wsgi.url_scheme": "http"}
    if env == "cl":
        environ["CONTENT_LENGTH"] = str(sum(len(c) for c in chunks))
    elif env == "emptycl":
        environ["CONTENT_LENGTH"] = ""
    elif env == "chunked":
        environ["HTTP_TRANSFER_ENCODING"] = "chunked"
    elif env == "terminated":
        environ["wsgi.input_terminated"] = True
    req = wsgi_requests.Request(environ)
    outs = []
    for op in ops:
        o = w_op(req, op)
        outs.append("%s@%d" % (o, inp.calls))
    return "|".join(outs) + " reads=%d left=%d got=%s" % (inp.calls, inp.left(), enc(b"".join(inp.handed))), inp


# ---- ASGI adapter: real asyncio tasks, one task step at a time -------------------------------


def parse_script(tok):
    msgs = []
    if tok in (".", ""):
        return msgs
    for m in tok.split("/"):
        if m == "d":
            msgs.append({"type": "http.disconnect"})
        else:
            msgs.append({"type": "http.request", "body": dec_bytes(m[1:]), "more_body": m[0] == "m"})
    return msgs


ORDER = "BJF0123456789"
_CORO = {"Request.body": "B", "Request.json": "J", "Request.form": "F"}


class Stepper:
    """A stock asyncio SelectorEventLoop that is never `run`: its ready queue is executed one
    handle (= one asyncio task step) at a time, in the order the caller chooses."""

    def __init__(self):
        self.loop = asyncio.new_event_loop()
        self.loop.set_exception_handler(lambda loop, ctx: None)

    def tid(self, handle):
        task = getattr(handle._callback, "__self__", None)
        if not isinstance(task, asyncio.Task):
            return None
        if task in self.names:
            return self.names[task]
        q = getattr(task.get_coro(), "__qualname__", "")
        name = _CORO.get(q)
        if name is not None:
            self.names[task] = name
        return name

    def ready(self):
        out = {}
        for h in self.loop._ready:
            if h._cancelled:
                continue
            t = self.tid(h)
            if t is None:
                t = "?"
            out.setdefault(t, h)
        return out

    def ready_str(self):
        r = self.ready()
        return "".join(c for c in ORDER if c in r) + ("?" if "?" in r else "") or "-"

    def step(self, t):
        h = self.ready().get(t)
        if h is None:
            return False
        self.loop._ready.remove(h)
        h._run()
        return True

    def run(self, ct, msgs, progs, sched, fifo=False):
        """sched: 'auto' | iterable of task chars | callable(ready_str) -> char or None.
        Returns (output text, executed schedule)"""
        loop = self.loop
        asyncio.events._set_running_loop(loop)
        self.names = {}
        st = {"calls": 0, "pos": 0}
        state = {}
        never = loop.create_future()

        async def receive():
            me = self.names.get(asyncio.current_task(), "?")
            i = st["calls"]
            st["calls"] += 1
            state[me] = "v"
            if i < len(msgs):
                await asyncio.sleep(0)      # the suspension point of receive()
                st["pos"] += 1
                state[me] = "w"
                return msgs[i]
            await never

        scope = {"type": "http", "method": "POST", "path": "/", "query_string": b"",
                 "headers": [(b"content-type", CTS[ct].encode())]}
        req = asgi_requests.Request(scope, receive)
        outs = [[] for _ in progs]

        async def a_op(op):
            try:
                if op == "b":
                    return "b:ok:" + enc(await req.body)
                if op == "j":
                    return r_json(await req.json)
                if op == "f":
                    form = await req.form
                    return r_form(form) if same_object(req, "f", form) else "f:another-object-than-before"
                if op == "c":
                    await req.close()
                    return "c:ok"
            except Exception as exc:  # noqa
                return op + ":" + err(exc)
            k, _ = stream_args(op)
            items = []
            fin = "open"
            agen = req.stream()
            try:
                while len(items) < k:
                    try:
                        items.append(await agen.__anext__())
                    except StopAsyncIteration:
                        fin = "end"
                        break
            except Exception as exc:  # noqa
                fin = "!" + err(exc)
            await agen.aclose()
            return "s:" + r_items(items) + fin

        async def user(i):
            state[str(i)] = "w"
            for op in progs[i]:
                outs[i].append(await a_op(op))
            state[str(i)] = "done"

        tasks = []
        for i in range(len(progs)):
            t = loop.create_task(user(i))
            self.names[t] = str(i)
            state[str(i)] = "r"
            tasks.append(t)
        executed = []
        trace = []
        try:
            if sched == "auto":
                for _ in range(10000):
                    r = self.ready()
                    pick = next((c for c in ORDER if c in r), None)
                    if pick is None:
                        break
                    self.step(pick)
                    executed.append(pick)
            elif callable(sched):
                for _ in range(10000):
                    pick = sched(self.ready_str())
                    if pick is None:
                        break
                    self.step(pick)
                    executed.append(pick)
                    trace.append(self.ready_str())
            else:
                for pick in sched:
                    self.step(pick)
                    executed.append(pick)
                    trace.append(self.ready_str())
            parts = []
            for i in range(len(progs)):
                s = "|".join(outs[i]) if outs[i] else "."
                if state[str(i)] != "done" and progs[i]:
                    s += "~" + state[str(i)]
                parts.append(s)
            text = " ".join(parts) + " calls=%d pos=%d disc=%d ready=%s" % (
                st["calls"], st["pos"], 1 if req._is_disconnected else 0, self.ready_str())
            if sched != "auto":
                text += " trace=" + ",".join(trace)
            return text, "".join(executed)
        finally:
            # leave the loop clean: cancel whatever is still pending and drain the ready queue
            for t in list(asyncio.all_tasks(loop)):
                if not t.done():
                    t.cancel()
            for _ in range(10000):
                if not loop._ready:
                    break
                loop._ready.popleft()._run()
            for t in list(asyncio.all_tasks(loop)) + tasks:
                if t.done() and not t.cancelled():
                    t.exception()
            for name in ("body", "json", "form"):
                f = req.__dict__.get(name)
                if f is not None and f.done() and not f.cancelled():
                    f.exception()
            never.cancel()
            asyncio.events._set_running_loop(None)


_STEPPER = None


def stepper():
    global _STEPPER
    if _STEPPER is None:
        _STEPPER = Stepper()
    return _STEPPER


def parse_tasks(tok):
    return [] if tok in (".", "") else [parse_ops(t) for t in tok.split(";")]


# ---- impl ---------------------------------------------------------------------------------------

_CACHE = {}


def impl(line):
    if line in _CACHE:
        return _CACHE[line]
    a = line.split(" ")
    try:
        if a[0] == "c10w":
            out, _ = run_wsgi(a[1], parse_chunks(a[2]), parse_ops(a[3]), a[4] if len(a) > 4 else "cl")
        else:
            out, _ = stepper().run(a[1], parse_script(a[2]), parse_tasks(a[3]), a[4] if a[4] == "auto" else list(a[4]))
    except Exception as exc:  # noqa  (the adapter must not raise)
        out = "adapter-crash:" + type(exc).__name__ + ":" + str(exc).replace(" ", "_")[:80]
    return out


# ---- oracle: the property stated directly on the implementation's output ------------------------
# (independent of the Lean model: it only knows what the server sent and what the accessors returned)


def body_spec(msgs):
    """what the client sent: ('ok', body) | ('disconnect', None) | (None, None) for an unfinished script;
    second component: how many messages belong to the request body"""
    acc = b""
    for i, m in enumerate(msgs):
        if m["type"] == "http.disconnect":
            return ("disconnect", None), i + 1
        acc += m["body"]
        if not m["more_body"]:
            return ("ok", acc), i + 1
    return (None, None), len(msgs)


def _ref_json(ct, body):
    if ct != "j":
        return "j:http415"
    try:
        return r_json(_json.loads(body.decode("utf8")))
    except _json.JSONDecodeError:
        return "j:http400"
    except UnicodeDecodeError:
        return "j:crash:UnicodeDecodeError"


def _ref_form(ct, body):
    from urllib.parse import parse_qsl

    if ct != "u":
        return "f:http415"
    pairs = parse_qsl(body.decode("latin-1"), keep_blank_values=True)
    if not pairs:
        return "f:ok:."
    return "f:ok:" + "&".join("%s=%s" % (enc(k), enc(v)) for k, v in pairs)


def _bad_error(o):
    tag = o.split(":", 1)[1] if ":" in o else o
    if o.startswith("s:"):
        tag = o.split("]", 1)[1]
        tag = tag[1:] if tag.startswith("!") else ""
    if tag.startswith("rt:") and tag != CONSUMED:
        return "undocumented RuntimeError %r (documented: RuntimeError('Stream consumed'))" % tag
    if tag.startswith("crash:"):
        return "unexpected exception %s" % tag
    return None


def _items(o):
    inner = o[3:o.index("]")]
    return [] if inner == "" else [dec_bytes(x) for x in inner.split(";")]


def _fin(o):
    return o[o.index("]") + 1:]


def oracle_wsgi(a, out):
    ct, chunks, ops = a[1], parse_chunks(a[2]), parse_ops(a[3])
    whole = b"".join(chunks)
    if out.startswith("adapter-crash"):
        return out
    head, tail = out.rsplit(" reads=", 1)
    reads_s, left_s, got_s = tail.split(" ")
    left = int(left_s.split("=")[1])
    got = dec_bytes(got_s.split("=")[1])
    if not whole.startswith(got) or len(got) + left != len(whole):
        return "bytes lost or handed out twice: read %r, %d left, sent %r" % (got, left, whole)
    outs = head.split("|") if ops else []
    first = {}
    prev_reads = 0
    cached = None          # body known to be cached (an accessor returned ok from it)
    drained_by_stream = False
    for op, o in zip(ops, outs):
        o, reads = o.rsplit("@", 1)
        reads = int(reads)
        bad = _bad_error(o)
        if bad:
            return "%s: %s" % (op, bad)
        if reads < prev_reads:
            return "read counter went backwards"
        kind = op[0]
        if kind in "bjf":
            if kind in first:
                if o != first[kind]:
                    return "repeated %s returned %s after %s" % (op, o, first[kind])
                if reads != prev_reads:
                    return "repeated %s read wsgi.input again" % op
            first.setdefault(kind, o)
            if o.startswith("b:ok:") and dec_bytes(o[5:]) != whole:
                return "body %r is not the concatenation of the chunks %r" % (dec_bytes(o[5:]), whole)
            depends = kind == "b" or (kind == "j" and ct == "j") or (kind == "f" and ct == "u")
            if depends and drained_by_stream and cached is None and o[2:] != CONSUMED:
                return "%s after a consumed stream returned %s, documented: RuntimeError('Stream consumed')" % (op, o)
            if depends and not drained_by_stream and o[2:] == CONSUMED:
                return "%s raised Stream consumed although nothing consumed the stream" % op
            if kind == "j" and depends and cached is not None and o != _ref_json(ct, whole):
                return "json of the cached body: %s, expected %s" % (o, _ref_json(ct, whole))
            if kind == "f" and depends and cached is not None and o != _ref_form(ct, whole):
                return "form of the cached body: %s, expected %s" % (o, _ref_form(ct, whole))
            if depends and o[2:] != CONSUMED:
                cached = whole
                if kind == "j" and o != _ref_json(ct, whole):
                    return "json: %s, expected %s" % (o, _ref_json(ct, whole))
                if kind == "f" and o != _ref_form(ct, whole):
                    return "form: %s, expected %s" % (o, _ref_form(ct, whole))
        elif kind == "s":
            k, n = stream_args(op)
            items, fin = _items(o), _fin(o)
            if k >= 1 and cached is not None:
                if items != [whole] or reads != prev_reads or fin.startswith("!"):
                    return "stream after body must replay the cached body once without reading: %s" % o
            elif k >= 1 and drained_by_stream:
                if fin != "!" + CONSUMED or items:
                    return "second stream over a consumed input: %s" % o
            elif k >= 1:
                drained_by_stream = True
                if fin.startswith("!"):
                    return "first stream raised %s" % fin
                if any(not i for i in items) or (n and any(len(i) > n for i in items)):
                    return "stream yielded an empty or over-long item: %s" % o
                if not whole.startswith(b"".join(items)) or (fin == "end" and b"".join(items) != whole):
                    return "stream items %r are not the body %r" % (items, whole)
        prev_reads = reads
    return None


def oracle_asgi(a, out):
    ct, msgs, progs = a[1], parse_script(a[2]), parse_tasks(a[3])
    if out.startswith("adapter-crash"):
        return out
    (kind, whole), needed = body_spec(msgs)
    fields = out.split(" ")
    tasks = fields[:len(progs)]
    kv = dict(f.split("=", 1) for f in fields[len(progs):])
    calls, pos = int(kv["calls"]), int(kv["pos"])
    if pos > needed:
        return "receive() was called past the end of the request body (%d messages taken, body ends after %d)" % (pos, needed)
    if not (pos <= calls <= pos + 1):
        return "more than one receive() pending at once (calls=%d, messages taken=%d)" % (calls, pos)
    any_stream = any(op[0] == "s" and stream_args(op)[0] >= 1 for p in progs for op in p)
    results = []
    for prog, t in zip(progs, tasks):
        t = t.split("~")[0]
        results.append(list(zip(prog, [] if t == "." else t.split("|"))))
    # pass 1: the accessors — one outcome per accessor over all tasks and repetitions, and the right one
    seen = {}
    body_res = None     # what the body future ended in, as far as any dependent accessor shows
    for ti, res in enumerate(results):
        for op, o in res:
            bad = _bad_error(o)
            if bad:
                return "task %d %s: %s" % (ti, op, bad)
            k0 = op[0]
            if k0 not in "bjf":
                continue
            if k0 in seen and seen[k0] != o:
                return "two awaiters of %s saw different outcomes: %s / %s" % (
                    {"b": "body", "j": "json", "f": "form"}[k0], seen[k0], o)
            seen.setdefault(k0, o)
            depends = k0 == "b" or (k0 == "j" and ct == "j") or (k0 == "f" and ct == "u")
            if not depends:
                if o != (_ref_json(ct, b"") if k0 == "j" else _ref_form(ct, b"")):
                    return "%s: %s" % (op, o)
                continue
            r = o[2:]
            if r == CONSUMED:
                this = "consumed"
                if not any_stream:
                    return "%s raised Stream consumed although no task streams" % op
            elif r == "disconnect":
                this = "disconnect"
                if kind != "disconnect":
                    return "%s raised ClientDisconnect although the client did not disconnect before the final chunk" % op
            else:
                this = "ok"
                if kind == "disconnect":
                    return "%s returned %s although the client disconnected before the final chunk" % (op, o)
                if kind is None:
                    return "%s returned %s before the final chunk was sent" % (op, o)
                want = {"b": "b:ok:" + enc(whole), "j": _ref_json(ct, whole), "f": _ref_form(ct, whole)}[k0]
                if o != want:
                    return "%s returned %s, expected %s (body = concatenation of all chunks)" % (op, o, want)
            if body_res is not None and body_res != this:
                return "body-dependent accessors disagree about the body: %s vs %s" % (body_res, this)
            body_res = this
    # pass 2: the streams
    drains = 0
    for ti, res in enumerate(results):
        for op, o in res:
            if op[0] != "s":
                continue
            k, _ = stream_args(op)
            items, fin = _items(o), _fin(o)
            if k == 0:
                if items or fin != "open":
                    return "stream never iterated: %s" % o
                continue
            if fin == "!" + CONSUMED and not items:
                continue                # somebody else owns the receive channel
            if body_res == "ok":
                if items != [whole, b""][:k] or fin != ("end" if k > 2 else "open"):
                    return "the body is cached, stream must replay it: %s" % o
                continue
            if body_res == "disconnect":
                if items or fin != "!disconnect":
                    return "the body future failed with ClientDisconnect, stream returned %s" % o
                continue
            # this stream drains the receive channel itself (a stream that has the shape of a replay of
            # the whole body is not counted: the body future may be done although no awaiter has run yet)
            if not (kind == "ok" and items == [whole, b""][:k]):
                drains += 1
            data = b"".join(items)
            if fin == "!disconnect":
                if kind != "disconnect":
                    return "stream raised ClientDisconnect without a disconnect"
            elif fin.startswith("!"):
                return "draining stream raised %s" % fin
            if any(not i for i in items[:-1]):
                return "stream yielded an empty chunk before its end: %s" % o
            if kind == "ok" and not whole.startswith(data):
                return "stream items %r are not a prefix of the body %r" % (items, whole)
            if kind == "disconnect" and fin == "end":
                return "stream ended normally although the client disconnected before the final chunk: %s" % o
            if fin == "end" and (kind != "ok" or data != whole):
                return "stream ended with %r, body sent: %r (%s)" % (data, whole, kind)
    if kind is not None and kv.get("ready") == "-" and any("~" in t for t in tasks):
        return "the script is complete and nothing can run any more, yet a task is still waiting: %s" % " ".join(tasks)
    if drains > 1:
        return "%d streams drained the receive channel" % drains
    if drains and body_res not in (None, "consumed"):
        return "a stream drained the channel, yet the body accessor ended in %s" % body_res
    return None


def oracle(line, out):
    a = line.split(" ")
    try:
        return oracle_wsgi(a, out) if a[0] == "c10w" else oracle_asgi(a, out)
    except Exception as exc:  # noqa  (an unparsable output is a failure, not an infrastructure error)
        return "unparsable output %r (%s: %s)" % (out[:200], type(exc).__name__, exc)


# ---- statistics ------------------------------------------------------------------------------------


def classify(line, out):
    a = line.split(" ")
    if a[0] == "c10w":
        ops = parse_ops(a[3])
        tags = set()
        if CONSUMED in out:
            tags.add("consumed")
        if "s:[" in out and "b:ok" in out:
            tags.add("replay")
        return "wsgi/len=%d/pieces=%s/%s" % (len(ops), min(len(parse_chunks(a[2])), 4), "+".join(sorted(tags)) or "plain")
    msgs, progs = parse_script(a[2]), parse_tasks(a[3])
    (kind, _), _ = body_spec(msgs)
    mode = "auto" if a[4] == "auto" else "sched"
    tags = set()
    if CONSUMED in out:
        tags.add("consumed")
    if "disconnect" in out:
        tags.add("disc")
    if "~" in out:
        tags.add("pending")
    return "asgi/%s/tasks=%d/msgs=%d/%s/%s" % (mode, len(progs), len(msgs), kind or "unfinished",
                                                "+".join(sorted(tags)) or "plain")


def nontrivial(line, out):
    a = line.split(" ")
    if a[0] == "c10w":
        return len([o for o in parse_ops(a[3]) if o != "c"]) >= 2
    progs = parse_tasks(a[3])
    return len(progs) >= 2 or len([o for o in progs[0] if o != "c"]) >= 2


def describe(line):
    a = line.split(" ")
    names = {"b": "body", "j": "json", "f": "form", "c": "close"}

    def op(o):
        return names.get(o) or "stream(next x%s%s)" % (o[1:].split("x")[0], ", chunk_size=%s" % o.split("x")[1] if "x" in o else "")

    if a[0] == "c10w":
        return {"interface": "wsgi", "content_type": CTS[a[1]], "wsgi.input pieces": [bytes(c) for c in parse_chunks(a[2])],
                "accesses": [op(o) for o in parse_ops(a[3])],
                "length announcement": {"cl": "CONTENT_LENGTH = total", "nocl": "no CONTENT_LENGTH", "emptycl": "CONTENT_LENGTH = ''",
                                        "chunked": "no CONTENT_LENGTH, Transfer-Encoding: chunked",
                                        "terminated": "no CONTENT_LENGTH, wsgi.input_terminated"}[a[4] if len(a) > 4 else "cl"]}
    return {"interface": "asgi", "content_type": CTS[a[1]],
            "messages": [("disconnect" if m["type"] == "http.disconnect" else (m["body"], "more" if m["more_body"] else "final"))
                         for m in parse_script(a[2])],
            "tasks": [[op(o) for o in p] for p in parse_tasks(a[3])],
            "schedule": a[4] + " (B/J/F = the body/json/form future's task, digits = user tasks; one asyncio task step each)"}


# ---- generators ---------------------------------------------------------------------------------------

W_ALPHA = ["b", "j", "f", "c", "s1", "s2", "s9", "s1x1"]
A_ALPHA = ["b", "j", "f", "c", "s1", "s2", "s9"]

W_CONFIGS_FULL = [("j", "49,50/51"), ("j", "49/-/50"), ("u", "97,61/49,38,98")]
W_CONFIGS_SHORT = [("j", "."), ("j", "49,50,51"), ("j", "49/120"), ("j", "48/49"), ("o", "49/50"),
                   ("u", "."), ("u", "97/61/49"), ("j", "-/-")]

A_SCRIPTS_FULL = ["e49,50", "m49/e50", "m49/m-/e50", "m49/d", "m49"]
A_SCRIPTS_SHORT = ["e-", "m49,50/e-", "m-/m-/e-", "d", "m49/m50/d", "m-/d", ".", "m49/e50/d", "m49/e50/e51",
                   "m49,120/e-", "e48,49"]
A_SCRIPTS_FORM = ["e97,61,49", "m97,61/m49,38/e98", "m97/d", "m97"]


def seqs(alpha, upto):
    for n in range(1, upto + 1):
        for c in itertools.product(alpha, repeat=n):
            yield "/".join(c)


def explore(ct, script, tasks, max_leaves, rng):
    """every schedule of the REAL execution: depth-first over the choices among the ready task steps;
    beyond `max_leaves` complete schedules the remaining budget is spent on random schedules"""
    msgs, progs = parse_script(script), parse_tasks(tasks)
    st = stepper()
    leaves = 0
    stack = [""]
    exhausted = True
    while stack:
        if leaves >= max_leaves:
            exhausted = False
            break
        p = stack.pop()
        out, _ = st.run(ct, msgs, progs, list(p))
        ready = out.split(" ready=")[1].split(" ")[0]
        if ready == "-":
            leaves += 1
            line = "c10a %s %s %s %s" % (ct, script, tasks, p)
            _CACHE[line] = out
            yield line
        else:
            for c in reversed(ready):
                stack.append(p + c)
    if not exhausted:
        for _ in range(max_leaves // 4):
            yield random_schedule(ct, script, tasks, rng)


def random_schedule(ct, script, tasks, rng):
    msgs, progs = parse_script(script), parse_tasks(tasks)

    def pick(ready):
        if ready == "-":
            return None
        if rng.random() < 0.08:     # now and then name a task that cannot move (a no-op step)
            return rng.choice("BJF012"[:3 + len(progs)])
        return rng.choice(ready)

    out, executed = stepper().run(ct, msgs, progs, pick)
    line = "c10a %s %s %s %s" % (ct, script, tasks, executed)
    _CACHE[line] = out
    return line


def rand_bytes(rng, ct):
    if ct == "u":
        return "".join(rng.choice("ab=&1") for _ in range(rng.randrange(0, 4))).encode()
    return "".join(rng.choice("0129x") for _ in range(rng.randrange(0, 3))).encode()


def rand_op(rng, wsgi):
    r = rng.random()
    if r < 0.5:
        return rng.choice("bjf")
    if r < 0.58:
        return "c"
    k = rng.choice([0, 1, 1, 2, 3, 9])
    if wsgi and rng.random() < 0.4:
        return "s%dx%d" % (k, rng.choice([1, 2, 3, 70000]))
    return "s%d" % k


def rand_script(rng, ct):
    n = rng.randrange(0, 5)
    msgs = []
    for i in range(n):
        r = rng.random()
        if r < 0.12:
            msgs.append("d")
        else:
            msgs.append(("e" if rng.random() < 0.3 else "m") + enc(rand_bytes(rng, ct)))
    if rng.random() < 0.6:
        msgs.append(rng.choice(["e" + enc(rand_bytes(rng, ct)), "d"]))
    return "/".join(msgs) if msgs else "."


def cases(rng, tier):
    thorough = tier == "thorough"
    yield from corpus_lines(PROPERTY)
    # -- WSGI: exhaustive access sequences
    for ct, chunks in W_CONFIGS_FULL:
        for s in seqs(W_ALPHA, 5 if thorough else 4):
            yield "c10w %s %s %s" % (ct, chunks, s)
    for ct, chunks in W_CONFIGS_SHORT:
        for s in seqs(W_ALPHA, 4 if thorough else 3):
            yield "c10w %s %s %s" % (ct, chunks, s)
    # bodies longer than the default chunk size (one piece / two pieces)
    big = Gen_chunk_default() + 3
    for chunks in [enc(b"x" * big), enc(b"x" * big) + "/" + enc(b"8" * 5), enc(b"x" * (big - 3)) + "/" + enc(b"2")]:
        for s in ["b/s1", "s2/b", "s9", "j/b/s1", "s1x70000/b", "s3x40000"]:
            yield "c10w j %s %s" % (chunks, s)
    # a body whose length the server does not announce (every presentation x short access sequences)
    for env in ENV_VARIANTS[1:]:
        for ct, chunks in W_CONFIGS_FULL:
            for s in seqs(W_ALPHA, 2):
                yield "c10w %s %s %s %s" % (ct, chunks, s, env)
    for _ in range(60000 if thorough else 4000):
        ct = rng.choice("jjuo")
        chunks = "/".join(enc(rand_bytes(rng, ct)) for _ in range(rng.randrange(0, 5))) or "."
        ops = "/".join(rand_op(rng, True) for _ in range(rng.randrange(1, 7)))
        if rng.random() < 0.3:
            yield "c10w %s %s %s %s" % (ct, chunks, ops, rng.choice(ENV_VARIANTS[1:]))
        else:
            yield "c10w %s %s %s" % (ct, chunks, ops)
    # -- ASGI sequential (one task, fair scheduler)
    for script in A_SCRIPTS_FULL:
        for s in seqs(A_ALPHA, 5 if thorough else 4):
            yield "c10a j %s %s auto" % (script, s)
    for script in A_SCRIPTS_SHORT:
        for s in seqs(A_ALPHA, 4 if thorough else 3):
            yield "c10a j %s %s auto" % (script, s)
    for script in A_SCRIPTS_FORM:
        for s in seqs(A_ALPHA, 4 if thorough else 3):
            yield "c10a u %s %s auto" % (script, s)
    for s in seqs(A_ALPHA, 3):
        yield "c10a o m49/e50 %s auto" % s
    for _ in range(30000 if thorough else 2500):
        ct = rng.choice("jjuo")
        yield "c10a %s %s %s auto" % (ct, rand_script(rng, ct), "/".join(rand_op(rng, False) for _ in range(rng.randrange(1, 7))))
    # -- ASGI concurrent: every schedule of small task sets
    single = ["b", "j", "f", "s1", "s9", "c"]
    scripts2 = ["e49", "m49/e50", "m49/d", "m49", "m49/m-/e50", "d"]
    scripts3 = scripts2 + ["m49/m50/e51", "m49/m50/d", "m-/m49/m50"]
    pairs = list(itertools.combinations_with_replacement(single, 2))
    for t in pairs:
        for script in (scripts3 if thorough else scripts2):
            yield from explore("j", script, ";".join(t), 4000, rng)
    two_ops = ["b/j", "j/b", "s1/b", "b/s9", "j/s2", "f/c", "s9/j", "b/b", "j/j"]
    for t in itertools.combinations_with_replacement(two_ops, 2):
        for script in (["m49/e50", "m49/d", "m49/m50/e51"] if thorough else ["m49/e50", "m49/d"]):
            yield from explore("j", script, ";".join(t), 600 if thorough else 250, rng)
    for t in [("f", "f"), ("f", "b"), ("f", "s9"), ("f/c", "j"), ("f", "j")]:
        for script in ["m97,61/e49", "m97/d"]:
            yield from explore("u", script, ";".join(t), 2000, rng)
    triples = list(itertools.combinations_with_replacement(single, 3))
    for t in triples:
        for script in (["e49", "m49/e50", "m49/d", "m49/m50/e51", "m49/m50/d"] if thorough else ["m49/e50", "m49/d"]):
            yield from explore("j", script, ";".join(t), 800 if thorough else 120, rng)
    # -- random task sets, random schedules
    for _ in range(40000 if thorough else 2500):
        ct = rng.choice("jjuo")
        n = rng.choice([2, 2, 3, 3, 4])
        tasks = ";".join("/".join(rand_op(rng, False) for _ in range(rng.randrange(1, 4))) for _ in range(n))
        yield random_schedule(ct, rand_script(rng, ct), tasks, rng)


def Gen_chunk_default():
    """default chunk size, read from the running code (only used to build inputs longer than it)"""
    import inspect

    return inspect.signature(wsgi_requests.Request.stream).parameters["chunk_size"].default


# ---- extra: the same task sets on the STOCK asyncio loop, schedule forced through gated receive() ----
#
# asyncio.run on a SelectorEventLoop whose only modification is that it records, at every loop
# iteration, which tasks' handles it is about to run (the scheduling itself is untouched: FIFO).
# The scripted receive() awaits a per-call gate; a controller opens the gates and starts the tasks
# in the order given by the gate schedule (events `S<i>` = start user task i, `D` = deliver the next
# message to the pending receive() call).  The recorded task-step sequence is then replayed on the
# Lean model (trace validation: every observed real execution must be a run of the model, with the
# same outcome for every task and the same receive() count), and judged by the oracle.


class RecordingLoop(asyncio.SelectorEventLoop):
    names = None
    steps = None

    def _run_once(self):
        if self.names is not None:
            for h in self._ready:
                if h._cancelled:
                    continue
                task = getattr(h._callback, "__self__", None)
                if isinstance(task, asyncio.Task):
                    name = self.names.get(task)
                    if name is None:
                        name = _CORO.get(getattr(task.get_coro(), "__qualname__", ""))
                    if name is not None:
                        self.steps.append(name)
        super()._run_once()


def run_gated(ct, msgs, progs, events):
    """-> (text without ready/trace, recorded step sequence)"""
    st = {"calls": 0, "pos": 0, "opened": 0}
    state = {}
    outs = [[] for _ in progs]
    box = {}

    async def main():
        loop = asyncio.get_running_loop()
        loop.set_exception_handler(lambda l, c: None)
        loop.names = {}
        loop.steps = []
        gates = [loop.create_future() for _ in msgs]
        never = loop.create_future()

        async def receive():
            me = loop.names.get(asyncio.current_task(), "?")
            i = st["calls"]
            st["calls"] += 1
            state[me] = "v"
            if i < len(msgs):
                await gates[i]              # always pending here: gate i is opened only after call i
                st["pos"] += 1
                state[me] = "w"
                return msgs[i]
            await never

        scope = {"type": "http", "method": "POST", "path": "/", "query_string": b"",
                 "headers": [(b"content-type", CTS[ct].encode())]}
        req = asgi_requests.Request(scope, receive)

        async def a_op(op):
            try:
                if op == "b":
                    return "b:ok:" + enc(await req.body)
                if op == "j":
                    return r_json(await req.json)
                if op == "f":
                    form = await req.form
                    return r_form(form) if same_object(req, "f", form) else "f:another-object-than-before"
                if op == "c":
                    await req.close()
                    return "c:ok"
            except asyncio.CancelledError:
                if box.get("teardown"):
                    raise
                return op + ":cancelled-by-the-request-object"     # nobody cancelled this task
            except Exception as exc:  # noqa
                return op + ":" + err(exc)
            k, _ = stream_args(op)
            items = []
            fin = "open"
            agen = req.stream()
            try:
                while len(items) < k:
                    try:
                        items.append(await agen.__anext__())
                    except StopAsyncIteration:
                        fin = "end"
                        break
            except asyncio.CancelledError:
                if box.get("teardown"):
                    raise
                fin = "!cancelled-by-the-request-object"
            except Exception as exc:  # noqa
                fin = "!" + err(exc)
            await agen.aclose()
            return "s:" + r_items(items) + fin

        async def user(i):
            state[str(i)] = "w"
            for op in progs[i]:
                outs[i].append(await a_op(op))
            state[str(i)] = "done"

        async def settle():
            for _ in range(12 + 6 * len(progs)):
                await asyncio.sleep(0)

        tasks = {}
        for i in range(len(progs)):
            state[str(i)] = "r"
        for ev in events:
            if ev == "D":
                if st["opened"] < min(st["calls"], len(msgs)):
                    if not gates[st["opened"]].done():       # (a cancelled drain takes its gate with it)
                        gates[st["opened"]].set_result(None)
                    st["opened"] += 1
            else:
                i = int(ev[1:])
                if i not in tasks and i < len(progs):
                    t = loop.create_task(user(i))
                    loop.names[t] = str(i)
                    tasks[i] = t
            await settle()
        box["steps"] = list(loop.steps)
        box["disc"] = 1 if req._is_disconnected else 0
        loop.names = None
        box["teardown"] = True
        pending = [t for t in asyncio.all_tasks(loop) if t is not asyncio.current_task() and not t.done()]
        for t in pending:
            t.cancel()
        await asyncio.gather(*pending, return_exceptions=True)
        for name in ("body", "json", "form"):
            f = req.__dict__.get(name)
            if f is not None and f.done() and not f.cancelled():
                f.exception()
        never.cancel()

    asyncio.run(main(), loop_factory=RecordingLoop)
    parts = []
    for i in range(len(progs)):
        s = "|".join(outs[i]) if outs[i] else "."
        if state[str(i)] != "done" and progs[i]:
            s += "~" + state[str(i)]
        parts.append(s)
    text = " ".join(parts) + " calls=%d pos=%d disc=%d" % (st["calls"], st["pos"], box["disc"])
    return text, "".join(box["steps"])


def _driver(lines):
    exe = os.path.join(os.path.dirname(os.path.dirname(os.path.abspath(__file__))), "lean", ".lake", "build", "bin", "driver")
    if not os.path.exists(exe):
        return None
    p = subprocess.run([exe], input="".join(l + "\n" for l in lines), stdout=subprocess.PIPE, text=True, timeout=600)
    out = p.stdout.split("\n")
    return out[:len(lines)] if p.returncode == 0 and len(out) >= len(lines) else None


def gate_schedules(n_tasks, n_msgs):
    """all interleavings of the task starts S0..S(n-1) (in this order or any other) with n_msgs+1 deliveries"""
    evs = ["S%d" % i for i in range(n_tasks)] + ["D"] * (n_msgs + 1)
    seen = set()
    for p in itertools.permutations(evs):
        if p not in seen:
            seen.add(p)
            yield list(p)


def _methods_and_multipart():
    """oracle-only scenarios: the body is what the client sent whatever the request method says; a multipart form
    read from the stream sees a disconnect before the final chunk as ClientDisconnect, like every other reader"""
    def exc_name(exc):
        return type(exc).__name__

    out, n = [], 0
    pieces = [b'{"a": [1, ', b'2, 3], "b"', b': "x"}']
    whole = b"".join(pieces)
    mp = (b'--bd\r\nContent-Disposition: form-data; name="f"\r\n\r\nvalue\r\n'
          b'--bd\r\nContent-Disposition: form-data; name="u"; filename="u.bin"\r\n\r\n' + b"x" * 300 + b'\r\n--bd--\r\n')
    mp_pieces = [mp[:40], mp[40:200], mp[200:]]

    def asgi(method, ctype, chunks, disconnect_after, access):
        msgs = [{"type": "http.request", "body": c, "more_body": True} for c in chunks]
        if disconnect_after is None:
            msgs[-1]["more_body"] = False
        else:
            msgs = msgs[:disconnect_after] + [{"type": "http.disconnect"}]
        calls = [0]

        async def receive():
            calls[0] += 1
            if msgs:
                return msgs.pop(0)
            await asyncio.Event().wait()

        async def main():
            scope = {"type": "http", "method": method, "path": "/", "query_string": b"",
                     "headers": [(b"content-type", ctype)]}
            req = asgi_requests.Request(scope, receive)
            res = []
            for _ in range(2):
                try:
                    if access == "body":
                        res.append(("ok", await req.body))
                    elif access == "json":
                        res.append(("ok", _json.dumps(await req.json, sort_keys=True)))
                    elif access == "stream":
                        got = []
                        async for c in req.stream():
                            got.append(c)
                        res.append(("ok", b"".join(got)))
                        return res
                    else:
                        form = await req.form
                        items = []
                        for k, v in form.multi_items():
                            items.append((k, v if isinstance(v, str) else await v.aread()))
                        res.append(("ok", items))
                except BaseException as exc:  # noqa
                    res.append(("raise", exc_name(exc)))
                    if access == "stream":
                        return res
            try:
                await req.close()
            except BaseException:  # noqa
                pass
            return res

        return asyncio.run(asyncio.wait_for(main(), 10))

    for method in ("GET", "HEAD", "POST", "PUT", "DELETE", "OPTIONS", "PATCH"):
        for access, want in (("body", whole), ("stream", whole), ("json", _json.dumps(_json.loads(whole), sort_keys=True))):
            for disc in (None, 0, 1, 2, 3):
                n += 1
                label = "asgi_method %s %s %s" % (method, access, "complete" if disc is None else "disconnect-after-%d" % disc)
                try:
                    res = asgi(method, b"application/json", pieces, disc, access)
                except BaseException as exc:  # noqa
                    res = [("raise", "harness: " + exc_name(exc))]
                expect = ("ok", want) if disc is None else ("raise", "ClientDisconnect")
                bad = [r for r in res if r != expect]
                if bad:
                    out.append({"line": label, "out": repr(res)[:200],
                                "why": "%s request, %s: expected %s on every access, got %s" % (
                                    method, access, expect[1] if disc is not None else "the bytes the client sent", repr(bad[0])[:120])})
        # WSGI: the method does not decide whether the body is read either
        n += 1
        inp = ScriptedInput(list(pieces))
        environ = {"REQUEST_METHOD": method, "CONTENT_TYPE": "application/json", "wsgi.input": inp,
                   "CONTENT_LENGTH": str(len(whole)), "PATH_INFO": "/", "QUERY_STRING": "", "SERVER_NAME": "t",
                   "SERVER_PORT": "80", "wsgi.url_scheme": "http"}
        try:
            got = wsgi_requests.Request(environ).body
        except BaseException as exc:  # noqa
            got = exc_name(exc)
        if got != whole:
            out.append({"line": "wsgi_method %s body" % method, "out": repr(got)[:200],
                        "why": "%s request on WSGI: body is %r, the client sent %r" % (method, got, whole)})
    for method in ("POST", "PUT"):
        for disc in (None, 0, 1, 2, 3):      # 3: every byte of the form has arrived, the terminating message has not
            n += 1
            label = "asgi_multipart %s %s" % (method, "complete" if disc is None else "disconnect-after-%d" % disc)
            try:
                res = asgi(method, b"multipart/form-data; boundary=bd", mp_pieces, disc, "form")
            except BaseException as exc:  # noqa
                res = [("raise", "harness: " + exc_name(exc))]
            if disc is None:
                ok = res and res[0] == ("ok", [("f", "value"), ("u", b"x" * 300)])
            else:
                ok = res and res[0] == ("raise", "ClientDisconnect")
            if not ok:
                out.append({"line": label, "out": repr(res)[:200],
                            "why": "multipart form read from the stream, %s: got %s" % (
                                "complete upload" if disc is None else
                                "client disconnected after %d of 3 chunks, before the final message (ClientDisconnect expected)" % disc, repr(res[:1])[:160])})
    # a multipart form that the parser rejects in mid-stream (a part without Content-Disposition; too many parts): the
    # stream has been consumed by that attempt - a later body / stream access raises the documented
    # RuntimeError("Stream consumed"), it does not hand out whatever happened to be left unread
    bad_forms = {"no-disposition": b"--bd\r\nX-Other: 1\r\n\r\nvalue\r\n--bd\r\nContent-Disposition: form-data; name=\"a\"\r\n\r\n1\r\n--bd--\r\n" + b"tail" * 50,
                 "too-many-parts": b"".join(b"--bd\r\nContent-Disposition: form-data; name=\"f\"\r\n\r\nv\r\n" for _ in range(400)) + b"--bd--\r\n"}
    for label, data in bad_forms.items():
        for second in ("body", "stream"):
            n += 1
            cut = len(data) // 3
            inp = ScriptedInput([data[:cut], data[cut:2 * cut], data[2 * cut:]])
            environ = {"REQUEST_METHOD": "POST", "CONTENT_TYPE": "multipart/form-data; boundary=bd", "wsgi.input": inp,
                       "CONTENT_LENGTH": str(len(data)), "PATH_INFO": "/", "QUERY_STRING": "", "SERVER_NAME": "t",
                       "SERVER_PORT": "80", "wsgi.url_scheme": "http"}
            req = wsgi_requests.Request(environ)
            try:
                req.form
                first = "ok"
            except Exception as exc:  # noqa
                from baize.exceptions import HTTPException as _HE
                first = "HTTPException" if isinstance(exc, _HE) else exc_name(exc)
            try:
                got = req.body if second == "body" else b"".join(req.stream())
                res = "returned %d bytes" % len(got)
            except Exception as exc:  # noqa
                res = exc_name(exc)
            if first != "HTTPException" or res != "RuntimeError":
                out.append({"line": "wsgi_rejected_multipart %s then %s" % (label, second), "out": "%s / %s" % (first, res),
                            "why": "multipart form rejected in mid-stream (%s: form -> %s), then %s: %s (RuntimeError 'Stream "
                                   "consumed' expected)" % (label, first, second, res)})
    return out, n


def extra(rng, tier):
    thorough = tier == "thorough"
    scen = []
    single = ["b", "j", "s1", "s9", "f"]
    for t in itertools.combinations_with_replacement(single, 2):
        for script in (["m49/e50", "m49/d", "e49", "m49"] if thorough else ["m49/e50", "m49/d"]):
            scheds = list(gate_schedules(2, len(script.split("/"))))
            if not thorough:
                scheds = rng.sample(scheds, 8)
            for ev in scheds:
                scen.append(("j", script, ";".join(t), ev))
    for _ in range(6000 if thorough else 400):
        ct = rng.choice("jjuo")
        n = rng.choice([2, 3, 3])
        tasks = ";".join("/".join(rand_op(rng, False) for _ in range(rng.randrange(1, 4))) for _ in range(n))
        script = rand_script(rng, ct)
        ev = ["S%d" % i for i in range(n)] + ["D"] * (len(parse_script(script)) + 1)
        rng.shuffle(ev)
        scen.append((ct, script, tasks, ev))
    lines, reals = [], []
    for ct, script, tasks, ev in scen:
        # trailing deliveries: whatever is still pending gets its messages, so the run ends quiescent
        ev = ev + ["D"] * (len(parse_script(script)) + 1)
        text, steps = run_gated(ct, parse_script(script), parse_tasks(tasks), ev)
        lines.append("c10a %s %s %s %s" % (ct, script, tasks, steps or "B"))
        reals.append((text, ev))
    model = _driver(lines)
    violations = []
    mismatches = 0
    for idx, (line, (text, ev)) in enumerate(zip(lines, reals)):
        why = oracle(line, text + " ready=-")
        if why:
            violations.append({"line": line, "out": text, "why": "stock event loop, gate schedule %s: %s" % (",".join(ev), why)})
            continue
        if model is not None:
            m = model[idx].split(" ready=")[0]
            if m != text:
                mismatches += 1
                violations.append({"line": line, "out": text,
                                   "why": "stock event loop, gate schedule %s: the observed execution is not a run of the "
                                          "model (model under the recorded task-step sequence: %s)" % (",".join(ev), m)})
    more, nmore = _methods_and_multipart()
    violations = more + violations
    return {"violations": violations[:20], "gated_runs_on_stock_loop": len(scen), "trace_validation_mismatches": mismatches,
            "method_and_multipart_scenarios": nmore,
            "trace_validation": "skipped (driver missing)" if model is None else "done"}
