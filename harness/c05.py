"""C05 — every response obeys the server-gateway protocol.

One op line = one response class with its constructor arguments, one request, one fault:

    gw_wsgi|gw_asgi <fault> <status> <headers> <cookies> <kind> <kind arguments…>

    fault    n (none) | d<k> client disconnect | p<k> the body producer raises at item k (file: the file has
             gone since the response was constructed and cannot be opened)
             | s<k> call number k of send / start_response raises
    headers  N | L:k:v:k:v…                      the `headers=` dict (code points)
    cookies  N | name:value:domain:path:maxage:httponly:secure:samesite;…      (set_cookie calls)
    kind     empty | small <plain|html|json> <media|x> <charset|x> <s:cps|b:bytes|j:cps>
             | redirect <url> | stream <content type|x> <c:bytes/…|_> | sse <charset|x> <events|_>
             | file <method> <range|x> <if-range|x> <chunk> <size> <ct|x> <guessed|x> <download|x> <basename>
                    <last-modified> <etag> <zerocopy>

Output: `ctor <Exception>` (the constructor raised), `hang`, or the trace, events joined by blanks (`-` = none):

    WSGI  S:<status text>:<header pairs>   Y:<bytes>            X:<Exception>   T:<type anomaly>
    ASGI  S:<status int>:<header pairs>    B<more>:<bytes>  Z<more>:<offset|x>:<count|x>  X:…  T:…

Header pairs are `name=value` (code points / byte values, as emitted — no case folding), sorted, joined by `&`.
The recording doubles are strict: they note the Python type of everything they are handed (`T:` events).
"""
import asyncio
import atexit
import email.utils
import json
import mimetypes
import os
import zlib
import re
import shutil
import tempfile
import wsgiref.util

import baize.asgi.responses as asgi_responses
import baize.wsgi.responses as wsgi_responses
from baize.responses import FileResponseMixin

from .common import OpTimeout, corpus_lines, dec_bytes, dec_text, enc, with_alarm

PROPERTY = "C05"
LEAN_MODULES = ["BaizeVerif.Props.C05"]
MODEL_MODULES = ["BaizeVerif.Model.Gateway"]
DRIVER_OPS = {"gw_wsgi": "Gateway.runWsgi", "gw_asgi": "Gateway.runAsgi"}
GEN_MODULES = ["c05", "c02", "c03", "c13", "c16", "c19"]
THEOREMS = [
    "Baize.Gateway.source_pinned",
    "Baize.Gateway.status_line_ok",
    "Baize.Gateway.required_headers_not_hop_by_hop",
    "Baize.Gateway.disposition_value_ok",
    "Baize.Gateway.wsgi_headers_ok",
    "Baize.Gateway.asgi_headers_ok",
    "Baize.Gateway.wsgi_legal",
    "Baize.Gateway.asgi_legal",
    "Baize.Gateway.wsgi_fault_prefix_legal",
    "Baize.Gateway.asgi_fault_prefix_legal",
    "Baize.Gateway.asgi_disconnect_completes",
    "Baize.Gateway.range_error_names_lower",
    "Baize.Gateway.wf_status_needed_witness",
    "Baize.Gateway.wf_headers_needed_witness",
    "Baize.Gateway.wf_cookie_needed_witness",
]
MANIFEST = {
    "technique": "Lean 4 proof (legality of every emitter's trace and of every fault prefix) + differential "
                 "correspondence of the Lean emitters with the real response classes under strict recording doubles",
    "text": "Lean theorems over executable emitters transcribing every response class of both interfaces (header "
            "mapping + cookie lines + Latin-1 encoding, SmallResponse's length/type rules, Response.__call__, "
            "the streaming loop with its finally, the SSE relay for a finite producer, FileResponse through "
            "the C02 model incl. the range-error path): every fault-free trace is a legal ASGI / WSGI "
            "conversation and every trace under a fault (disconnect, producer raises, send/start_response raises, "
            "at every index) is a prefix of one.  The status-line formats and the HTTPStatus table, the header "
            "codecs, the message types, SendEventResponse.required_headers, the range-error path and the "
            "Content-Disposition template are regenerated from /repo on every run; the emitters are run against "
            "the real classes with faults injected at every event index; an independent oracle judges legality "
            "and prefix-legality of the real traces, Python types included.",
    "note": "Trusted: Lean kernel (propext, Classical.choice, Quot.sound only), tools/gen/c05.py, the harness "
            "doubles; asyncio scheduling as exercised (the send double always suspends); codecs utf-8/latin-1/"
            "ascii; json.dumps / mimetypes.guess_type / formatdate / SHA-1 are opaque inputs.  Caller-supplied "
            "header text (constructor headers, cookie domain/path, media type, charset) is passed through "
            "unchecked by baize: the theorems carry it as an explicit well-formedness hypothesis.",
    "design": "C05",
}
CORRESPONDENCE = ("Baize.Gateway.wsgiRun / asgiRun  vs  the real baize.wsgi.responses / baize.asgi.responses classes "
                  "called with recording start_response / send doubles (every event, every fault index)")
RULE = ("corpus of past failures; for every generated recipe (response class x status incl. unknown codes x 0-3 "
        "headers in mixed case x 0-3 cookies x content / chunks / events / file + Range + names) the fault-free "
        "run and EVERY fault point: disconnect before event k, producer raises at item k, send / start_response "
        "raises at call k, for all k up to the trace length; a fixed systematic grid per class plus random recipes. "
        "non-trivial = a fault run, or a fault-free run with cookies, extra headers, several chunks or a Range; "
        "distinct = distinct op line")
TRUSTED = [
    "the recording doubles (start_response / send / receive) of harness/c05.py; the ASGI send double always "
    "suspends three times, so the disconnect watcher gets to run at every send",
    "Python codecs utf-8, latin-1, ascii agree with Baize.Gateway.encodeWith (checked on every generated content)",
    "json.dumps(json.loads(t)) == t for the canonical compact texts the generator produces",
    "mimetypes.guess_type, email.utils.formatdate and the SHA-1 ETag are opaque texts taken from the real calls",
    "http.HTTPStatus of the running interpreter (table regenerated on every run)",
    "baize.asgi.responses.run_in_threadpool inlined and random_choices made deterministic (as in C02)",
]
ASSUMPTIONS = [
    "caller-supplied header text is legal: constructor header names/values, media type, charset, content type, "
    "stat-derived texts are Latin-1 without CR/LF/NUL; on WSGI no hop-by-hop name; cookie names/values are "
    "Latin-1 and cookie domain/path/samesite printable ASCII (baize passes all of these through unchecked; "
    "witness theorems and the `observations` of the evidence show what happens otherwise)",
    "status codes 100..999 (the statement's range); 99 or 1000 give a status line that is not NNN",
    "chunk_size >= 1; the WSGI SSE relay is not closed mid-stream here (its shutdown protocol is C06)",
    "str chunks yielded by a user's stream, bytes cookies and non-str header values are caller errors",
]
PARTIAL = None

MTIME = 1700000000
MAX_EVENTS = 5000


class Boom(Exception):
    """what an injected producer fault raises"""


# ---- patches shared with C02 (deterministic boundary, inline thread hop) -----------------------------


def fixed_choices(population, k=1, **kw):
    return [population[(7 * i + 3) % len(population)] for i in range(k)]


async def inline_threadpool(fn, *a, **kw):
    return fn(*a, **kw)


wsgi_responses.random_choices = fixed_choices
asgi_responses.random_choices = fixed_choices
asgi_responses.run_in_threadpool = inline_threadpool

_LOOP = None


def loop():
    global _LOOP
    if _LOOP is None or _LOOP.is_closed():
        _LOOP = asyncio.new_event_loop()
    return _LOOP


# ---- fixtures ----------------------------------------------------------------------------------------

_DIR = None
_FILES = {}


def content(size):
    return bytes(128 + (89 * i + i // 128) % 128 for i in range(size))


def _cleanup():
    if _DIR and os.path.isdir(_DIR):
        shutil.rmtree(_DIR, ignore_errors=True)


def file_of(size, basename):
    global _DIR
    key = (size, basename)
    if key not in _FILES:
        if _DIR is None:
            _DIR = tempfile.mkdtemp(prefix="verif-c05-")
            atexit.register(_cleanup)
        d = os.path.join(_DIR, "s%d" % size)
        os.makedirs(d, exist_ok=True)
        path = os.path.join(d, basename)
        with open(path, "wb") as f:
            f.write(content(size))
        os.utime(path, (MTIME, MTIME))
        _FILES[key] = (path, os.stat(path))
    return _FILES[key]


def stat_texts(size, basename):
    _, st = file_of(size, basename)
    return email.utils.formatdate(st.st_mtime, usegmt=True), FileResponseMixin.generate_etag(st)


# ---- op lines ------------------------------------------------------------------------------------------


def _opt(text):
    return "x" if text is None else enc(text)


def mk(iface, fault, rec):
    """recipe dict -> op line"""
    hdrs = rec.get("headers") or []
    htok = "L:" + ":".join("%s:%s" % (enc(k), enc(v)) for k, v in hdrs) if hdrs else "N"
    cks = rec.get("cookies") or []
    ctok = ";".join("%s:%s:%s:%s:%d:%d:%d:%s" % (
        enc(c["name"]), enc(c.get("value", "")), enc(c.get("domain") or ""), enc(c.get("path", "/") or ""),
        c.get("max_age", -1), 1 if c.get("httponly") else 0, 1 if c.get("secure") else 0,
        enc(c.get("samesite", "lax"))) for c in cks) if cks else "N"
    kind = rec["kind"]
    if kind == "empty":
        tail = "empty"
    elif kind == "small":
        c = rec["content"]
        if rec["cls"] == "json":
            ctext = "j:" + enc(c)
        elif isinstance(c, bytes):
            ctext = "b:" + enc(c)
        else:
            ctext = "s:" + enc(c)
        tail = "small %s %s %s %s" % (rec["cls"], _opt(rec.get("media_type")), _opt(rec.get("charset")), ctext)
    elif kind == "redirect":
        tail = "redirect " + enc(rec["url"])
    elif kind == "stream":
        items = "/".join("c:" + enc(c) for c in rec["chunks"]) or "_"
        tail = "stream %s %s" % (_opt(rec.get("content_type")), items)
    elif kind == "sse":
        evs = []
        for ev in rec["events"]:
            toks = []
            for k, v in ev:
                toks.append({"event": "e:", "id": "i:", "data": "d:", "retry": "r:"}[k] + (str(v) if k == "retry" else enc(v)))
            evs.append(";".join(toks) if toks else "-")
        tail = "sse %s %s" % (_opt(rec.get("charset")), "/".join(evs) or "_")
    elif kind == "file":
        base = rec.get("basename", "data.bin")
        lm, etag = stat_texts(rec["size"], base)
        ifr = rec.get("if_range")
        ifr = {"@etag": '"%s"' % etag, "@date": lm}.get(ifr, ifr)
        guessed = mimetypes.guess_type(rec.get("download_name") or base)[0]
        tail = "file %s %s %s %d %d %s %s %s %s %s %s %d" % (
            rec.get("method", "GET"), _opt(rec.get("range")), _opt(ifr), rec.get("chunk", 4), rec["size"],
            _opt(rec.get("content_type")), _opt(guessed), _opt(rec.get("download_name")), enc(base), enc(lm),
            enc(etag), 1 if rec.get("zerocopy") else 0)
    else:
        raise ValueError(kind)
    return "gw_%s %s %d %s %s %s" % (iface, fault, rec.get("status", 200), htok, ctok, tail)


def expand(short):
    """corpus short form: `<wsgi|asgi> <fault> <recipe as JSON>`"""
    iface, fault, js = short.split(" ", 2)
    return mk(iface, fault, json.loads(js))


def _pairs(tok):
    if tok == "N":
        return []
    f = tok.split(":")[1:]
    return [(dec_text(f[i]), dec_text(f[i + 1])) for i in range(0, len(f) - 1, 2)]


def _cookies(tok):
    if tok == "N":
        return []
    out = []
    for c in tok.split(";"):
        n, v, d, p, ma, ho, se, ss = c.split(":")
        out.append({"name": dec_text(n), "value": dec_text(v), "domain": dec_text(d), "path": dec_text(p),
                    "max_age": int(ma), "httponly": ho == "1", "secure": se == "1", "samesite": dec_text(ss)})
    return out


def _optd(tok):
    return None if tok == "x" else dec_text(tok)


def parse_line(line):
    a = line.split(" ")
    rec = {"iface": a[0][3:], "fault": a[1], "status": int(a[2]), "headers": _pairs(a[3]), "cookies": _cookies(a[4]),
           "kind": a[5]}
    k = a[6:]
    if rec["kind"] == "small":
        tag, val = k[3].split(":")
        rec.update(cls=k[0], media_type=_optd(k[1]), charset=_optd(k[2]),
                   content=dec_bytes(val) if tag == "b" else dec_text(val))
    elif rec["kind"] == "redirect":
        rec.update(url=dec_text(k[0]))
    elif rec["kind"] == "stream":
        rec.update(content_type=_optd(k[0]),
                   chunks=[] if k[1] == "_" else [dec_bytes(t.split(":")[1]) for t in k[1].split("/")])
    elif rec["kind"] == "sse":
        evs = []
        if k[1] != "_":
            for t in k[1].split("/"):
                ev = []
                if t != "-":
                    for f in t.split(";"):
                        tag, val = f.split(":")
                        name = {"e": "event", "i": "id", "d": "data", "r": "retry"}[tag]
                        ev.append((name, int(val) if tag == "r" else dec_text(val)))
                evs.append(ev)
        rec.update(charset=_optd(k[0]), events=evs)
    elif rec["kind"] == "file":
        rec.update(method=k[0], range=_optd(k[1]), if_range=_optd(k[2]), chunk=int(k[3]), size=int(k[4]),
                   content_type=_optd(k[5]), guessed=_optd(k[6]), download_name=_optd(k[7]), basename=dec_text(k[8]),
                   lm=dec_text(k[9]), etag=dec_text(k[10]), zerocopy=k[11] == "1")
    return rec


def describe(line):
    d = parse_line(line)
    for key in ("lm", "etag"):
        d.pop(key, None)
    return {k: (repr(v) if isinstance(v, bytes) else v) for k, v in d.items()}


def fault_of(rec):
    f = rec["fault"]
    return (f[0], int(f[1:])) if f != "n" else ("n", 0)


# ---- building the real response ------------------------------------------------------------------------


class _Ctor(Exception):
    """the constructor of the response raised"""


def build(rec, mod, producer_fault):
    """the real response object (constructor exceptions become the outcome `ctor`)"""
    try:
        return _build(rec, mod, producer_fault)
    except OpTimeout:
        raise
    except Exception as exc:  # noqa
        raise _Ctor(type(exc).__name__)


def _build(rec, mod, producer_fault):
    """`producer_fault` = index at which the producer raises, or None"""
    state = {"started": False, "finished": False}
    kw = {}
    if rec["headers"]:
        kw["headers"] = dict(rec["headers"])
    kind = rec["kind"]
    asgi = mod is asgi_responses
    if kind == "empty":
        resp = mod.Response(rec["status"], **kw)
    elif kind == "small":
        cls = {"plain": mod.PlainTextResponse, "html": mod.HTMLResponse, "json": mod.JSONResponse}[rec["cls"]]
        if rec["cls"] == "json":
            resp = cls(json.loads(rec["content"]), rec["status"], **kw)
        else:
            if rec["media_type"] is not None:
                kw["media_type"] = rec["media_type"]
            if rec["charset"] is not None:
                kw["charset"] = rec["charset"]
            resp = cls(rec["content"], rec["status"], **kw)
    elif kind == "redirect":
        target = rec["url"]
        if len(target) % 2 == 0:
            # every other target is handed over as a URL object (what Pages does for its directory redirect): the
            # Location line is the same as for the text, when the object spells the same text
            try:
                from baize.datastructures import URL
                obj = URL(target)
                if str(obj) == target:
                    target = obj
            except Exception:  # noqa
                pass
        resp = mod.RedirectResponse(target, rec["status"], **kw)
    elif kind in ("stream", "sse"):
        if kind == "stream":
            items = list(rec["chunks"])
        else:
            items = [dict(ev) for ev in rec["events"]]

        def gen():
            state["started"] = True
            try:
                for idx, item in enumerate(items):
                    if idx == producer_fault:
                        raise Boom()
                    yield item
                if producer_fault == len(items):
                    raise Boom()
            finally:
                state["finished"] = True

        async def agen():
            state["started"] = True
            try:
                for idx, item in enumerate(items):
                    if idx == producer_fault:
                        raise Boom()
                    yield item
                if producer_fault == len(items):
                    raise Boom()
            finally:
                state["finished"] = True

        it = agen() if asgi else gen()
        if kind == "stream":
            if rec["content_type"] is not None:
                kw["content_type"] = rec["content_type"]
            resp = mod.StreamResponse(it, rec["status"], **kw)
        else:
            if rec["charset"] is not None:
                kw["charset"] = rec["charset"]
            resp = mod.SendEventResponse(it, rec["status"], ping_interval=30, **kw)
    elif kind == "file":
        path, st = file_of(rec["size"], rec["basename"])
        if rec["content_type"] is not None:
            kw["content_type"] = rec["content_type"]
        if rec["download_name"] is not None:
            kw["download_name"] = rec["download_name"]
        resp = mod.FileResponse(path, stat_result=st, chunk_size=rec["chunk"], **kw)
        if producer_fault is not None:
            # the "producer" of a file answer is the file: it has gone since the response was constructed
            resp.filepath = path + ".gone"
    else:
        raise ValueError(kind)
    for c in rec["cookies"]:
        resp.set_cookie(c["name"], c["value"], max_age=c["max_age"], path=c["path"], domain=c["domain"] or None,
                        secure=c["secure"], httponly=c["httponly"], samesite=c["samesite"])
    _STATE[id(resp)] = state
    return resp


_STATE = {}


def leaks(resp, pending=0):
    """resources the call left behind (not part of the statement of C05 - releasing the producer is C06 - but the
    model's `finally` blocks release everything, so the model never prints these events)"""
    state = _STATE.pop(id(resp), None)
    out = []
    if state and state["started"] and not state["finished"]:
        out.append("L:producer-not-closed")
    if pending:
        out.append("L:pending-tasks-%d" % pending)
    return out


# ---- strict recording doubles ---------------------------------------------------------------------------


def _cps(x):
    if isinstance(x, (bytes, bytearray)):
        return enc(bytes(x))
    if isinstance(x, str):
        return enc(x)
    return enc(repr(x))


def _pairs_text(pairs):
    out = []
    for p in pairs:
        try:
            k, v = p
        except Exception:  # noqa
            out.append(_cps(repr(p)) + "=" + "-")
            continue
        out.append(_cps(k) + "=" + _cps(v))
    return "&".join(sorted(out)) if out else "-"


def run_wsgi(rec, resp=None):
    kind, k = fault_of(rec)
    if resp is None:
        resp = build(rec, wsgi_responses, k if kind == "p" else None)
    environ = {"REQUEST_METHOD": "GET", "wsgi.url_scheme": "http", "SERVER_NAME": "testserver", "SERVER_PORT": "80",
               "PATH_INFO": "/", "SCRIPT_NAME": "", "QUERY_STRING": ""}
    # the protocol version the server announces (it is the server's business; a response must be legal under each)
    proto = (None, "HTTP/1.1", "HTTP/1.0", "HTTP/2")[rec.get("_variant", 0) % 4]
    if proto:
        environ["SERVER_PROTOCOL"] = proto
    if rec["kind"] == "file":
        environ["REQUEST_METHOD"] = rec["method"]
        if rec["range"] is not None:
            environ["HTTP_RANGE"] = rec["range"]
        if rec["if_range"] is not None:
            environ["HTTP_IF_RANGE"] = rec["if_range"]
    events = []
    calls = [0]

    def start_response(status, headers, exc_info=None):
        n = calls[0]
        calls[0] += 1
        if kind == "s" and n == k:
            raise OSError("start_response failed")
        events.append("S:%s:%s" % (_cps(status), _pairs_text(headers if isinstance(headers, (list, tuple)) else [])))
        if type(status) is not str:
            events.append("T:status-is-%s" % type(status).__name__)
        if type(headers) is not list:
            events.append("T:headers-is-%s" % type(headers).__name__)
        else:
            for p in headers:
                if type(p) is not tuple or len(p) != 2:
                    events.append("T:header-item-is-%s" % type(p).__name__)
                elif type(p[0]) is not str or type(p[1]) is not str:
                    events.append("T:header-pair-is-%s-%s" % (type(p[0]).__name__, type(p[1]).__name__))
        if exc_info is not None:
            events.append("T:exc_info-given")

        def write(data):
            events.append("T:write-called")

        return write

    limit = k if kind == "d" else None
    result = None
    try:
        result = resp(environ, start_response)
        if limit is None or limit > 0:
            it = iter(result)
            taken = 0
            while limit is None or taken < limit:
                try:
                    item = next(it)
                except StopIteration:
                    break
                taken += 1
                if type(item) is bytes:
                    events.append("Y:" + enc(item))
                else:
                    events.append("Y:" + _cps(item))
                    events.append("T:yield-is-%s" % type(item).__name__)
                if len(events) > MAX_EVENTS:
                    raise OpTimeout()
    except OpTimeout:
        raise
    except Exception as exc:  # noqa
        events.append("X:" + type(exc).__name__)
    finally:
        # what a server does when it is done with (or gives up on) the iterable
        close = getattr(result, "close", None)
        if close is not None:
            try:
                close()
            except Exception as exc:  # noqa
                events.append("X:close-" + type(exc).__name__)
    events.extend(leaks(resp))
    return " ".join(events) if events else "-"


def run_asgi(rec, resp=None):
    kind, k = fault_of(rec)
    if resp is None:
        resp = build(rec, asgi_responses, k if kind == "p" else None)
    headers = []
    method = "GET"
    if rec["kind"] == "file":
        method = rec["method"]
        if rec["range"] is not None:
            headers.append((b"range", rec["range"].encode("latin-1")))
        if rec["if_range"] is not None:
            headers.append((b"if-range", rec["if_range"].encode("latin-1")))
    scope = {"type": "http", "method": method, "headers": headers, "path": "/", "root_path": "", "query_string": b"",
             "scheme": "http", "server": ("testserver", 80)}
    if rec["kind"] == "file" and rec["zerocopy"]:
        scope["extensions"] = {"http.response.zerocopysend": {}}
    events = []
    calls = [0]
    lp = loop()
    gone = asyncio.Event()
    if kind == "d" and k == 0:
        gone.set()

    async def send(message):
        n = calls[0]
        calls[0] += 1
        if len(events) > MAX_EVENTS:
            raise OpTimeout()
        if kind == "s" and n == k:
            raise OSError("send failed")
        if type(message) is not dict:
            events.append("T:message-is-%s" % type(message).__name__)
            return
        t = message.get("type")
        if t == "http.response.start":
            status = message.get("status")
            hs = message.get("headers", [])
            events.append("S:%s:%s" % (status if type(status) is int else _cps(status), _pairs_text(list(hs))))
            if type(status) is not int:
                events.append("T:status-is-%s" % type(status).__name__)
            for p in hs:
                if not (isinstance(p, (tuple, list)) and len(p) == 2):
                    events.append("T:header-item-is-%s" % type(p).__name__)
                elif type(p[0]) is not bytes or type(p[1]) is not bytes:
                    events.append("T:header-pair-is-%s-%s" % (type(p[0]).__name__, type(p[1]).__name__))
            extra_keys = sorted(set(message) - {"type", "status", "headers", "trailers"})
            if extra_keys:
                events.append("T:start-keys-%s" % ",".join(extra_keys))
        elif t == "http.response.body":
            body = message.get("body", b"")
            more = message.get("more_body", False)
            events.append("B%d:%s" % (1 if more else 0, _cps(body)))
            if type(body) is not bytes:
                events.append("T:body-is-%s" % type(body).__name__)
            if type(more) is not bool:
                events.append("T:more_body-is-%s" % type(more).__name__)
            extra_keys = sorted(set(message) - {"type", "body", "more_body"})
            if extra_keys:
                events.append("T:body-keys-%s" % ",".join(extra_keys))
        elif t == "http.response.zerocopysend":
            more = message.get("more_body", False)
            events.append("Z%d:%s:%s" % (1 if more else 0, message.get("offset", "x"), message.get("count", "x")))
            if type(message.get("file")) is not int:
                events.append("T:file-is-%s" % type(message.get("file")).__name__)
            if type(more) is not bool:
                events.append("T:more_body-is-%s" % type(more).__name__)
        else:
            events.append("T:message-type-%s" % _cps(str(t)))
        if kind == "d" and calls[0] >= k:
            gone.set()
        # a real server suspends here; the disconnect watcher gets to run
        for _ in range(3):
            await asyncio.sleep(0)

    async def receive():
        await gone.wait()
        return {"type": "http.disconnect"}

    async def main():
        try:
            await resp(scope, receive, send)
        except OpTimeout:
            raise
        except Exception as exc:  # noqa
            events.append("X:" + type(exc).__name__)
        # let cancelled helper tasks finish
        for _ in range(3):
            await asyncio.sleep(0)
        left = [t for t in asyncio.all_tasks() if t is not asyncio.current_task()]
        for t in left:
            t.cancel()
            try:
                await t
            except BaseException:  # noqa
                pass
        return len(left)

    pending = lp.run_until_complete(main())
    events.extend(leaks(resp, pending))
    return " ".join(events) if events else "-"


_MEMO = {}


def impl(line):
    global _LOOP
    if line in _MEMO:
        return _MEMO[line]
    rec = parse_line(line)
    if rec["kind"] == "file" and rec["chunk"] == 0:
        return "unsupported chunk_size 0"
    rec["_variant"] = zlib.crc32(line.encode("utf-8", "surrogatepass"))    # presentation of the request, per line
    try:
        out = with_alarm(20, run_wsgi if rec["iface"] == "wsgi" else run_asgi, rec)
    except OpTimeout:
        out = "hang"
        _LOOP = None
    except _Ctor as exc:
        out = "ctor " + exc.args[0]
    if len(_MEMO) > 200000:
        _MEMO.clear()
    _MEMO[line] = out
    return out


# ---- oracle: gateway legality stated directly on the recorded trace -------------------------------------

KNOWN_CHARSETS = {"utf-8", "utf8", "latin-1", "latin1", "iso-8859-1", "ascii", "us-ascii"}


def _latin_clean(s):
    return all(ord(c) < 256 and c not in "\r\n\0" for c in s)


def _ascii_printable(s):
    return all(32 <= ord(c) < 127 for c in s)


def _no_surrogate(s):
    return not any(0xD800 <= ord(c) < 0xE000 for c in s)


def well_formed(rec):
    """None if the caller's arguments are inside the statement, else why not"""
    if rec["kind"] != "file" and not (100 <= rec["status"] <= 999):
        return "status outside 100..999"
    for k, v in rec["headers"]:
        if not (_latin_clean(k) and _latin_clean(v)):
            return "constructor header not Latin-1 / with control characters"
        if rec["iface"] == "wsgi" and wsgiref.util.is_hop_by_hop(k):
            return "constructor header is hop-by-hop"
    for c in rec["cookies"]:
        if not all(ord(ch) < 256 for ch in c["name"] + c["value"]):
            return "cookie name/value not Latin-1"
        if not (_ascii_printable(c["domain"]) and _ascii_printable(c["path"]) and _ascii_printable(c["samesite"])):
            return "cookie attribute not printable ASCII"
    kind = rec["kind"]
    if kind == "small":
        if rec["cls"] != "json":
            for t in (rec["media_type"], rec["charset"]):
                if t is not None and not _latin_clean(t):
                    return "media type / charset not clean"
            cs = rec["charset"] or "utf-8"
            if cs.lower() not in KNOWN_CHARSETS:
                return "unknown charset"
            if isinstance(rec["content"], str):
                try:
                    rec["content"].encode(cs)
                except UnicodeEncodeError:
                    return "content not encodable"
        elif not _no_surrogate(rec["content"]):
            return "content not encodable"
    elif kind == "redirect":
        if not _no_surrogate(rec["url"]):
            return "url not encodable"
    elif kind == "stream":
        if rec["content_type"] is not None and not _latin_clean(rec["content_type"]):
            return "content type not clean"
    elif kind == "sse":
        cs = rec["charset"] or "utf-8"
        if not _latin_clean(cs) or cs.lower() not in KNOWN_CHARSETS:
            return "unknown charset"
        for ev in rec["events"]:
            for _, v in ev:
                try:
                    str(v).encode(cs)
                except UnicodeEncodeError:
                    return "event not encodable"
    elif kind == "file":
        for t in (rec["content_type"], rec["guessed"]):
            if t is not None and not _latin_clean(t):
                return "content type not clean"
        if not (_no_surrogate(rec["basename"]) and _no_surrogate(rec["download_name"] or "")):
            return "file name not encodable"
    return None


STATUS_RE = re.compile(r"[0-9]{3} [^\x00-\x1f\x7f]+\Z")


def _split_pairs(tok):
    if tok == "-":
        return []
    out = []
    for item in tok.split("&"):
        k, v = item.split("=")
        out.append(([] if k == "-" else [int(x) for x in k.split(",")], [] if v == "-" else [int(x) for x in v.split(",")]))
    return out


def check_wsgi_start(tok, rec, strict):
    _, status, hdrs = tok.split(":")
    text = dec_text(status)
    if rec["kind"] == "file" or 100 <= rec["status"] <= 999:      # the statement speaks of the codes 100..999
        if not STATUS_RE.match(text):
            return "status line %r is not 'NNN reason'" % text
        if rec["kind"] != "file" and int(text[:3]) != rec["status"]:
            return "status line %r does not carry the code %d" % (text, rec["status"])
    if not strict:
        return None
    for k, v in _split_pairs(hdrs):
        name = "".join(map(chr, k))
        if any(c >= 256 for c in k + v):
            return "header %r has a code point >= 256 (not a Latin-1 native string)" % name
        if any(c in (13, 10, 0) for c in k + v):
            return "header %r contains CR, LF or NUL" % name
        if wsgiref.util.is_hop_by_hop(name):
            return "hop-by-hop header %r" % name
    return None


def check_asgi_start(tok, rec, strict):
    _, status, hdrs = tok.split(":")
    if not status.isdigit():
        return "status %r is not a natural number" % status
    if rec["kind"] != "file" and int(status) != rec["status"]:
        return "status %s is not the requested %d" % (status, rec["status"])
    for k, v in _split_pairs(hdrs):
        if any(65 <= c <= 90 for c in k):
            return "header name %r is not lower-case" % bytes(k)
    return None


def oracle(line, out):
    rec = parse_line(line)
    fkind, _ = fault_of(rec)
    wf = well_formed(rec)
    if out == "hang":
        return "the call does not return"
    if out.startswith("unsupported"):
        return None
    if out.startswith("ctor "):
        # no response object: nothing is emitted.  A constructor may refuse ill-formed arguments only.
        if wf is None:
            return "the constructor raised %s on well-formed arguments" % out[5:]
        return None
    toks = [] if out == "-" else [t for t in out.split(" ") if not t.startswith("L:")]   # leaks: not judged here
    for t in toks:
        if t.startswith("T:"):
            return "type / shape violation: %s" % t[2:]
    raised = [i for i, t in enumerate(toks) if t.startswith("X:")]
    if raised and raised != [len(toks) - 1]:
        return "events recorded after the call raised"
    delivered = [t for t in toks if not t.startswith("X:")]
    asgi = rec["iface"] == "asgi"
    # -- every delivered sequence must be a legal prefix
    if delivered:
        if not delivered[0].startswith("S:"):
            return "first event is %s, not the response start" % delivered[0][:12]
        why = (check_asgi_start if asgi else check_wsgi_start)(delivered[0], rec, wf is None)
        if why:
            return why
        for idx, t in enumerate(delivered[1:], 1):
            if t.startswith("S:"):
                return "second response start (event %d)" % idx
            if asgi:
                if t[0] not in "BZ":
                    return "unexpected event %s" % t[:12]
                if t[0] == "Z" and not (rec["kind"] == "file" and rec["zerocopy"]):
                    return "zero-copy message without the extension"
                more = t[1] == "1"
                if not more and idx != len(delivered) - 1:
                    return "event %d has more_body false but is followed by another event" % idx
            elif not t.startswith("Y:"):
                return "unexpected event %s" % t[:12]
    # -- a complete response is demanded when nothing went wrong on the outside
    must_complete = fkind == "n" and wf is None
    if must_complete:
        if raised:
            return "the call raised %s without any fault" % toks[-1][2:]
        if not delivered:
            return "nothing was emitted"
        if asgi:
            if len(delivered) < 2:
                return "no body event after the start"
            if delivered[-1][1] != "0":
                return "last event has more_body true"
    return None


def classify(line, out):
    rec = parse_line(line)
    fk, _ = fault_of(rec)
    if out.startswith("ctor"):
        o = "ctor"
    elif out == "hang":
        o = "hang"
    elif out == "-":
        o = "nothing"
    elif out.split(" ")[-1].startswith("X:"):
        o = "raised"
    else:
        o = "complete" if (rec["iface"] == "wsgi" or out.split(" ")[-1][1:2] == "0") else "open"
    kind = rec["kind"] + ("/" + rec["cls"] if rec["kind"] == "small" else "")
    return "%s/%s/%s/%s/%s" % (rec["iface"], kind, fk, "wf" if well_formed(rec) is None else "caller-error", o)


def nontrivial(line, out):
    rec = parse_line(line)
    if rec["fault"] != "n":
        return True
    return bool(rec["cookies"] or rec["headers"] or len(rec.get("chunks", [])) > 1 or len(rec.get("events", [])) > 1
                or rec.get("range"))


# ---- generators --------------------------------------------------------------------------------------------

STATUSES = [200, 200, 200, 201, 204, 226, 299, 301, 307, 308, 404, 418, 451, 500, 511, 599, 999, 100, 102, 103, 600]
HEADER_POOL = [("X-Custom", "1"), ("x-trace-id", "abc-123"), ("Cache-Control", "max-age=60"), ("ETag", '"v1"'),
               ("Vary", "Accept"), ("content-type", "application/x-custom"), ("Content-Length", "3"),
               ("X-Mixed-CASE", "Caf\xe9"), ("x-mixed-case", "second"), ("Content-Type", "text/x-upper"),
               ("Location", "/elsewhere"), ("Accept-Ranges", "none"), ("Content-Disposition", "inline"),
               ("Last-Modified", "yesterday"), ("X-Empty", ""), ("Server", "baize"), ("X-\xc0ccent", "v")]
BAD_HEADERS = [("X-Split", "a\r\nSet-Cookie: evil=1"), ("X-Wide", "中文"), ("Connection", "close"),
               ("Transfer-Encoding", "chunked"), ("X-Nul", "a\0b"), ("Keep-Alive", "timeout=5"), ("X\nY", "v")]
COOKIE_NAMES = ["sid", "a", "theme", "k;x", "a b", "n=1", "caf\xe9", '"q"', "x,y", "sid\n", "tok\r"]
COOKIE_VALUES = ["", "1", "abc", "a b", "caf\xe9", 'say "hi"', "a;b", "line\r\nbreak", "back\\slash", "x,y", "\x00",
                 "abc\n", "abc\r", "\n", "tok\n\n"]       # token characters plus trailing line breaks
CHARSETS = [None, None, "utf-8", "UTF-8", "utf8", "latin-1", "ISO-8859-1", "ascii", "us-ascii"]
TEXTS = ["", "hello", "caf\xe9", "中文", "line\nbreak", "emoji \U0001f600", "a" * 40, "\xff\xfe"]
BLOBS = [b"", b"x", b"\x00\xff\x80", b"hello world", bytes(range(20))]
MEDIA = [None, None, "text/csv", "application/xml", "text/x-y; q=1", "image/png"]
URLS = ["/", "/a b", "https://example.org/caf\xe9?x=1&y=2", "/\r\nSet-Cookie: a=b", "/中文", "", "//host/p#frag",
        "/%7Euser/\x00", "/\u76ee\u5f55/\u6587\u4ef6", "/\u76ee\u5f55/\u6587\u4ef6?\u540d=\u503c"]
CHUNK_POOL = [b"", b"a", b"bc", b"\x00\xff", b"hello", b"\r\n", bytes(range(7))]
STREAM_TYPES = [None, None, "text/plain", "application/x-ndjson", "text/event-stream"]
EVENT_POOL = [[("data", "hello")], [("event", "tick"), ("data", "1")], [("id", "7"), ("data", "a\nb")], [("retry", 5)],
              [], [("data", "caf\xe9")], [("data", "中")], [("event", "e"), ("id", "i"), ("retry", 0), ("data", "")],
              [("data", "x\r\ny\rz")]]
RANGES = [None, None, None, "bytes=0-4", "bytes=2-", "bytes=-3", "bytes=0-0,5-6", "bytes=0-1,3-4,6-7", "bytes=20-",
          "bytes=x", "bytes=5-2", "", "items=0-1", "bytes=0-99", "bytes=-0", "bytes=9-9", "bytes"]
BASENAMES = ["data.bin", "report.txt", "noext", "中文.bin", "na\xefve file.bin", 'q"uote.bin',
             "back\\slash.bin", "a;b.dat", "new\nline.bin", "page.html", "tab\tname.bin", "\U0001f600.bin", "x.tar.gz"]
DOWNLOADS = [None, None, None, "README.txt", "中文.txt", 'we"ird\\name.bin', "line\r\nbreak.bin", "tab\tname",
             "\xe9.pdf", "a b.csv", "semi;colon.bin", "100%.txt", "nul\0.bin", "\U0001f600.png"]
FILE_TYPES = [None, None, "text/plain", "application/octet-stream", "application/x-verif; v=1"]


def gen_common(rng, bad=0.04):
    rec = {"status": rng.choice(STATUSES) if rng.random() < 0.8 else rng.randrange(100, 1000)}
    if rng.random() < 0.02:
        rec["status"] = rng.choice([99, 1000, 0, 1234])
    hs = {}
    for _ in range(rng.choice([0, 0, 1, 2, 3])):
        k, v = rng.choice(HEADER_POOL)
        hs[k] = v
    if rng.random() < bad:
        k, v = rng.choice(BAD_HEADERS)
        hs[k] = v
    rec["headers"] = list(hs.items())
    cks = []
    for _ in range(rng.choice([0, 0, 0, 1, 2, 3])):
        cks.append({"name": rng.choice(COOKIE_NAMES), "value": rng.choice(COOKIE_VALUES),
                    "domain": rng.choice(["", "", "example.org", ".a.b"]), "path": rng.choice(["/", "/", "/x/y", ""]),
                    "max_age": rng.choice([-1, -1, 0, 3600]), "httponly": rng.random() < 0.3,
                    "secure": rng.random() < 0.3, "samesite": rng.choice(["lax", "lax", "strict", "none"])})
    if cks and rng.random() < bad:
        c = rng.choice(cks)
        which = rng.randrange(3)
        if which == 0:
            c["value"] = "中文"
        elif which == 1:
            c["path"] = "/caf\xe9"
        else:
            c["domain"] = "e.org\r\nX: y"
    rec["cookies"] = cks
    return rec


def random_json(rng, depth=0):
    r = rng.random()
    if depth > 2 or r < 0.35:
        return rng.choice([None, True, False, 0, -1, 12345678901234567890, 1.5, "", "text", "caf\xe9", "中", 'q"\\'])
    if r < 0.65:
        return [random_json(rng, depth + 1) for _ in range(rng.randrange(0, 4))]
    return {rng.choice(["a", "b", "k\xe9y", "", "x y"]): random_json(rng, depth + 1) for _ in range(rng.randrange(0, 4))}


def gen_recipe(rng, kind=None):
    rec = gen_common(rng)
    kind = kind or rng.choice(["empty", "small", "small", "small", "redirect", "stream", "stream", "sse", "sse", "file",
                               "file", "file"])
    rec["kind"] = kind
    if kind == "small":
        rec["cls"] = rng.choice(["plain", "plain", "html", "json"])
        if rec["cls"] == "json":
            rec["content"] = json.dumps(random_json(rng), ensure_ascii=False, allow_nan=False, indent=None,
                                        separators=(",", ":"), default=None)
        else:
            rec["content"] = rng.choice(TEXTS) if rng.random() < 0.7 else rng.choice(BLOBS)
            rec["charset"] = rng.choice(CHARSETS) if rng.random() < 0.97 else "x-unknown-charset"
            rec["media_type"] = rng.choice(MEDIA) if rng.random() < 0.97 else "text/x\r\nX: y"
    elif kind == "redirect":
        rec["url"] = rng.choice(URLS)
        if rng.random() < 0.5:
            rec["status"] = rng.choice([301, 302, 303, 307, 308])
    elif kind == "stream":
        rec["chunks"] = [rng.choice(CHUNK_POOL) for _ in range(rng.choice([0, 1, 2, 3, 4]))]
        rec["content_type"] = rng.choice(STREAM_TYPES)
    elif kind == "sse":
        rec["events"] = [rng.choice(EVENT_POOL) for _ in range(rng.choice([0, 1, 2, 3]))]
        rec["charset"] = rng.choice([None, None, "utf-8", "UTF-8", "latin-1"])
    elif kind == "file":
        rec["method"] = rng.choice(["GET", "GET", "GET", "HEAD"])
        rec["range"] = rng.choice(RANGES)
        rec["if_range"] = rng.choice([None, None, None, "@etag", "@date", "stale"]) if rec["range"] is not None else None
        rec["chunk"] = rng.choice([1, 3, 4, 64])
        rec["size"] = rng.choice([0, 1, 5, 10, 12])
        rec["content_type"] = rng.choice(FILE_TYPES)
        rec["basename"] = rng.choice(BASENAMES)
        rec["download_name"] = rng.choice(DOWNLOADS)
        rec["zerocopy"] = rng.random() < 0.4
    return rec


def all_faults(iface, rec, rng=None, cap=None):
    """the fault-free run and every fault point of the recipe: the traces are short, so every index is taken"""
    out0 = impl(mk(iface, "n", rec))
    n = 0 if out0 == "-" else len(out0.split(" "))
    if out0.startswith("ctor") or out0 == "hang":
        return ["n"]
    streaming = rec["kind"] in ("stream", "sse")
    items = len(rec.get("chunks", rec.get("events", [])))
    if iface == "wsgi":
        ds = list(range(0, n + 1))
        if rec["kind"] == "sse":
            # closing the WSGI relay mid-stream is C06's subject (its shutdown protocol): never started, or finished
            ds = [0] + list(range(items, items + 2))
        ss = [0]
    else:
        ds = list(range(0, n + 1)) if streaming else [0, 1]
        ss = list(range(0, n))
    ps = list(range(0, items + 1)) if streaming else ([0] if rec["kind"] == "file" else [])
    if rec["kind"] == "sse":
        # one fault at a time: the producer fault comes before the first event that cannot be encoded
        cs = rec.get("charset") or "utf-8"
        for idx, ev in enumerate(rec["events"]):
            try:
                for _, v in ev:
                    str(v).encode(cs)
            except (UnicodeEncodeError, LookupError):
                ps = [k for k in ps if k <= idx]
                break
    if cap is not None and rng is not None:
        ds = ds if len(ds) <= cap else sorted(rng.sample(ds, cap))
        ss = ss if len(ss) <= cap else sorted(rng.sample(ss, cap))
    return ["n"] + ["d%d" % k for k in ds] + ["s%d" % k for k in ss] + ["p%d" % k for k in ps]


def wsgi_safe(rec):
    """False for a WSGI event stream whose consumer would stop (an event that cannot be encoded) while the
    producer has more: that is the relay shutdown of C06 (design §6 #5: it never returns), not this property"""
    if rec["kind"] != "sse":
        return True
    cs = rec.get("charset") or "utf-8"
    for ev in rec["events"][:-1]:
        for _, v in ev:
            try:
                str(v).encode(cs)
            except (UnicodeEncodeError, LookupError):
                return False
    return True


def systematic():
    """a fixed grid: every class, the interesting constructor arguments one at a time"""
    base = {"status": 200, "headers": [], "cookies": []}
    recs = []
    for status in [200, 204, 299, 404, 599, 999, 100]:
        recs.append(dict(base, kind="empty", status=status))
    for cv in ("abc\n", "abc\r", "\n"):
        recs.append(dict(base, kind="empty", cookies=[{"name": "sid", "value": cv}]))
        recs.append(dict(base, kind="empty", cookies=[{"name": cv if cv.strip() else "k" + cv, "value": "v"}]))
    recs.append(dict(base, kind="empty", headers=[("X-A", "1"), ("x-a", "2"), ("Content-Length", "9")],
                     cookies=[{"name": "sid", "value": "a b"}, {"name": "k;x", "value": "line\r\nbreak", "samesite": "none"}]))
    for cls in ("plain", "html"):
        for contentv in ["hello", "", "caf\xe9", b"\x00\xff", b""]:
            for cs in [None, "latin-1"]:
                recs.append(dict(base, kind="small", cls=cls, content=contentv, charset=cs, media_type=None))
        recs.append(dict(base, kind="small", cls=cls, content="x", charset="UTF-8", media_type="application/xml"))
        recs.append(dict(base, kind="small", cls=cls, content="x", charset=None, media_type="text/csv",
                         headers=[("Content-Type", "text/x-own"), ("content-length", "1")]))
        recs.append(dict(base, kind="small", cls=cls, content="中", charset="ascii", media_type=None))
        recs.append(dict(base, kind="small", cls=cls, content="x", charset="x-unknown-charset", media_type=None))
    for text in ['{"a":1}', "[]", '"caf\xe9"', "null", '{"k":[1,2,{"x":"中"}]}']:
        recs.append(dict(base, kind="small", cls="json", content=text, status=201))
    for url in URLS:
        recs.append(dict(base, kind="redirect", url=url, status=307))
    for chunks in [[], [b"a"], [b"a", b"", b"bc"], [b"x"] * 4]:
        for ct in [None, "text/plain"]:
            recs.append(dict(base, kind="stream", chunks=chunks, content_type=ct, status=200,
                             cookies=[{"name": "a", "value": "1"}] if ct else []))
    for evs in [[], [EVENT_POOL[0]], [EVENT_POOL[1], EVENT_POOL[2]], [EVENT_POOL[3], EVENT_POOL[4], EVENT_POOL[5]],
                [EVENT_POOL[0], EVENT_POOL[6]]]:
        for cs in [None, "latin-1"]:
            recs.append(dict(base, kind="sse", events=evs, charset=cs,
                             headers=[("content-type", "text/x-lower")] if cs else []))
    recs.append(dict(base, kind="sse", events=[EVENT_POOL[0]], charset=None, headers=[("Connection", "close")]))
    for method in ("GET", "HEAD"):
        for rng_ in [None, "bytes=0-4", "bytes=0-0,5-6", "bytes=20-", "bytes=x", ""]:
            for zc in (False, True):
                recs.append(dict(base, kind="file", method=method, range=rng_, if_range=None, chunk=4, size=10,
                                 content_type="text/plain", basename="data.bin", download_name=None, zerocopy=zc))
    for size in (0, 1, 12):
        recs.append(dict(base, kind="file", method="GET", range=None, if_range=None, chunk=4, size=size,
                         content_type=None, basename="data.bin", download_name=None, zerocopy=False))
    for name in BASENAMES:
        recs.append(dict(base, kind="file", method="GET", range=None, if_range=None, chunk=64, size=5,
                         content_type=None, basename=name, download_name=None, zerocopy=False))
    for name in DOWNLOADS[3:]:
        recs.append(dict(base, kind="file", method="GET", range="bytes=1-2", if_range="@etag", chunk=64, size=5,
                         content_type="text/plain", basename="data.bin", download_name=name, zerocopy=False,
                         headers=[("ETag", "mine"), ("X-Own", "1")], cookies=[{"name": "dl", "value": "1"}]))
    return recs


def cases(rng, tier):
    for short in corpus_lines(PROPERTY):
        yield expand(short)
    thorough = tier == "thorough"
    for rec in systematic():
        for iface in ("wsgi", "asgi"):
            if iface == "wsgi" and (rec.get("zerocopy") or not wsgi_safe(rec)):
                continue
            for fault in all_faults(iface, rec):
                yield mk(iface, fault, rec)
    for _ in range(2500 if not thorough else 20000):
        rec = gen_recipe(rng)
        for iface in ("wsgi", "asgi"):
            if iface == "wsgi" and not wsgi_safe(rec):
                continue
            for fault in all_faults(iface, rec, rng, cap=None if thorough else 8):
                yield mk(iface, fault, rec)


def extra(rng, tier):
    """observations outside the statement (not judged): what baize does with ill-formed caller-supplied text"""
    obs = {}
    probes = {
        "ctor-header-crlf": dict(status=200, headers=[("X-Split", "a\r\nSet-Cookie: evil=1")], cookies=[], kind="empty"),
        "ctor-header-non-latin1": dict(status=200, headers=[("X-Wide", "中")], cookies=[], kind="empty"),
        "ctor-header-hop-by-hop": dict(status=200, headers=[("Connection", "close")], cookies=[], kind="empty"),
        "cookie-value-non-latin1": dict(status=200, headers=[], cookies=[{"name": "a", "value": "中"}], kind="empty"),
        "cookie-path-latin1": dict(status=200, headers=[], cookies=[{"name": "a", "value": "1", "path": "/caf\xe9"}],
                                   kind="empty"),
        "status-99": dict(status=99, headers=[], cookies=[], kind="empty"),
        "status-1000": dict(status=1000, headers=[], cookies=[], kind="empty"),
        "sse-user-content-type-lower-case-is-folded": dict(status=200, headers=[("content-type", "text/x-own")], cookies=[],
                                                           kind="sse", events=[], charset=None),
        "media-type-with-crlf": dict(status=200, headers=[], cookies=[], kind="small", cls="plain", content="x",
                                     media_type="text/x\r\nX: y", charset=None),
        "unknown-charset": dict(status=200, headers=[], cookies=[], kind="small", cls="plain", content="x",
                                media_type=None, charset="x-unknown-charset"),
    }
    for name, rec in probes.items():
        obs[name] = {iface: pretty(impl(mk(iface, "n", rec)))[:240] for iface in ("wsgi", "asgi")}
    # one response object answering two requests (a response IS an application: `app = PlainTextResponse("hi")`):
    # whatever happened to the first client - served, gone mid-stream, failing send - the second conversation
    # must be legal and complete again.  Judged by the oracle alone (the model describes one call).
    violations = []
    reuse = {
        "empty": dict(status=204, headers=[], cookies=[], kind="empty"),
        "small": dict(status=200, headers=[("X-A", "1")], cookies=[{"name": "a", "value": "1"}], kind="small", cls="plain",
                      content="hello", media_type=None, charset=None),
        "stream": dict(status=200, headers=[], cookies=[], kind="stream", content_type=None,
                       chunks=[b"one", b"two", b"three", b"four"]),
        "sse": dict(status=200, headers=[], cookies=[], kind="sse", charset=None,
                    events=[[("data", "a")], [("data", "b")], [("data", "c")]]),
    }
    runs = 0
    for name, base in reuse.items():
        for iface in ("wsgi", "asgi"):
            mod, run = (wsgi_responses, run_wsgi) if iface == "wsgi" else (asgi_responses, run_asgi)
            for first in ("n", "d0", "d1", "d2", "d3", "s1"):
                if iface == "wsgi" and base["kind"] == "sse" and first not in ("n", "d0"):
                    continue      # closing the WSGI relay mid-stream is C06's subject
                try:
                    line1, line2 = mk(iface, first, base), mk(iface, "n", base)
                    rec1, rec2 = parse_line(line1), parse_line(line2)
                    resp = build(rec2, mod, None)
                    out1 = with_alarm(20, run, rec1, resp)
                    out2 = with_alarm(20, run, rec2, resp)
                except OpTimeout:
                    out1, out2 = "?", "hang"
                except _Ctor:
                    continue
                runs += 1
                why = oracle(line2, out2)
                if why:
                    violations.append({"line": "reuse %s %s first=%s" % (iface, name, first),
                                       "out": "first: %s | second: %s" % (pretty(out1)[:200], pretty(out2)[:200]),
                                       "why": "second request on the same response object (first: %s): %s" % (first, why)})
    obs["reuse_runs"] = runs
    # the file has been truncated to half its size since the response object was built (with the old stat result): whatever
    # is answered, the conversation with the server stays legal and complete - start, bodies, one final body; no hang
    import random as _random
    trng = _random.Random(5)
    recs = []
    for _ in range(4000):
        r = gen_recipe(trng)
        if r["kind"] == "file" and r["size"] >= 8:
            recs.append(r)
        if len(recs) >= (40 if tier == "quick" else 200):
            break
    truncated = 0
    for r in recs:
        for iface in ("wsgi", "asgi"):
            mod, run = (wsgi_responses, run_wsgi) if iface == "wsgi" else (asgi_responses, run_asgi)
            try:
                line = mk(iface, "n", r)
                rec = parse_line(line)
                resp = build(rec, mod, None)
                short = resp.filepath + ".short"
                with open(resp.filepath, "rb") as f:
                    data = f.read()
                with open(short, "wb") as f:
                    f.write(data[:len(data) // 2])
                resp.filepath = short
                out = with_alarm(20, run, rec, resp)
            except OpTimeout:
                out = "hang"
            except _Ctor:
                continue
            truncated += 1
            why = oracle(line, out)
            if why:
                violations.append({"line": "truncated-file %s range=%s zerocopy=%s size=%d" % (
                    iface, r.get("range"), r.get("zerocopy"), r["size"]), "out": pretty(out)[:300],
                    "why": "the file shrank to half after the response was built: %s" % why})
    obs["truncated_file_runs"] = truncated
    # an event stream whose producer is slower than the ping interval: keep-alive comments are body chunks like any
    # other - bytes on WSGI, body events with more_body on ASGI
    import time as _time

    def _slow():
        for i in range(2):
            _time.sleep(0.06)
            yield {"data": str(i)}

    try:
        body = wsgi_responses.SendEventResponse(_slow(), ping_interval=0.01)(
            {"REQUEST_METHOD": "GET"}, lambda status, headers, exc_info=None: None)
        kinds = []
        try:
            for chunk in body:
                kinds.append(type(chunk).__name__)
        finally:
            if hasattr(body, "close"):
                body.close()
        obs["wsgi_sse_chunks_with_pings"] = len(kinds)
        if set(kinds) - {"bytes"}:
            violations.append({"line": "wsgi sse pings", "out": ",".join(sorted(set(kinds))),
                               "why": "a WSGI event stream with keep-alive pings yielded chunks of type %s (bytes required)"
                                      % sorted(set(kinds) - {"bytes"})})
    except Exception as exc:  # noqa
        violations.append({"line": "wsgi sse pings", "out": type(exc).__name__, "why": "raised %s" % type(exc).__name__})
    return {"violations": violations, "observations": obs}


def pretty(out):
    """a trace with the code-point lists turned back into text (for the evidence only)"""
    def txt(tok):
        return repr(dec_text(tok)) if tok != "-" else "''"

    res = []
    for t in ([] if out == "-" else out.split(" ")):
        f = t.split(":")
        if f[0] == "S" and len(f) == 3:
            pairs = [] if f[2] == "-" else ["%s: %s" % tuple(txt(x) for x in item.split("=")) for item in f[2].split("&")]
            res.append("start %s [%s]" % (f[1] if f[1].isdigit() else txt(f[1]), ", ".join(pairs)))
        elif f[0] in ("Y", "B0", "B1") and len(f) == 2:
            res.append("%s %s" % ({"Y": "yield", "B0": "body(last)", "B1": "body(more)"}[f[0]], txt(f[1])))
        else:
            res.append(t)
    return " | ".join(res) if res else "nothing"
