"""C01 — multipart decoding is exact and independent of how the body is chunked."""
from .common import corpus_lines, enc
from . import mp_common as M
from .mp_common import impl, describe  # noqa: F401  (plugin API)

PROPERTY = "C01"
LEAN_MODULES = ["BaizeVerif.Props.C01"]
MODEL_MODULES = ["BaizeVerif.Model.Multipart"]
DRIVER_OPS = {
    "mp_events": "Multipart.runEvents",
    "mp_stream": "Multipart.runStream",
    "mp_astream": "Multipart.runStream", "mp_stream_min": "Multipart.runStream", "mp_astream_min": "Multipart.runStream",
    "mp_wsgi_form": "Multipart.runWsgiForm",
    "mp_asgi_form": "Multipart.runAsgiForm",
    "mp_header": "Multipart.runHeader",
}
GEN_MODULES = ["c01"]
THEOREMS = [
    "Baize.Multipart.source_pinned",
    "Baize.Multipart.parseStream_exact",
    "Baize.Multipart.chunking_independent",
    "Baize.Multipart.parseStream_items",
    "Baize.Multipart.formAccessor_exact",
    "Baize.Multipart.rendered_part_ok",
    "Baize.Multipart.itemOf_rendered",
    "Baize.Multipart.headerEvent_rendered",
    "Baize.Multipart.rendered_part_ok_utf8",
    "Baize.Multipart.rendered_form_exact",
    "Baize.Multipart.decodeUtf8_encodeUtf8",
]
MANIFEST = {
    "technique": "Lean 4 proof (invariant over all chunk partitions) + differential correspondence of the Lean "
                 "decoder model with MultipartDecoder / parse_stream / parse_async_stream / Request.form",
    "text": "Lean theorems over an executable, bit-exact model of the multipart decoder (regex searches as explicit "
            "scanners, hold-back index, header parsing, helper event loop): for every boundary, every form of the "
            "property's class and every partition of the encoded bytes into chunks the decoded parts are exactly the "
            "encoded ones. The model is tied to /repo by regenerated regex templates/constants (pinned by decide) and "
            "by a correspondence that compares the complete event sequence of next_event(), the helpers' results and "
            "both form accessors with the model on exhaustive partitions of small bodies, random forms, malformed "
            "streams; an independent reference parser is the oracle.",
    "note": "Trusted: Lean kernel (propext, Classical.choice, Quot.sound), tools/extract.py, the correspondence "
            "generator; CPython `re` agrees with the explicit scanners and codecs/SpooledTemporaryFile behave as "
            "sampled. Charsets modelled: utf-8 and latin-1 (unknown names fall back to latin-1).",
    "design": "C01",
}
CORRESPONDENCE = ("Baize.Multipart.{eventTrace,parseStream,formAccessor,parseHeaderValue}  vs  "
                  "baize.multipart.MultipartDecoder, baize.multipart_helper.parse_stream/parse_async_stream, "
                  "Request.form (wsgi, asgi), baize.utils.parse_header")
RULE = ("corpus; all partitions of small encoded forms (payload <= 10 bytes quick / 14 thorough) at event level; "
        "random forms (adversarial alphabet CR LF - b d blanks, partial delimiters, 10 boundaries incl. '-', '--', "
        "70 chars, regex metacharacters) x random partitions incl. one-byte and empty chunks through the event "
        "decoder, sync helper, async helper, WSGI and ASGI form accessors; malformed stream (truncated, LF/CR-only "
        "line breaks, transport padding, bad headers); parse_header on random parameter text. "
        "non-trivial = a body with >= 1 part cut into >= 2 chunks; distinct = distinct op line")
TRUSTED = [
    "CPython re.search on the three patterns agrees with delimSearch/blankLineSearch (every generated buffer)",
    "utf-8 / latin-1 codecs agree with decodeUtf8 / identity; SpooledTemporaryFile returns what was written",
]
ASSUMPTIONS = [
    "parameter and header names are ASCII/Latin-1 where the code lower-cases them (str.lower on other scripts is "
    "not modelled; the encoder-side theorems use the ASCII names Content-Disposition / name / filename)",
    "charset is utf-8, latin-1 or an unknown name (other codecs are not modelled)",
]
PARTIAL = None


def _expect(line):
    info = M.body_of(line)
    if info is None:
        return None
    boundary, charset, chunks = info
    return M.ref_parse(b"".join(chunks), boundary, charset)


def oracle(line, out):
    op = line.split(" ")[0]
    if op == "mp_header":
        return None
    if out.startswith("crash") or "crash:" in out:
        return None if _expect(line) is None else "decoder raised a non-HTTP error on a well-formed body: %s" % out[:80]
    exp = _expect(line)
    if exp is None:
        return None
    want = M.r_expected(exp["items"])
    if op == "mp_events":
        return _events_vs_items(out, exp)
    a = line.split(" ")
    if op in M.STREAM_OPS:
        # limits are C15's business: only judge when they cannot trigger
        if int(a[3]) < len(exp["items"]) or (a[4] != "none" and int(a[4]) < exp["field_bytes"]):
            return None
        got = out.rsplit(" held=", 1)[0]
    else:
        got = out
    if got != "ok " + want:
        return "decoded parts differ from the encoded ones: expected %s, got %s" % (("ok " + want)[:200], got[:200])
    return None


def _events_vs_items(out, exp):
    """rebuild parts from the event trace and compare with the encoder's input"""
    toks = []
    body = out.rsplit(" held=", 1)[0]
    for grp in body.split(" "):
        if grp != ".":
            toks.extend(grp.split("~"))
    parts, cur = [], None
    for t in toks:
        if t.startswith("http") or t.startswith("crash"):
            return "decoder rejected a well-formed body: %s" % t
        k = t[0]
        if k in "FX":
            cur = [t, b""]
        elif k == "D":
            _, data, more = t.split(":")
            if cur is None:
                return "Data event without a part"
            cur[1] += M.dec_bytes(data)
            if more == "0":
                parts.append(cur)
                cur = None
    if cur is not None:
        return "last part never completed"
    if len(parts) != len(exp["items"]):
        return "expected %d parts, decoder produced %d" % (len(exp["items"]), len(parts))
    for (hdr, content), (kind, name, val), part in zip(parts, exp["items"], exp["parts"]):
        f = hdr.split(":")
        if kind == "f":
            if f[0] != "F" or f[1] != enc(name) or content != part.content:
                return "field %r decoded as %s / %r" % (name, hdr[:80], content[:40])
        else:
            fn, hdrs, data = val
            if f[0] != "X" or f[1] != enc(name) or f[2] != enc(fn) or f[3] != M.r_headers(hdrs) or content != data:
                return "file %r decoded as %s / %r" % (name, hdr[:120], content[:40])
    return None


def _cs(exp):
    return exp.get("charset", "utf-8")


def classify(line, out):
    op = line.split(" ")[0]
    if op == "mp_header":
        return "parse_header"
    wf = "wellformed" if _expect(line) is not None else "other"
    res = "ok" if out.startswith("ok") or (op == "mp_events" and "http" not in out and "crash" not in out) \
        else out.split(" ")[0] + out.split(" ")[1][:3] if " " in out else out
    return "%s/%s/%s" % (op, wf, res)


def nontrivial(line, out):
    info = M.body_of(line)
    if info is None:
        return False
    return len(info[2]) >= 2 and b"\r\n\r\n" in b"".join(info[2])


def _ev(b, cs, chunks):
    return "mp_events %s %s %s" % (enc(b), cs, M.enc_chunks(chunks))


def _stream(op, b, cs, mp, mm, chunks):
    return "%s %s %s %d %s %s" % (op, enc(b), cs, mp, "none" if mm is None else mm, M.enc_chunks(chunks))


def cases(rng, tier):
    yield from corpus_lines(PROPERTY)
    # exhaustive partitions of small bodies (event level: the bit-exact view)
    limit = 600 if tier == "quick" else 6000
    small = [
        (b"b", [M.Part("a", b"\r\n--", "f", [])], b"", b""),
        (b"bd", [M.Part("n", b"\r\n--b"), M.Part("m", b"-", "f", [])], b"", b"e"),
        (b"-", [M.Part("a", b"\r"), M.Part("a", b"\n-")], b"p", b""),
        (b"bd", [], b"", b""),
        (b"--", [M.Part("x", b"\n\r\n-"), ], b"", b"\r\n"),
    ]
    for b, parts, pre, epi in small:
        body = M.encode_form(b, parts, pre, epi)
        for chunks in M.all_partitions(body, limit):
            yield _ev(b, "utf8", chunks)
        yield _ev(b, "utf8", [body[i:i + 1] for i in range(len(body))])
    n = 500 if tier == "quick" else 12000
    for i in range(n):
        b = rng.choice(M.BOUNDARIES)
        parts, pre, epi = M.rand_form(rng, b)
        cs = rng.choice(["utf8", "utf8", "latin1"])
        try:
            body = M.encode_form(b, parts, pre, epi, M.charset_of(cs))
        except UnicodeEncodeError:
            cs = "utf8"
            body = M.encode_form(b, parts, pre, epi)
        for _ in range(2):
            chunks = M.rand_partition(rng, body)
            yield _ev(b, cs, chunks)
            yield _stream(rng.choice(["mp_stream", "mp_astream", "mp_stream", "mp_astream", "mp_stream_min", "mp_astream_min"]), b, cs, 324, None, chunks)
        if not epi and i % 3 == 0:
            # the body ends exactly at the closing delimiter (no line break after `--boundary--`, which is optional)
            bare = body[:-2]
            chunks = M.rand_partition(rng, bare)
            yield _stream(rng.choice(["mp_stream", "mp_astream"]), b, cs, 324, None, chunks)
            yield _stream(rng.choice(["mp_stream", "mp_astream"]), b, cs, 324, None, [bare])
        ne = M.rand_partition(rng, body, empties=False)
        ct = 'multipart/form-data; boundary=%s' % b.decode("latin-1")
        if rng.random() < 0.5 and b'"' not in b and b"\\" not in b:
            ct = 'multipart/form-data; boundary="%s"' % b.decode("latin-1")
        if cs == "latin1":
            ct += "; charset=" + rng.choice(["latin-1", "nonsense"])
        elif rng.random() < 0.3:
            ct += "; charset=" + rng.choice(["utf-8", "UTF-8", "utf8"])
        if b.endswith(b"\\") or b";" in b:
            continue
        yield "mp_wsgi_form %s %s" % (enc(ct), M.enc_chunks(ne))
        yield "mp_asgi_form %s %s" % (enc(ct), M.enc_chunks(M.rand_partition(rng, body)))
    # long preambles (longer than the delimiter line plus the first header block), one cut inside the preamble and the
    # rest in one piece / cut again behind the first delimiter, the first header block, the first part
    for b, pre in ((b"bd", b"This is a multipart message in MIME format.\r\n" * 4),
                   (b"----WebKitFormBoundary7MA4YWxk", b"x" * 300), (b"a-b", b"preamble line\n" * 12 + b"--a-"),
                   (b"bd", b"p" * 90 + b"\r\n--b" + b"q" * 60)):
        parts = [M.Part("first", b"value one"), M.Part("up", b"file\r\ncontent", "f.txt", [("Content-Type", "text/plain")]),
                 M.Part("last", b"z")]
        body = M.encode_form(b, parts, preamble=pre)
        d1 = body.index(b"--" + b, len(pre) - 2 if pre.endswith(b"--a-") else 0)
        marks = sorted({d1 + len(b) + 2, d1 + len(b) + 4, body.index(b"\r\n\r\n", d1) + 4, body.index(b"value one") + 9})
        for cut1 in list(range(1, len(pre), 5)) + [len(pre) - 1, len(pre), len(pre) + 1, len(pre) + 2]:
            if cut1 >= len(body):
                continue
            yield _ev(b, "utf8", [body[:cut1], body[cut1:]])
            for cut2 in marks:
                if cut2 > cut1:
                    chunks = [body[:cut1], body[cut1:cut2], body[cut2:]]
                    yield _ev(b, "utf8", chunks)
                    yield _stream(rng.choice(["mp_stream", "mp_astream"]), b, "utf8", 324, None, chunks)
    # charset labels that name no text encoding: codecs of another kind (their payload must not be "decoded"), unknown
    # names, the empty label - field contents that happen to be valid hex / base64 / compressed data included
    import zlib as _z
    for cs in ("hex", "base64", "rot13", "zlib", "bz2", "quopri", "uu", "nonsense", "hex_codec", "base_64"):
        b = b"bd"
        parts = [M.Part("f", b"4142"), M.Part("g", b"QUJD"), M.Part("h", b"uryyb"), M.Part("z", _z.compress(b"payload")),
                 M.Part("up", b"4142", "41.bin", [("Content-Type", "text/plain")]), M.Part("q", b"a=3D")]
        body = M.encode_form(b, parts)
        for chunks in ([body], M.rand_partition(rng, body)):
            yield _ev(b, cs, chunks)
            for sop in ("mp_stream", "mp_astream", "mp_stream_min", "mp_astream_min"):
                yield _stream(sop, b, cs, 324, None, chunks)
            ct = "multipart/form-data; boundary=bd; charset=" + cs
            yield "mp_wsgi_form %s %s" % (enc(ct), M.enc_chunks([c for c in chunks if c]))     # an empty read is EOF
            yield "mp_asgi_form %s %s" % (enc(ct), M.enc_chunks(chunks))
    # forms with exactly as many parts as the documented limit allows (and one fewer)
    for k in (323, 324):
        b = b"bd"
        parts = [M.Part("f%d" % (i % 5), b"v%d" % i) for i in range(k)]
        body = M.encode_form(b, parts)
        for chunks in ([body], [body[:777], body[777:]]):
            yield _stream("mp_stream", b, "utf8", 324, None, chunks)
            yield _stream("mp_astream", b, "utf8", 324, None, chunks)
            yield "mp_wsgi_form %s %s" % (enc("multipart/form-data; boundary=bd"), M.enc_chunks(chunks))
            yield "mp_asgi_form %s %s" % (enc("multipart/form-data; boundary=bd"), M.enc_chunks(chunks))
    # a text field of a few kB handed over byte by byte (thousands of Data events for one field), default limits
    for size in ((1500, 4000) if tier == "quick" else (1500, 4000, 12000)):
        b = b"bd"
        parts = [M.Part("big", ("line %d\r\n" * (size // 9) % tuple(range(size // 9))).encode("ascii")[:size]),
                 M.Part("after", b"v")]
        body = M.encode_form(b, parts)
        one = [body[i:i + 1] for i in range(len(body))]
        yield _stream("mp_stream", b, "utf8", 324, None, one)
        yield _stream("mp_astream", b, "utf8", 324, None, one)
        yield "mp_wsgi_form %s %s" % (enc("multipart/form-data; boundary=bd"), M.enc_chunks(one))
        yield "mp_asgi_form %s %s" % (enc("multipart/form-data; boundary=bd"), M.enc_chunks(one))
    m = 300 if tier == "quick" else 6000
    for i in range(m):
        b = rng.choice(M.BOUNDARIES[:5])
        body = M.malformed_body(rng, b)
        chunks = M.rand_partition(rng, body)
        yield _ev(b, "utf8", chunks)
        yield _stream("mp_stream", b, rng.choice(["utf8", "latin1"]), 324, None, chunks)
    alpha = ['a', 'b', ';', '=', '"', '\\', ' ', '\t', 'X', 'name', 'filename', 'é', '　', '/', ',', "'"]
    for i in range(300 if tier == "quick" else 5000):
        text = "".join(rng.choice(alpha) for _ in range(rng.randrange(0, 14)))
        yield "mp_header %s" % enc(text)
    for ct in ['form-data; name="a"; filename="b"', 'x; a="b;c"; d=e', 'x;a="\\";b"', ';', '', 'a;;b=c', 'A; NAME=x']:
        yield "mp_header %s" % enc(ct)
