"""C19 — server-sent events reach the client as they were yielded."""
import asyncio
import queue as _real_queue
import re

import baize.asgi.responses as asgi_responses
import baize.wsgi.responses as wsgi_responses
from baize.responses import build_bytes_from_sse

from .common import corpus_lines, dec_text, enc, exc_name, with_alarm

PROPERTY = "C19"
LEAN_MODULES = ["BaizeVerif.Props.C19"]
MODEL_MODULES = ["BaizeVerif.Model.SSE"]
DRIVER_OPS = {"sse": "SSE.run", "sse_stream": "SSE.runStream", "sse_parse": "SSE.runParse"}
THEOREMS = [
    "Baize.SSE.block_roundtrip_partial",
    "Baize.SSE.block_vacuous",
    "Baize.SSE.ping_ignored",
    "Baize.SSE.stream_order_partial",
    "Baize.SSE.splitLines_spec",
    "Baize.SSE.normData_preserves",
    "Baize.SSE.roundtrip_needs_id_nul_free_witness",
    "Baize.SSE.roundtrip_needs_retry_nonneg_witness",
    "Baize.SSE.headers_event_stream",
    "Baize.SSE.source_pinned",
]
MANIFEST = {
    "technique": "Lean 4 proof (induction over the data text, the field list and the list of yielded items) + "
                 "differential correspondence of the Lean encoder with build_bytes_from_sse / SendEventResponse "
                 "and of the Lean event-stream parser with an independent Python WHATWG parser",
    "text": "Lean theorems over an executable model of build_bytes_from_sse (exact line splitter, field lines in "
            "dict order, data lines, blank terminator) and of the WHATWG event-stream interpretation: every "
            "well-formed event decodes to exactly one record with the same name/id/retry and the data's CR/LF/CRLF "
            "lines joined by LF (all other code points preserved), the generated ping chunks are ignored, a whole "
            "stream with interleaved pings decodes to the events in order (induction over the item list).  Tied to "
            "/repo on every run by regenerated constants (line formats, joiner, terminator, splitter pattern, ping "
            "bytes and required headers of both interfaces) and by a differential correspondence on the real "
            "build_bytes_from_sse and the real WSGI/ASGI SendEventResponse (scripted time-outs); an independent "
            "Python WHATWG parser applied to the real bytes is the oracle.",
    "note": "Trusted: Lean kernel (propext, Classical.choice, Quot.sound only), tools/extract.py, the correspondence "
            "generator, the transcription of the WHATWG algorithm (Lean parseStream, cross-checked against the Python "
            "parser on every case); str.encode/decode of ASCII-compatible charsets act line-wise.  Model over code "
            "points; lone surrogates and non-ASCII-compatible charsets are outside.",
    "design": "C19",
}
CORRESPONDENCE = ("Baize.SSE.encodeEvent vs baize.responses.build_bytes_from_sse; Baize.SSE.wire/responseHeaders vs "
                  "baize.{wsgi,asgi}.responses.SendEventResponse; Baize.SSE.parseStream vs the harness's WHATWG parser")
RULE = ("corpus of past failures; exhaustive: every subset and order of event/id/retry x a data alphabet of line "
        "breaks / Unicode separators / space / colon up to length 4 (quick: 3); random events over an alphabet "
        "containing U+000A-000D, 001C-001E, 0085, 2028, 2029, NUL, BOM, leading spaces and colons, astral code points; "
        "random streams of 0-6 events with scripted pings on both interfaces, charsets utf-8 / latin-1 / ascii; random "
        "and mutated raw streams for the parser tie.  non-trivial = an event with data containing a line break or "
        "Unicode separator or >=2 fields, or a stream with >=2 events or a ping; distinct = distinct op line")
TRUSTED = [
    "the Lean transcription of the WHATWG event-stream interpretation (parseStream), cross-checked against an "
    "independently written Python parser on every generated body and on random raw streams",
    "str.encode/bytes.decode of utf-8, latin-1, ascii are inverse line by line and map LF to 0x0A (checked on every case)",
    "the scripted time-outs (queue.Queue.get / asyncio.wait_for substituted from the harness) stand for real ping intervals",
]
ASSUMPTIONS = [
    "text is a sequence of Unicode scalar values (a lone surrogate cannot be encoded in utf-8: the response raises)",
    "the charset is ASCII-compatible and can encode the event (utf-16/32 cannot carry an event stream at all); the "
    "oracle decodes the body with the charset the response declared",
    "event dictionaries contain only the keys of typing.ServerSentEvent, retry is an int below CPython's 4300-digit limit",
    "a record is one blank-line-terminated block with its buffers; the WHATWG rule 'empty data => no dispatch' is not "
    "applied; a block that sets no buffer (the empty dictionary, data == '') is not an event on the wire and yields nothing",
]
PARTIAL = ("block_roundtrip_partial / stream_order_partial carry two hypotheses beyond the property text (Field.WF): the id "
           "contains no U+0000 and retry is not negative.  Both classes cannot be carried by the event stream format under "
           "any encoder (witness theorems roundtrip_needs_id_nul_free_witness, roundtrip_needs_retry_nonneg_witness; known "
           "findings sse-id-with-nul, sse-negative-retry); everything else of the statement is proved")

CHARSETS = ("utf-8", "latin-1", "ascii")

# ---- wire format of one event: tokens e:<cps> i:<cps> r:<int> d:<cps> in dict order ------------------


def ev_tokens(ev):
    toks = []
    for k, v in ev.items():
        if k == "event":
            toks.append("e:" + enc(v))
        elif k == "id":
            toks.append("i:" + enc(v))
        elif k == "retry":
            toks.append("r:%d" % v)
        elif k == "data":
            toks.append("d:" + enc(v))
        else:
            raise ValueError(k)
    return toks


def ev_of_tokens(toks):
    ev = {}
    for t in toks:
        k, v = t.split(":")
        if k == "e":
            ev["event"] = dec_text(v)
        elif k == "i":
            ev["id"] = dec_text(v)
        elif k == "r":
            ev["retry"] = int(v)
        elif k == "d":
            ev["data"] = dec_text(v)
    return ev


def mk_sse(charset, ev):
    return " ".join(["sse", charset] + ev_tokens(ev))


def mk_stream(iface, charset, items):
    """items: list of 'P' or event dicts"""
    parts = []
    for it in items:
        if it == "P":
            parts.append("P")
        else:
            parts.append(";".join(ev_tokens(it)) or "-")
    return "sse_stream %s %s %s" % (iface, charset, "/".join(parts) or "_")


def items_of_arg(arg):
    if arg in ("_", ""):
        return []
    out = []
    for t in arg.split("/"):
        if t == "P":
            out.append("P")
        elif t == "-":
            out.append({})
        else:
            out.append(ev_of_tokens(t.split(";")))
    return out


# ---- the client: an independent transcription of the WHATWG event stream interpretation -----------
# (HTML Living Standard 9.2.6).  Character-driven, written from the text of the standard, not from the
# Lean model.  Deviations, both documented in DESIGN.md: the result of a block is the record of its
# buffers (event / id / retry as set within the block, data without the final LF), and a record is
# produced whenever the block set at least one buffer (the "data buffer is empty => return" step is
# skipped).


def whatwg_parse(text):
    records = []
    if text.startswith("\ufeff"):
        text = text[1:]
    ev_type = None
    last_id = None
    retry = None
    data = None  # None = no data line seen; else the data buffer (every line followed by LF)
    pos = 0
    n = len(text)
    while True:
        # read one line: up to CRLF, LF or CR; the end of the stream does not end a line
        end = pos
        while end < n and text[end] not in "\r\n":
            end += 1
        if end >= n:
            break  # pending data is discarded
        line = text[pos:end]
        if text[end] == "\r" and end + 1 < n and text[end + 1] == "\n":
            pos = end + 2
        else:
            pos = end + 1
        if line == "":
            if not (ev_type is None and last_id is None and retry is None and data is None):
                d = data or ""
                if d.endswith("\n"):
                    d = d[:-1]
                records.append((ev_type, last_id, retry, d))
            ev_type = last_id = retry = data = None
            continue
        if line[0] == ":":
            continue
        colon = line.find(":")
        if colon >= 0:
            field, value = line[:colon], line[colon + 1:]
            if value[:1] == " ":
                value = value[1:]
        else:
            field, value = line, ""
        if field == "event":
            ev_type = value
        elif field == "data":
            data = (data or "") + value + "\n"
        elif field == "id":
            if "\0" not in value:
                last_id = value
        elif field == "retry":
            if value != "" and all(c in "0123456789" for c in value):
                retry = int(value)
        # everything else is ignored
    return records


def render_records(recs):
    if not recs:
        return "none"

    def o(v):
        return "~" if v is None else enc(v)

    return "".join("[e=%s;i=%s;r=%s;d=%s]" % (o(e), o(i), "~" if r is None else str(r), enc(d)) for e, i, r, d in recs)


# ---- adapters: the real code -----------------------------------------------------------------------


class _ScriptedQueueModule:
    """stands in for the name `queue` inside baize.wsgi.responses: Queue.get(timeout=…) times out exactly
    where the script says 'P', and otherwise waits for the producer without a time limit"""

    Empty = _real_queue.Empty
    Full = _real_queue.Full

    def __init__(self, script):
        outer = self
        self.script = list(script)

        class Queue(_real_queue.Queue):
            def get(self, block=True, timeout=None):
                if block and timeout is not None:
                    if outer.script and outer.script[0] == "P":
                        outer.script.pop(0)
                        raise _real_queue.Empty
                    if outer.script:
                        outer.script.pop(0)
                    return super().get(True, None)
                return super().get(block, timeout)

        self.Queue = Queue


class _ScriptedAsyncio:
    """stands in for the name `asyncio` inside baize.asgi.responses: wait_for(…, timeout) times out exactly
    where the script says 'P'"""

    def __init__(self, script):
        self.script = list(script)

    def __getattr__(self, name):
        return getattr(asyncio, name)

    async def wait_for(self, aw, timeout=None):
        if self.script and self.script[0] == "P":
            self.script.pop(0)
            if hasattr(aw, "close"):
                aw.close()
            raise asyncio.TimeoutError
        if self.script:
            self.script.pop(0)
        return await aw


def _copy(ev):
    return dict(ev)


def _producer_items(items):
    """the dictionaries the producer yields: equal events of a script are ONE dict object yielded again (a producer
    that keeps a template event and yields it repeatedly) - what the client reads may not depend on that"""
    cache, out = {}, []
    for it in items:
        if it == "P":
            continue
        key = tuple(it.items())
        out.append(cache.setdefault(key, dict(it)))
    return out


def run_wsgi(items, charset):
    events = _producer_items(items)
    script = ["P" if it == "P" else "E" for it in items]
    saved = wsgi_responses.queue
    wsgi_responses.queue = _ScriptedQueueModule(script)
    try:
        def producer():
            for ev in events:
                yield ev

        resp = wsgi_responses.SendEventResponse(producer(), charset=charset, ping_interval=30)
        seen = {}

        def start_response(status, headers, exc_info=None):
            seen["status"] = status
            seen["headers"] = list(headers)

        body = resp({"REQUEST_METHOD": "GET"}, start_response)
        chunks = []
        try:
            for chunk in body:
                chunks.append(chunk)
        finally:
            if hasattr(body, "close"):
                body.close()
        return seen.get("headers", []), chunks
    finally:
        wsgi_responses.queue = saved


def run_asgi(items, charset):
    events = _producer_items(items)
    script = ["P" if it == "P" else "E" for it in items]
    saved = asgi_responses.asyncio
    asgi_responses.asyncio = _ScriptedAsyncio(script)
    try:
        async def main():
            async def producer():
                for ev in events:
                    yield ev

            resp = asgi_responses.SendEventResponse(producer(), charset=charset, ping_interval=30)
            msgs = []

            async def receive():
                await asyncio.Event().wait()  # the client stays connected

            async def send(message):
                msgs.append(message)

            await resp({"type": "http", "method": "GET", "headers": []}, receive, send)
            return msgs

        msgs = asyncio.run(main())
        headers = []
        chunks = []
        for m in msgs:
            if m["type"] == "http.response.start":
                headers = [(k.decode("latin-1"), v.decode("latin-1")) for k, v in m.get("headers", [])]
            elif m["type"] == "http.response.body":
                if m.get("body", b"") or m.get("more_body"):
                    chunks.append(m.get("body", b""))
        return headers, chunks
    finally:
        asgi_responses.asyncio = saved


def _impl(line):
    args = line.split(" ")
    op = args[0]
    if op == "sse":
        charset = args[1]
        ev = ev_of_tokens(args[2:])
        text = build_bytes_from_sse(_copy(ev), charset).decode(charset)
        return "out %s parsed %s" % (enc(text), render_records(whatwg_parse(text)))
    if op == "sse_stream":
        iface, charset = args[1], args[2]
        items = items_of_arg(args[3] if len(args) > 3 else "_")
        headers, chunks = (run_wsgi if iface == "wsgi" else run_asgi)(items, charset)
        texts = [c.decode(charset) for c in chunks]
        hdr = "&".join("%s=%s" % (enc(k), enc(v)) for k, v in headers)
        return "hdr %s out %s parsed %s" % (hdr, "/".join(enc(t) for t in texts) or "_",
                                             render_records(whatwg_parse("".join(texts))))
    if op == "sse_parse":
        return "parsed " + render_records(whatwg_parse(dec_text(args[1] if len(args) > 1 else "-")))
    return "bad-op"


def impl(line):
    try:
        return with_alarm(20, _impl, line)
    except Exception as exc:  # noqa
        if type(exc).__name__ == "OpTimeout":
            return "hang"
        return exc_name(exc)


# ---- oracle: the property stated on the implementation's bytes --------------------------------------

BREAK = re.compile(r"\r\n|\r|\n")


def expected_readings(ev, relax=()):
    """the records the property allows for one yielded dictionary: a set of tuples, plus None in the set
    when delivering nothing is allowed (the dictionary sets no buffer at all).  `relax` names the known
    findings whose class is to be tolerated (used only by the `match` expressions of findings/C19.json)"""
    name = ev.get("event")
    ident = ev.get("id")
    retry = ev.get("retry")
    if "id-nul" in relax and ident is not None and "\0" in ident:
        ident = None
    if "retry-neg" in relax and retry is not None and retry < 0:
        retry = None
    datas = set()
    if "data" in ev:
        lines = BREAK.split(ev["data"])  # separator reading: a trailing break opens a last empty line
        datas.add(("\n".join(lines), True))
        if lines[-1] == "":  # terminator reading: it does not  ("x\n" has the single line "x")
            lines = lines[:-1]
            datas.add(("\n".join(lines), bool(lines)))
    else:
        datas.add(("", False))
    out = set()
    for d, has_line in datas:
        if name is None and ident is None and retry is None and not has_line:
            out.add(None)
        else:
            out.add((name, ident, retry, d))
    return out


def in_statement(ev):
    """the events the property speaks about"""
    for k in ("event", "id"):
        if k in ev and ("\r" in ev[k] or "\n" in ev[k]):
            return False
    return True


def match_records(expected, got):
    """expected: list of sets of allowed records (None = nothing); got: list of records; in order"""
    memo = {}

    def go(i, j):
        if (i, j) in memo:
            return memo[(i, j)]
        if i == len(expected):
            r = j == len(got)
        else:
            r = False
            if None in expected[i] and go(i + 1, j):
                r = True
            elif j < len(got) and got[j] in expected[i] and go(i + 1, j + 1):
                r = True
        memo[(i, j)] = r
        return r

    return go(0, 0)


def parse_out(out):
    m = re.fullmatch(r"(?:hdr (\S*) )?out (\S+) parsed (\S+)", out)
    if not m:
        return None
    hdr = []
    if m.group(1):
        for kv in m.group(1).split("&"):
            k, v = kv.split("=")
            hdr.append((dec_text(k), dec_text(v)))
    chunks = [] if m.group(2) == "_" else [dec_text(c) for c in m.group(2).split("/")]
    return hdr, chunks


def comment_only(chunk):
    """a keep-alive chunk: complete lines, each a comment or blank"""
    if not chunk or chunk[-1] not in "\r\n":
        return False
    lines = BREAK.split(chunk)[:-1]
    return all(l == "" or l.startswith(":") for l in lines)


def fmt(rec):
    return "nothing" if rec is None else "(event=%r, id=%r, retry=%r, data=%r)" % rec


def has_id_nul(line):
    return any("\0" in ev.get("id", "") for ev in _events_of(line))


def has_neg_retry(line):
    return any(ev.get("retry", 0) < 0 for ev in _events_of(line))


def oracle(line, out, relax=()):
    args = line.split(" ")
    op = args[0]
    if op == "sse_parse":
        return None  # the client alone: nothing of baize is involved (tie of the Lean parser only)
    if op == "sse":
        items = [ev_of_tokens(args[2:])]
    else:
        items = items_of_arg(args[3] if len(args) > 3 else "_")
    events = [it for it in items if it != "P"]
    if not all(in_statement(ev) for ev in events):
        return None  # a name / id containing a line break is outside the statement
    if out.startswith("crash") or out.startswith("http") or out == "hang":
        return "the response failed instead of delivering the events: %s" % out
    parsed = parse_out(out)
    if parsed is None:
        return "unreadable adapter output %r" % out[:80]
    hdr, chunks = parsed
    if op == "sse_stream":
        ct = [v for k, v in hdr if k.lower() == "content-type"]
        if len(ct) != 1 or ct[0].split(";")[0].strip().lower() != "text/event-stream":
            return "Content-Type is %r, an EventSource needs text/event-stream" % (ct,)
    if len(chunks) != len(items):
        return "%d chunks written for %d yielded items / time-outs" % (len(chunks), len(items))
    # every chunk on its own
    for it, chunk in zip(items, chunks):
        if it == "P":
            if not comment_only(chunk):
                return "keep-alive chunk %r is not made of comment lines" % chunk
            if whatwg_parse(chunk):
                return "keep-alive chunk %r is not ignored by the parser" % chunk
        else:
            got = whatwg_parse(chunk)
            allowed = expected_readings(it, relax)
            if not match_records([allowed], got):
                return "event %r: block %r decodes to %s, allowed: %s" % (
                    it, chunk, [fmt(g) for g in got] or "nothing", sorted(fmt(a) for a in allowed))
    # the whole body, in order, pings ignored
    got = whatwg_parse("".join(chunks))
    if not match_records([expected_readings(ev, relax) for ev in events], got):
        return "stream of %d events decodes to %d records %s (order / interleaving broken)" % (
            len(events), len(got), [fmt(g) for g in got][:6])
    return None


# ---- statistics ------------------------------------------------------------------------------------

SEPS = "\x0b\x0c\x1c\x1d\x1e\x85\u2028\u2029"


def _events_of(line):
    args = line.split(" ")
    if args[0] == "sse":
        return [ev_of_tokens(args[2:])]
    if args[0] == "sse_stream":
        return [it for it in items_of_arg(args[3] if len(args) > 3 else "_") if it != "P"]
    return []


def classify(line, out):
    args = line.split(" ")
    op = args[0]
    if op == "sse_parse":
        return "parse/" + ("records" if "[" in out else "none")
    evs = _events_of(line)
    tags = set()
    for ev in evs:
        d = ev.get("data")
        if d is None:
            tags.add("nodata")
        else:
            if any(c in d for c in SEPS):
                tags.add("usep")
            if "\r" in d or "\n" in d:
                tags.add("brk")
            if d[-1:] in ("\r", "\n"):
                tags.add("trail")
        if not in_statement(ev):
            tags.add("outside")
    head = out.split(" ")[0]
    if op == "sse":
        return "sse/%s/%s" % (head, "+".join(sorted(tags)) or "plain")
    n = len(evs)
    pings = line.count("P")
    return "stream/%s/%s/ev=%s/ping=%s/%s" % (args[1], head, n if n < 3 else "3+", "y" if pings else "n",
                                              "+".join(sorted(tags - {"nodata", "trail"})) or "plain")


def nontrivial(line, out):
    args = line.split(" ")
    if args[0] == "sse_parse":
        return "[" in out
    evs = _events_of(line)
    if args[0] == "sse_stream":
        return len(evs) >= 2 or "P" in (args[3] if len(args) > 3 else "")
    for ev in evs:
        d = ev.get("data", "")
        if any(c in d for c in SEPS + "\r\n") or len(ev) >= 2:
            return True
    return False


def describe(line):
    args = line.split(" ")
    if args[0] == "sse":
        return {"charset": args[1], "event": ev_of_tokens(args[2:])}
    if args[0] == "sse_stream":
        return {"interface": args[1], "charset": args[2], "items (P = time-out => ping)": items_of_arg(args[3] if len(args) > 3 else "_")}
    return {"stream": dec_text(args[1] if len(args) > 1 else "-")}


# ---- generators ------------------------------------------------------------------------------------

ALPHA = ["\n", "\r", "\r\n", "\x0b", "\x0c", "\x1c", "\x1d", "\x1e", "\x85", "\u2028", "\u2029", " ", ":", "a", "b",
         "\x00", "\ufeff", "\xe9", "\u4e2d", "\U0001f600", "data", "0", "-", "\t", "\u00a0", "\ud7ff", "\ue000"]
LATIN = [c for c in ALPHA if all(ord(x) < 256 for x in c)]
ASCII = [c for c in ALPHA if all(ord(x) < 128 for x in c)]


def rand_text(rng, alpha, maxlen=8):
    return "".join(rng.choice(alpha) for _ in range(rng.randrange(0, maxlen + 1)))


def rand_value(rng, alpha):
    """a single-line name / id"""
    a = [c for c in alpha if "\r" not in c and "\n" not in c]
    return rand_text(rng, a, 5)


def rand_event(rng, alpha, outside=0.03):
    ev = {}
    keys = [k for k in ("event", "id", "retry", "data") if rng.random() < 0.55]
    rng.shuffle(keys)
    for k in keys:
        if k == "data":
            ev[k] = rand_text(rng, alpha, rng.choice([0, 1, 2, 4, 8, 16]))
        elif k == "retry":
            ev[k] = rng.choice([0, 1, 5, 9, 10, 3000, 10 ** 12, rng.randrange(0, 100000), 2 ** 70,
                                -1 if rng.random() < 0.15 else 7])
        else:
            v = rand_value(rng, alpha)
            if k == "id" and rng.random() > 0.15:
                v = v.replace("\x00", "")
            if rng.random() < outside:
                v = rand_text(rng, alpha, 4)
            ev[k] = v
    return ev


def alpha_for(charset):
    return {"utf-8": ALPHA, "latin-1": LATIN, "ascii": ASCII}[charset]


def extra(rng, tier):
    """real time (no scripted queue): a reader that is slower than the ping interval, a producer that is; every event
    must still arrive, once, in order, on both interfaces; pings may come in between"""
    import threading
    import time

    violations = []
    runs = 0
    n = 6
    for iface in ("wsgi", "asgi"):
        grid = [(0.06, 0.0, 0.02, 0.0), (0.0, 0.05, 0.02, 0.0), (0.03, 0.03, 0.01, 0.0), (0.0, 0.0, 0.5, 0.0),
                # a reader that stalls once, for longer than a second (whatever the ping interval), with events ready
                (0.0, 0.0, 60, 1.4), (0.0, 0.0, 0.3, 1.4)]
        if tier == "thorough":
            grid += [(0.0, 0.0, 60, 3.3), (0.0, 0.0, 0.5, 5.5)]
        for reader_delay, producer_delay, ping, stall in grid:
            label = "slow %s reader=%.2fs producer=%.2fs ping=%.2fs" % (iface, reader_delay, producer_delay, ping)
            if stall:
                label += " stall=%.1fs" % stall
            got, err = [], []

            def run_wsgi_case():
                def producer():
                    for i in range(n):
                        if producer_delay:
                            time.sleep(producer_delay)
                        yield {"data": "event %d" % i}

                resp = wsgi_responses.SendEventResponse(producer(), ping_interval=ping)
                body = resp({"REQUEST_METHOD": "GET"}, lambda status, headers, exc_info=None: None)
                try:
                    for chunk in body:
                        got.append(chunk)
                        if reader_delay:
                            time.sleep(reader_delay)
                        if stall and len(got) == 1:
                            time.sleep(stall)
                finally:
                    if hasattr(body, "close"):
                        body.close()

            def run_asgi_case():
                async def main():
                    async def producer():
                        for i in range(n):
                            if producer_delay:
                                await asyncio.sleep(producer_delay)
                            yield {"data": "event %d" % i}

                    async def receive():
                        await asyncio.Event().wait()

                    async def send(msg):
                        if msg["type"] == "http.response.body" and msg.get("body"):
                            got.append(msg["body"])
                            if reader_delay:
                                await asyncio.sleep(reader_delay)
                            if stall and len(got) == 1:
                                await asyncio.sleep(stall)

                    resp = asgi_responses.SendEventResponse(producer(), ping_interval=ping)
                    await asyncio.wait_for(resp({"type": "http", "method": "GET", "headers": []}, receive, send), 20)

                asyncio.run(main())

            def target():
                try:
                    (run_wsgi_case if iface == "wsgi" else run_asgi_case)()
                except BaseException as exc:  # noqa
                    err.append(exc_name(exc))

            t = threading.Thread(target=target, daemon=True)
            t.start()
            t.join(30)
            runs += 1
            if t.is_alive():
                violations.append({"line": label, "out": "hang", "why": "the event stream did not end within 30 s"})
                continue
            text = b"".join(got).decode("utf-8", "replace")
            datas = [r[3] for r in whatwg_parse(text)]
            want = ["event %d" % i for i in range(n)]
            if err or datas != want:
                violations.append({"line": label, "out": "%s %s" % (err, datas),
                                   "why": "a %s: the client received %s%s, the producer yielded %s"
                                          % (label, datas, (" and the stream raised %s" % err[0]) if err else "", want)})
    # one response object over a re-iterable source (a list; on ASGI an object whose __aiter__ starts afresh) answering
    # three requests in turn: every client receives every event
    source = [{"data": "event %d" % i} for i in range(4)]
    want = ["event %d" % i for i in range(4)]

    class _Again:
        def __aiter__(self):
            async def gen():
                for ev in source:
                    yield dict(ev)
            return gen()

    for iface in ("wsgi", "asgi"):
        try:
            if iface == "wsgi":
                resp = wsgi_responses.SendEventResponse([dict(e) for e in source], ping_interval=60)
            else:
                resp = asgi_responses.SendEventResponse(_Again(), ping_interval=60)
            for turn in range(3):
                got = []
                if iface == "wsgi":
                    body = resp({"REQUEST_METHOD": "GET"}, lambda status, headers, exc_info=None: None)
                    try:
                        for chunk in body:
                            got.append(chunk)
                    finally:
                        if hasattr(body, "close"):
                            body.close()
                else:
                    async def main():
                        async def receive():
                            await asyncio.Event().wait()

                        async def send(msg):
                            if msg["type"] == "http.response.body" and msg.get("body"):
                                got.append(msg["body"])

                        await asyncio.wait_for(resp({"type": "http", "method": "GET", "headers": []}, receive, send), 20)

                    asyncio.run(main())
                runs += 1
                datas = [r[3] for r in whatwg_parse(b"".join(got).decode("utf-8", "replace"))]
                if datas != want:
                    violations.append({"line": "reused %s response, request %d" % (iface, turn + 1), "out": str(datas),
                                       "why": "request %d to one %s SendEventResponse over a re-iterable source: the client "
                                              "received %s, the source yields %s" % (turn + 1, iface.upper(), datas, want)})
                    break
        except BaseException as exc:  # noqa
            violations.append({"line": "reused %s response" % iface, "out": exc_name(exc),
                               "why": "a reused SendEventResponse raised %s" % exc_name(exc)})
    return {"violations": violations, "real_time_streams": runs}


def cases(rng, tier):
    yield from corpus_lines(PROPERTY)
    thorough = tier == "thorough"
    # --- exhaustive small domain: data over the critical alphabet, every subset and order of the other keys
    crit = ["\n", "\r", "\x0b", "\x0c", "\x1c", "\x1d", "\x1e", "\x85", "\u2028", "\u2029", " ", ":", "a"]
    maxlen = 4 if thorough else 3
    datas = [""]
    frontier = [""]
    for _ in range(maxlen):
        frontier = [p + c for p in frontier for c in crit]
        datas += frontier
    for d in datas:
        yield mk_sse("utf-8", {"data": d})
    import itertools

    values = {"event": ["", "msg", " x", ":y"], "id": ["", "7", "a b"], "retry": [0, 15000]}
    for r in range(0, 4):
        for keys in itertools.permutations(["event", "id", "retry", "data"], r):
            for pick in range(2):
                ev = {}
                for k in keys:
                    ev[k] = "l1\nl2\r\n" if k == "data" else values[k][(pick + len(keys)) % len(values[k])]
                yield mk_sse("utf-8", ev)
                for iface in ("wsgi", "asgi"):
                    yield mk_stream(iface, "utf-8", ["P", ev, ev, "P"] if pick else [ev])
    for iface in ("wsgi", "asgi"):
        for cs in CHARSETS:
            yield mk_stream(iface, cs, [])
            yield mk_stream(iface, cs, ["P"])
            yield mk_stream(iface, cs, [{}, "P", {"data": ""}, {"data": "\n"}, "P", "P", {"event": "e"}])
            tick = {"event": "tick", "data": "x\ny", "id": "7"}
            yield mk_stream(iface, cs, [tick, tick, tick])
            yield mk_stream(iface, cs, [tick, "P", {"data": "other"}, tick])
    # --- random single events
    n_ev = 60000 if thorough else 8000
    for _ in range(n_ev):
        cs = rng.choice(["utf-8", "utf-8", "utf-8", "latin-1", "ascii"])
        yield mk_sse(cs, rand_event(rng, alpha_for(cs)))
    # --- random streams on both interfaces
    n_st = 8000 if thorough else 1000
    for _ in range(n_st):
        cs = rng.choice(["utf-8", "utf-8", "latin-1", "ascii"])
        items = []
        for _ in range(rng.randrange(0, 7)):
            while rng.random() < 0.3:
                items.append("P")
            items.append(rand_event(rng, alpha_for(cs), outside=0.0))
        while rng.random() < 0.3:
            items.append("P")
        for iface in ("wsgi", "asgi"):
            yield mk_stream(iface, cs, items)
    # --- the client alone: raw streams (tie of the Lean parser to the Python parser)
    toks = ["\n", "\r", "\r\n", ":", " ", "data", "event", "id", "retry", "data: ", "id: ", "retry: ", "event: ",
            "x", "1", "23", "\x00", "\ufeff", ": ping", "\u2028", "-", "datax", "\n\n"]
    n_raw = 40000 if thorough else 6000
    for _ in range(n_raw):
        s = "".join(rng.choice(toks) for _ in range(rng.randrange(0, 14)))
        yield "sse_parse " + enc(s)
    for _ in range(n_raw // 4):
        ev = rand_event(rng, ALPHA, outside=0.3)
        s = build_text(ev)
        chars = list(s)
        for _ in range(rng.randrange(0, 3)):
            pos = rng.randrange(0, len(chars) + 1)
            if rng.random() < 0.5 and chars:
                del chars[min(pos, len(chars) - 1)]
            else:
                chars.insert(pos, rng.choice(["\n", "\r", ":", " ", "\ufeff", "x"]))
        yield "sse_parse " + enc("".join(chars) + rng.choice(["", "\n", "data: z\n\n"]))


def build_text(ev):
    """a plausible block written by the harness (NOT the code under test), only to seed parser inputs"""
    lines = []
    for k, v in ev.items():
        if k == "data":
            lines += ["data: " + l for l in v.split("\n")]
        else:
            lines.append("%s: %s" % (k, v))
    return "\n".join(lines) + "\n\n"
