"""C12 — untrusted input never escapes as a non-HTTP error.

One op line = one request against one public entry point on one interface:

    c12 <entry> <iface> <facts> <mode> <path> <query> <headers> <body>

* <entry>   headers accepted_types accepts content_type content_length cookies date referrer url query_params
            client body json form parse_range file router subpaths hosts files pages
* <iface>   w (WSGI) | a (ASGI)
* <facts>   `k=v;k=v;…` (`-` = none): what the STANDARD LIBRARY does on this input — the exception class each
            stdlib call raises when it is fed the argument the entry point derives from the request — plus the
            branch facts of the input (content type, header present, …).  Computed by `facts()` below by
            calling the stdlib functions DIRECTLY (never through baize's try/except); this is the only part of
            the line the Lean exception-flow model reads.  `impl` recomputes and checks it.
* <mode>    n | c (the body stream was consumed before) | d (ASGI: the client disconnects before the body is
            complete) | q (WSGI: the server omits QUERY_STRING) | p (static: os.stat answers EACCES below
            root/private, i.e. a directory the server process may not search)
* <path>    text: PATH_INFO / scope["path"] exactly as the gateway hands it over (parse_range: the file size)
* <query>   text: QUERY_STRING; ASGI: its Latin-1 (else UTF-8) bytes
* <headers> `;`-joined `<name cps>:<value cps>`; the value is header TEXT.  WSGI: put into the environ verbatim
            (also beyond Latin-1: a gateway / test client that does not decode with Latin-1); ASGI: encoded
            with Latin-1, or UTF-8 when it has a character beyond Latin-1 (what is on the wire).
            pseudo-headers `x-remote-port` (REMOTE_PORT, server-supplied) for `client`
* <body>    bytes, run-length coded (`v*n`)

Output: `ok` | `none` | `resp` | `http <status>` | `disconnect` | `consumed` | `crash <Class>` — plus
`undeclared <kind>:<Class>` on the model side when a stdlib call raised outside its declared raise-set.
"""
import asyncio
import errno as _errno
import hashlib
import io
import json as _json
import os
import re
import uuid as _uuid
from datetime import date as _date
from decimal import Decimal as _Decimal
from email.utils import formatdate, parsedate_to_datetime
from http import cookies as _http_cookies
from urllib.parse import parse_qsl, quote, urlsplit

from baize.exceptions import HTTPException
from baize.utils import parse_header

from .common import corpus_lines

PROPERTY = "C12"
LEAN_MODULES = ["BaizeVerif.Props.C12"]
MODEL_MODULES = ["BaizeVerif.Model.Errors"]
DRIVER_OPS = {"c12": "Errors.run", "c12decl": "Errors.runDeclared"}
THEOREMS = [
    "Baize.Errors.accessors_never_crash",
    "Baize.Errors.url_and_query_never_crash",
    "Baize.Errors.client_never_crashes_partial",
    "Baize.Errors.client_server_port_witness",
    "Baize.Errors.body_never_crashes",
    "Baize.Errors.json_never_crashes",
    "Baize.Errors.form_never_crashes",
    "Baize.Errors.parseStream_safe",
    "Baize.Errors.range_never_crashes",
    "Baize.Errors.routing_never_crashes",
    "Baize.Errors.files_never_crash_partial",
    "Baize.Errors.pages_never_crash_partial",
    "Baize.Errors.static_permission_witness",
    "Baize.Errors.pages_surrogate_witness",
    "Baize.Errors.entry_points_never_crash_partial",
    "Baize.Errors.benign_good",
    "Baize.Errors.source_pinned",
    "Baize.Errors.other_callees_pinned",
]
GEN_MODULES = ["c12"]
MANIFEST = {
    "technique": "Lean 4 proof (exception-flow model: every entry point a program over stdlib calls with declared "
                 "raise-sets, handler chains generated from the source) + differential correspondence of outcome "
                 "kinds + raise-set validation by sampling",
    "text": "Lean theorems over an executable exception-flow model of every public entry point (request accessors, "
            "body/json/form on both interfaces, parse_range and the file response, Router/Subpaths/Hosts, Files/Pages): "
            "each standard-library call is a parameter with a declared raise-set, the try/except structure around "
            "each call site is regenerated from the sources with ast on every run, and for every behaviour inside "
            "the declared raise-sets (every sequence of multipart parse steps included) the outcome is a value / "
            "response, an HTTPException with a 4xx status or one of the two documented errors — never another "
            "exception.  Tied to /repo by the generated handler chains (a removed or narrowed except clause makes a "
            "`decide` fail), by an outcome-kind correspondence on grammar-aware mutations of header values, paths, "
            "query strings and bodies run through every entry point on both interfaces, and by feeding the same "
            "inputs to the stdlib functions directly (an exception class outside a declared raise-set breaks the "
            "correspondence).  The oracle: exception class in {HTTPException 4xx, ClientDisconnect, "
            "RuntimeError('Stream consumed')} or a normal return.",
    "note": "Trusted: Lean kernel (propext, Classical.choice, Quot.sound only), tools/gen/c12.py, the harness, and "
            "above all the DECLARED RAISE-SETS of the stdlib functions (validated by sampling, not proved): the "
            "theorems are exactly as strong as they are.  Partial: Files/Pages under the hypothesis that os.stat does "
            "not answer EACCES; Pages under the hypothesis that the redirect target has no lone surrogate.",
    "design": "C12",
}
CORRESPONDENCE = ("Baize.Errors.entry (outcome kind from the stdlib behaviour)  vs  the real accessor / app of "
                  "baize.{wsgi,asgi} run on the same request; the stdlib behaviour is observed by calling the stdlib "
                  "functions directly on the same input")
RULE = ("corpus of past failures; every entry point x both interfaces x a library of valid and hostile header "
        "values / charsets / boundaries / paths / queries / bodies (exhaustive over the library); then random "
        "grammar-aware mutations (truncation, bit flips, invalid UTF-8, NUL, non-Latin-1, '%'-sequences, 5000-digit "
        "numbers, deep JSON nesting, malformed part headers).  non-trivial = a stdlib call raised, or the outcome is "
        "not a plain value; distinct = distinct op line")
TRUSTED = [
    "declared raise-sets of int, bytes.decode, str.encode, json.loads, parsedate_to_datetime, datetime.timestamp, "
    "urlsplit, parse_qsl, Decimal, UUID, date, os.stat, quote (Model/Errors.lean `declared`): validated on every "
    "generated input, not proved",
    "harness/c12.py `facts`: the argument each stdlib call receives is re-derived from the request "
    "(baize.utils.parse_header is used for the Content-Type parameters)",
    "the class hierarchy of the running interpreter (Gen.Errors.ancestors)",
]
ASSUMPTIONS = [
    "Python 3.12 (/venv): int digit limit 4300, recursion limit 1000, 64-bit time_t",
    "server-supplied values are well-formed: REMOTE_PORT / SERVER_PORT numeric, a known url scheme, the required "
    "environ / scope keys present, WSGI PATH_INFO and QUERY_STRING Latin-1 text (PEP 3333), ASGI scope['path'] "
    "text (the surrogate case is a known finding)",
    "the served tree has no symbolic-link loops and no file names with control characters; no MemoryError",
    "handle_404 is not configured (the 404 is raised); max_form_memory_size is None (request.form's default)",
]
PARTIAL = ("the theorems are relative to the declared raise-sets of the standard library (validated by sampling, not "
           "proved).  files_never_crash_partial / pages_never_crash_partial: under the hypothesis that os.stat does not "
           "raise PermissionError (known finding static-permission-denied); pages_never_crash_partial also needs the "
           "redirect target to be encodable (known finding pages-redirect-unencodable-path, shared with C07); "
           "client_never_crashes_partial: REMOTE_PORT is server-supplied")
OP_TIMEOUT = 60

ENTRIES = ["headers", "accepted_types", "accepts", "content_type", "content_length", "cookies", "date", "referrer",
           "url", "query_params", "client", "body", "json", "form", "parse_range", "file", "router", "subpaths",
           "hosts", "files", "pages"]

# --------------------------------------------------------------------------- wire helpers


def enc_rle(b):
    """bytes / text -> `v,v*n,…` over byte values / code points ('-' = empty)"""
    vals = list(b) if isinstance(b, (bytes, bytearray)) else [ord(c) for c in b]
    if not vals:
        return "-"
    out = []
    i, n = 0, len(vals)
    while i < n:
        j = i
        while j < n and vals[j] == vals[i]:
            j += 1
        out.append(str(vals[i]) if j - i == 1 else "%d*%d" % (vals[i], j - i))
        i = j
    return ",".join(out)


def dec_rle_values(tok):
    if tok in ("-", ""):
        return []
    out = []
    for part in tok.split(","):
        if "*" in part:
            v, n = part.split("*")
            out.extend([int(v)] * int(n))
        else:
            out.append(int(part))
    return out


def dec_rle_text(tok):
    return "".join(map(chr, dec_rle_values(tok)))


def dec_rle(tok):
    return bytes(dec_rle_values(tok))


def enc_headers(headers):
    return ";".join("%s:%s" % (enc_rle(k), enc_rle(v)) for k, v in headers) if headers else "-"


def dec_headers(tok):
    if tok in ("-", ""):
        return []
    out = []
    for item in tok.split(";"):
        k, v = item.split(":")
        out.append((dec_rle_text(k), dec_rle_text(v)))
    return out


def wire_value(iface, v):
    """the header text the application sees"""
    if iface == "w":
        return v
    try:
        v.encode("latin-1")
        return v
    except UnicodeEncodeError:
        return v.encode("utf-8", "surrogatepass").decode("latin-1")


def query_bytes(q):
    try:
        return q.encode("latin-1")
    except UnicodeEncodeError:
        return q.encode("utf-8", "surrogatepass")


def mk(entry, iface, mode="n", path="/", query="", headers=(), body=b""):
    headers = list(headers)
    f = facts(entry, iface, mode, path, query, headers, body)
    return "c12 %s %s %s %s %s %s %s %s" % (entry, iface, facts_token(f), mode, enc_rle(path), enc_rle(query),
                                            enc_headers(headers), enc_rle(body))


def parse_line(line):
    _, entry, iface, ftok, mode, path, query, headers, body = line.split(" ")
    return entry, iface, ftok, mode, dec_rle_text(path), dec_rle_text(query), dec_headers(headers), dec_rle(body)


def facts_token(f):
    items = ["%s=%s" % (k, v) for k, v in f.items() if v not in ("", None)]
    return ";".join(items) if items else "-"


# --------------------------------------------------------------------------- the fixed applications

WORLD = "/tmp/baize-verif-c12"
ROOT = os.path.join(WORLD, "root")
SERVED_FILE = os.path.join(ROOT, "file.txt")
FILE_CONTENT = b"0123456789abcdefghijklmnopqrstuvwxyz\n" * 3


def ensure_world():
    if os.path.exists(os.path.join(WORLD, ".ready")):
        return
    for d in ("root/dir", "root/private"):
        os.makedirs(os.path.join(WORLD, d), exist_ok=True)
    files = {"root/file.txt": FILE_CONTENT, "root/page.html": b"<p>page</p>", "root/dir/index.html": b"<p>index</p>",
             "root/blob": b"\x00\x01\x02", "root/private/secret.txt": b"secret"}
    for rel, content in files.items():
        with open(os.path.join(WORLD, rel), "wb") as f:
            f.write(content)
    past = 1600000000
    for base, dirs, names in os.walk(WORLD):
        for n in names:
            os.utime(os.path.join(base, n), (past, past))
    open(os.path.join(WORLD, ".ready"), "w").close()


ROUTES = [("int", "/i/{n:int}", r"/i/(?P<n>[0-9]+)"), ("decimal", "/d/{x:decimal}", r"/d/(?P<x>[0-9]+(\.[0-9]+)?)"),
          ("uuid", "/u/{id:uuid}", r"/u/(?P<id>[0-9a-f]{8}-[0-9a-f]{4}-[0-9a-f]{4}-[0-9a-f]{4}-[0-9a-f]{12})"),
          ("date", "/t/{day:date}", r"/t/(?P<day>[0-9]{4}-[0-9]{2}-[0-9]{2})"), ("str", "/s/{name}", r"/s/(?P<name>[^/]+)"),
          ("any", "/a/{rest:any}", r"/a/(?P<rest>(?s:.*))")]
_APPS = {}


def apps(iface):
    if iface in _APPS:
        return _APPS[iface]
    ensure_world()
    if iface == "w":
        from baize.wsgi import Files, Hosts, Pages, PlainTextResponse, Router, Subpaths
    else:
        from baize.asgi import Files, Hosts, Pages, PlainTextResponse, Router, Subpaths
    leaf = PlainTextResponse("leaf")
    d = {
        "router": Router(*[(pattern, leaf) for _, pattern, _ in ROUTES]),
        "subpaths": Subpaths(("/static", leaf), ("/api", leaf)),
        "hosts": Hosts((r"static\.example\.com", leaf), (r"(www\.)?example\.com(:\d+)?", leaf)),
        "files": Files(ROOT),
        "pages": Pages(ROOT),
    }
    _APPS[iface] = d
    return d


# --------------------------------------------------------------------------- stdlib, called directly


def probe(fn, *a, **kw):
    """class name of what the stdlib function raises on this input ('' = it returned)"""
    try:
        fn(*a, **kw)
    except RecursionError:
        return "RecursionError"
    except Exception as exc:  # noqa
        return type(exc).__name__
    return ""


def hget(headers, iface, name, default=None):
    """baize.datastructures.Headers semantics: lower-cased names, duplicates joined with ', '"""
    vals = [wire_value(iface, v) for k, v in headers if k.lower() == name]
    if not vals:
        return default
    return ", ".join(vals)


def built_url(iface, path, query, headers):
    """the text URL.__init__ hands to urlsplit (scheme http, server ('testserver', 80), empty SCRIPT_NAME)"""
    def pe(text, unsafe):
        return "".join("%%%02X" % ord(c) if c in unsafe else c for c in text)

    if iface == "w":
        p = path.encode("latin1").decode("utf8", "replace")
        qb = query.encode("latin-1")
    else:
        p = path
        qb = query_bytes(query)
    host = hget(headers, iface, "host")
    p = pe(p, "?#\t\r\n")
    url = "http://%s%s" % (host, p) if host is not None else "http://testserver%s" % p
    if qb:
        url = "%s?%s" % (url, pe(qb.decode("utf8", "replace"), "#\t\r\n"))
    return url


def url_facts(f, iface, path, query, headers):
    if iface == "w":
        f["path_enc"] = probe(path.encode, "latin1")
        if f["path_enc"]:
            return
        f["query_enc"] = probe(query.encode, "latin-1")
        if f["query_enc"]:
            return
    f["urlsplit"] = probe(urlsplit, built_url(iface, path, query, headers))


BLANK_LINE_RE = re.compile(b"(?:\r\n\r\n|\r\r|\n\n)", re.MULTILINE)
CONT_RE = re.compile(b"(?:\r\n|\n|\r)[ \t]", re.MULTILINE)
MAX_PARTS = 324


def decode_lenient(b, charset):
    try:
        return b.decode(charset)
    except Exception:  # noqa
        return b.decode("latin-1")


def mp_steps(body, boundary, charset):
    """the decode calls and error points the multipart parse of the WHOLE body goes through (parsing is chunking
    independent, C01), written as a one-pass parser over the complete body"""
    lb = b"(?:\r\n|\n|\r)"
    pre = re.compile(rb"%s?--%s(--[^\S\n\r]*%s?|[^\S\n\r]*%s)" % (lb, re.escape(boundary), lb, lb), re.MULTILINE)
    bre = re.compile(rb"%s--%s(--[^\S\n\r]*%s?|[^\S\n\r]*%s)" % (lb, re.escape(boundary), lb, lb), re.MULTILINE)
    steps = []
    m = pre.search(body)
    if m is None or m.group(1).startswith(b"--"):
        return steps
    pos = m.end()
    parts = 0
    while True:
        bm = BLANK_LINE_RE.search(body, pos)
        if bm is None:
            return steps
        block = CONT_RE.sub(b" ", body[pos:bm.start()])
        pos = bm.end()
        hdrs = {}
        for line in block.splitlines():
            line = line.strip()
            if line != b"":
                steps.append("hdr:" + (probe(line.decode, charset) or "ok"))
                name, colon, value = decode_lenient(line, charset).partition(":")
                if not colon:
                    steps.append("nocolon")
                    return steps
                key = name.strip().lower()
                hdrs[key] = "%s, %s" % (hdrs[key], value.strip()) if key in hdrs else value.strip()
        if "content-disposition" not in hdrs:
            steps.append("nocd")
            return steps
        is_file = parse_header(hdrs["content-disposition"])[1].get("filename") is not None
        dm = bre.search(body, pos)
        if dm is None:
            return steps
        data = body[pos:dm.start()]
        pos = dm.end()
        if not is_file:
            steps.append("fld:" + (probe(data.decode, charset) or "ok"))
        parts += 1
        if parts > MAX_PARTS:
            steps.append("toomany")
            return steps
        if dm.group(1).startswith(b"--"):
            return steps


def range_facts(f, text, size):
    f["unpack"] = "" if "=" in text else "ValueError"
    if f["unpack"]:
        return
    unit, spec = text.split("=", 1)
    f["unit_bytes"] = "1" if unit == "bytes" else ""
    if not f["unit_bytes"]:
        return
    ranges = []
    for a, b in re.findall(r"(\d*)-(\d*)", spec):
        if (a, b) == ("", ""):
            continue
        if a:
            if probe(int, a):
                f["int0"] = probe(int, a)
                return
            start = int(a)
        else:
            if probe(int, b):
                f["int1"] = probe(int, b)
                return
            start = size - int(b)
        if a and b:
            if probe(int, b):
                f["int3"] = probe(int, b)
                return
            end = int(b) + 1 if int(b) < size else size
        else:
            end = size
        ranges.append((start, end))
    if not ranges:
        f["no_ranges"] = "1"
    elif any(not (0 <= s < size) for s, _ in ranges):
        f["unsat"] = "1"
    elif any(s >= e for s, e in ranges):
        f["inverted"] = "1"


def file_facts(f, iface, headers, st):
    rng = hget(headers, iface, "range") if iface == "w" else _first(headers, iface, "range")
    ifr = hget(headers, iface, "if-range") if iface == "w" else _first(headers, iface, "if-range")
    f["has_range"] = "1" if rng is not None else ""
    if rng is None:
        return
    if ifr is not None:
        etag = '"%s"' % hashlib.sha1(("%s-%s" % (st.st_mtime, st.st_size)).encode("ascii")).hexdigest()
        if not (ifr == etag or ifr == formatdate(st.st_mtime, usegmt=True)):
            f["ifrange_mismatch"] = "1"
            return
    range_facts(f, rng, st.st_size)


def _first(headers, iface, name):
    """ASGI apps scan scope['headers'] themselves: the LAST occurrence wins for files, the first non-… — the
    generators never repeat a header, so there is exactly one candidate"""
    vals = [wire_value(iface, v) for k, v in headers if k.lower() == name]
    return vals[-1] if vals else None


PRIVATE = os.path.join(ROOT, "private")


def stat_probe(path, mode):
    """(fact value, errno name, kind) of os.stat(path); mode p: EACCES at and below root/private"""
    if mode == "p" and (path == PRIVATE or path.startswith(PRIVATE + "/")) and "\x00" not in path:
        return "PermissionError", "EACCES", ""
    try:
        st = os.stat(path)
    except OSError as exc:
        return type(exc).__name__, _errno.errorcode.get(exc.errno, str(exc.errno)), ""
    except Exception as exc:  # noqa
        return type(exc).__name__, "", ""
    import stat as _stat
    kind = "file" if _stat.S_ISREG(st.st_mode) else ("dir" if _stat.S_ISDIR(st.st_mode) else "other")
    return "", "", kind


def static_facts(f, entry, iface, mode, path, query, headers):
    ensure_world()
    if iface == "w":
        path = path.encode("latin-1").decode("utf-8", "surrogateescape")
    ab = os.path.abspath(os.path.join(ROOT, os.path.join(*path.split("/"))))
    if path.endswith("/"):
        ab += "/"
    rel = os.path.relpath(ab, ROOT)
    if rel == ".." or rel.startswith("../"):
        f["escapes"] = "1"
        return
    if entry == "pages" and ab.endswith("/"):
        ab += "index.html"
    cls, en, kind = stat_probe(ab, mode)
    f["st1"], f["st1.errno"], f["st1kind"] = cls, en, kind
    target, tkind = (ab, kind) if not cls else (None, "")
    handled = cls in ("FileNotFoundError", "NotADirectoryError", "ValueError", "UnicodeEncodeError") or \
        (cls == "OSError" and en == "ENAMETOOLONG")
    if entry == "pages" and cls and handled and not ab.endswith(".html") and ab != ROOT:
        f["try_html"] = "1"
        cls2, en2, kind2 = stat_probe(ab + ".html", mode)
        f["st2"], f["st2.errno"], f["st2kind"] = cls2, en2, kind2
        if not cls2:
            target, tkind = ab + ".html", kind2
    if target is None:
        return
    if tkind == "file":
        st = os.stat(target)
        inm = hget(headers, iface, "if-none-match", "") if iface == "w" else (_first(headers, iface, "if-none-match") or "")
        ims = hget(headers, iface, "if-modified-since", "") if iface == "w" else (_first(headers, iface, "if-modified-since") or "")
        not_modified = False
        if inm:
            f["has_inm"] = "1"
            etag = hashlib.sha1(("%s-%s" % (st.st_mtime, st.st_size)).encode("ascii")).hexdigest()
            if inm == "*":
                not_modified = True
            for item in inm.split(","):
                item = item.strip()
                if item.startswith("W/"):
                    item = item[2:]
                if etag == item.strip().strip('"'):
                    not_modified = True
        else:
            f["has_ims"] = "1" if ims else ""
            if ims:
                f["ims_parse"] = probe(parsedate_to_datetime, ims)
                if not f["ims_parse"]:
                    d = parsedate_to_datetime(ims)
                    f["ims_ts"] = probe(d.timestamp)
                    if not f["ims_ts"]:
                        not_modified = int(st.st_ctime) <= int(d.timestamp())
        if not_modified:
            f["not_modified"] = "1"
        else:
            file_facts(f, iface, headers, st)
    elif tkind == "dir" and entry == "pages":
        url_facts(f, iface, _pages_url_path(iface, path), query, headers)
        if not (f.get("path_enc") or f.get("query_enc") or f.get("urlsplit")):
            u = urlsplit(built_url(iface, _pages_url_path(iface, path), query, headers))
            target_url = u._replace(scheme="", path=u.path + "/").geturl()
            f["quote"] = probe(quote, target_url, safe="/#%[]=:;$&()+,!?*@'~")


def _pages_url_path(iface, path):
    """the PATH_INFO text again (static_facts decoded it for the file system)"""
    if iface == "w":
        return path.encode("utf-8", "surrogateescape").decode("latin-1")
    return path


def route_of(path):
    for name, _, rx in ROUTES:
        m = re.fullmatch(rx, path)
        if m:
            return name, m
    return "", None


def facts(entry, iface, mode, path, query, headers, body):
    f = {}
    if mode in ("c", "d"):
        f["mode"] = mode
    if entry == "content_length":
        f["te_chunked"] = "1" if hget(headers, iface, "transfer-encoding", "") == "chunked" else ""
        v = hget(headers, iface, "content-length")
        f["has_cl"] = "1" if v is not None else ""
        if v is not None and not f["te_chunked"]:
            f["int"] = probe(int, v)
    elif entry == "cookies":
        for chunk in hget(headers, iface, "cookie", "").split(";"):
            if not chunk:
                continue
            val = chunk.split("=", 1)[1] if "=" in chunk else chunk
            r = probe(_http_cookies._unquote, val.strip())
            if r:
                f["unquote"] = r
                break
    elif entry == "date":
        v = hget(headers, iface, "date")
        f["has_date"] = "1" if v is not None else ""
        if v is not None:
            f["parsedate"] = probe(parsedate_to_datetime, v)
    elif entry == "referrer":
        v = hget(headers, iface, "referer")
        f["has_ref"] = "1" if v is not None else ""
        if v is not None:
            f["urlsplit"] = probe(urlsplit, v)
    elif entry == "url":
        url_facts(f, iface, path, query, headers)
    elif entry == "query_params":
        qs = ("" if mode == "q" else query) if iface == "w" else query_bytes(query).decode("latin-1")
        f["qsl"] = probe(parse_qsl, qs, keep_blank_values=True)
    elif entry == "client":
        if iface == "w":
            port = hget(headers, "w", "x-remote-port")
            f["has_remote"] = "1" if port else ""
            if port:
                f["port"] = probe(int, port)
    elif entry in ("json", "form"):
        ctype, opts = parse_header(hget(headers, iface, "content-type", ""))
        if entry == "json":
            f["ct"] = "json" if ctype == "application/json" else "other"
            if f["ct"] == "json" and mode == "n":
                cs = opts.get("charset", "utf8")
                f["dec"] = probe(body.decode, cs)
                if not f["dec"]:
                    f["loads"] = probe(_json.loads, body.decode(cs))
        else:
            f["ct"] = "mp" if ctype == "multipart/form-data" else ("url" if ctype == "application/x-www-form-urlencoded" else "other")
            if f["ct"] == "mp":
                f["has_boundary"] = "1" if "boundary" in opts else ""
                if f["has_boundary"]:
                    f["benc"] = probe(opts["boundary"].encode, "latin-1")
                    if not f["benc"] and mode == "n":
                        steps = mp_steps(body, opts["boundary"].encode("latin-1"), opts.get("charset", "utf8"))
                        f["steps"] = ",".join(steps)
            elif f["ct"] == "url" and mode == "n":
                cs = opts.get("charset", "latin-1")
                f["dec"] = probe(body.decode, cs)
                if not f["dec"]:
                    f["qsl"] = probe(parse_qsl, body.decode(cs), keep_blank_values=True)
    elif entry == "parse_range":
        range_facts(f, hget(headers, "w", "range", ""), int(path))
    elif entry == "file":
        ensure_world()
        file_facts(f, iface, headers, os.stat(SERVED_FILE))
    elif entry == "router":
        name, m = route_of(path)
        f["route"] = name
        if name == "int":
            f["conv_int"] = probe(int, m.group("n"))
        elif name == "decimal":
            f["conv_decimal"] = probe(_Decimal, m.group("x"))
        elif name == "uuid":
            f["conv_uuid"] = probe(_uuid.UUID, m.group("id"))
        elif name == "date":
            v = m.group("day")
            f["conv_date"] = probe(lambda: _date(int(v[0:4]), int(v[5:7]), int(v[8:10])))
    elif entry in ("files", "pages"):
        static_facts(f, entry, iface, mode, path, query, headers)
    return f


# --------------------------------------------------------------------------- adapters


def environ(mode, path, query, headers, body):
    env = {"REQUEST_METHOD": "POST" if body else "GET", "SCRIPT_NAME": "", "PATH_INFO": path, "QUERY_STRING": query,
           "SERVER_NAME": "testserver", "SERVER_PORT": "80", "SERVER_PROTOCOL": "HTTP/1.1", "wsgi.url_scheme": "http",
           "wsgi.input": io.BytesIO(body), "wsgi.errors": io.StringIO(), "wsgi.version": (1, 0),
           "wsgi.multithread": False, "wsgi.multiprocess": False, "wsgi.run_once": False}
    if mode == "q":
        del env["QUERY_STRING"]
    for k, v in headers:
        kk = k.upper().replace("-", "_")
        if kk == "X_REMOTE_PORT":
            env["REMOTE_ADDR"] = "127.0.0.1"
            env["REMOTE_PORT"] = v
        elif kk in ("CONTENT_TYPE", "CONTENT_LENGTH"):
            env[kk] = v
        else:
            env["HTTP_" + kk] = v
    return env


def scope_of(path, query, headers, body):
    hs = []
    for k, v in headers:
        if k.lower() == "x-remote-port":
            continue
        hs.append((k.lower().encode("latin-1"), wire_value("a", v).encode("latin-1")))
    return {"type": "http", "asgi": {"version": "3.0"}, "http_version": "1.1", "method": "POST" if body else "GET",
            "scheme": "http", "path": path, "raw_path": None, "root_path": "", "query_string": query_bytes(query),
            "headers": hs, "client": ("127.0.0.1", 50000), "server": ("testserver", 80)}


def receiver(mode, body):
    half = len(body) // 2
    msgs = [{"type": "http.request", "body": body[:half], "more_body": True}]
    if mode == "d":
        msgs.append({"type": "http.disconnect"})
    else:
        msgs.append({"type": "http.request", "body": body[half:], "more_body": False})

    async def receive():
        if msgs:
            return msgs.pop(0)
        return {"type": "http.disconnect"}

    return receive


class _StatPatch:
    """mode p: the directory root/private may not be searched by the server process (as after chmod 000 for a
    non-root server); substitutes the module-level os.stat for the duration of one operation"""

    def __init__(self, mode):
        self.mode = mode

    def __enter__(self):
        if self.mode != "p":
            return
        self.real = os.stat
        real = self.real

        def fake(path, *a, **kw):
            p = os.fspath(path)
            if isinstance(p, str) and "\x00" not in p and (p == PRIVATE or p.startswith(PRIVATE + "/")):
                raise PermissionError(_errno.EACCES, "Permission denied", p)
            return real(path, *a, **kw)

        os.stat = fake

    def __exit__(self, *a):
        if self.mode == "p":
            os.stat = self.real


def value_kind(v):
    return "none" if v is None else "ok"


def run_wsgi(entry, mode, path, query, headers, body):
    from baize.wsgi import FileResponse, Request
    from baize.responses import FileResponseMixin

    if entry == "parse_range":
        FileResponseMixin.parse_range(hget(headers, "w", "range", ""), int(path))
        return "ok"
    env = environ(mode, path, query, headers, body)
    if entry in ("router", "subpaths", "hosts", "files", "pages", "file"):
        app = FileResponse(SERVED_FILE) if entry == "file" else apps("w")[entry]
        seen = []

        def start_response(status, hdrs, exc_info=None):
            seen.append(status)

        with _StatPatch(mode):
            for _ in app(env, start_response):
                pass
        return "resp"
    req = Request(env)
    if mode == "c":
        for _ in req.stream():
            pass
    if entry == "accepts":
        req.accepts("text/html")
        return "ok"
    if entry == "client":
        req.client
        return "ok"
    v = getattr(req, entry)
    if entry == "form":
        v.close()
    return value_kind(v)


def run_asgi(entry, mode, path, query, headers, body):
    from baize.asgi import FileResponse, Request

    scope = scope_of(path, query, headers, body)
    receive = receiver(mode, body)

    async def main():
        if entry in ("router", "subpaths", "hosts", "files", "pages", "file"):
            app = FileResponse(SERVED_FILE) if entry == "file" else apps("a")[entry]

            async def send(message):
                pass

            with _StatPatch(mode):
                await app(scope, receive, send)
            return "resp"
        req = Request(scope, receive)
        if mode == "c":
            async for _ in req.stream():
                pass
        if entry == "accepts":
            req.accepts("text/html")
            return "ok"
        if entry in ("body", "json", "form"):
            v = await getattr(req, entry)
            if entry == "form":
                await v.aclose()
            return value_kind(v)
        return value_kind(getattr(req, entry))

    return asyncio.run(main())


def canonical(exc):
    from baize.asgi.requests import ClientDisconnect

    if isinstance(exc, HTTPException):
        return "http %d" % exc.status_code
    if isinstance(exc, ClientDisconnect):
        return "disconnect"
    if type(exc) is RuntimeError and str(exc) == "Stream consumed":
        return "consumed"
    return "crash %s" % type(exc).__name__


def impl(line):
    entry, iface, ftok, mode, path, query, headers, body = parse_line(line)
    try:
        again = facts_token(facts(entry, iface, mode, path, query, headers, body))
    except Exception as exc:  # noqa
        return "facts-error %s" % type(exc).__name__
    if again != ftok:
        return "facts-mismatch %s" % again
    try:
        if entry == "parse_range" or iface == "w":
            return run_wsgi(entry, mode, path, query, headers, body)
        return run_asgi(entry, mode, path, query, headers, body)
    except RecursionError:
        return "crash RecursionError"
    except Exception as exc:  # noqa
        return canonical(exc)


# --------------------------------------------------------------------------- oracle


def server_supplied(line):
    """inputs outside the property's quantifier: values written by the gateway, not by the client"""
    entry, iface, _f, mode, path, query, headers, _b = parse_line(line)
    if entry == "client":
        return True
    return False


def oracle(line, out):
    """the property, stated on the implementation's outcome only"""
    if out in ("ok", "none", "resp", "disconnect", "consumed"):
        return None
    if out.startswith("http "):
        status = int(out[5:])
        return None if 400 <= status < 500 else "HTTPException with status %d (not 4xx)" % status
    if out.startswith("facts-"):
        return None     # a harness integrity problem: reported as a correspondence failure, not as a violation
    if server_supplied(line):
        return None     # REMOTE_PORT is written by the server
    entry, iface = line.split(" ")[1:3]
    return "%s/%s: a non-HTTP error leaves the entry point: %s" % (entry, "wsgi" if iface == "w" else "asgi", out)


def finding_permission(line, out):
    if not line.startswith("c12 "):
        return False
    entry, iface, _f, mode = line.split(" ")[1:5]
    return entry in ("files", "pages") and mode == "p" and out == "crash PermissionError"


def finding_surrogate_redirect(line, out):
    if not line.startswith("c12 "):
        return False
    entry, iface, _f, mode, path = line.split(" ")[1:6]
    return (entry == "pages" and iface == "a" and out == "crash UnicodeEncodeError"
            and any(0xD800 <= ord(c) <= 0xDFFF for c in dec_rle_text(path)))


def classify(line, out):
    entry, iface = line.split(" ")[1:3]
    return "%s/%s/%s" % (entry, iface, out.split(" ")[0] + (out[4:] if out.startswith("http") else ""))


def nontrivial(line, out):
    ftok = line.split(" ")[3]
    raised = any(v and v[0].isupper() for kv in ftok.split(";") if "=" in kv for v in [kv.split("=", 1)[1]])
    return raised or "Error" in ftok or out not in ("ok", "resp")


def describe(line):
    if line.startswith("c12decl "):
        return {"raise_set_validation": line.split(" ")[1]}
    entry, iface, ftok, mode, path, query, headers, body = parse_line(line)
    return {"entry": entry, "interface": "wsgi" if iface == "w" else "asgi", "mode": mode, "path": path, "query": query,
            "headers": headers, "body": (body[:200] + b"..." if len(body) > 200 else body).decode("latin-1"),
            "body_length": len(body), "stdlib_facts": ftok}


# --------------------------------------------------------------------------- generators

DIGITS5000 = "7" * 5000
CHARSETS = ["utf-8", "utf8", "UTF-8", "latin-1", "ascii", "utf-16", "utf-32", "utf-7", "utf-8-sig", "idna", "punycode",
            "undefined", "nonsense", "", "hex", "rot13", "base64", "a\x00b", "\u0663", "unicode_escape",
            "raw_unicode_escape", "cp037", "big5", "shift_jis", "utf_16_be", "x" * 300, "../x", "os.path", "mbcs",
            " utf-8 ", "\"utf-8\"", "utf-8;x=1", "UTF8\xe9"]
BOUNDARIES = ["B", None, "", "\u0663", "b\xe9", "\"B\"", "(", "x" * 200, "B B", "--", "\x00", "B;charset=undefined"]
JSON_BODIES = [b"{}", b'{"a": [1, 2, {"b": null}]}', b"", b"[", b'{"a":"\xff"}', b"\xff\xfe{\x00}\x00", b"[" * 100000,
               b"[" * 1200 + b"]" * 1200, b'{"a":' * 3000, b"7" * 5000, b"-" + b"7" * 4301, b"7" * 4300, b"1e999999",
               b"NaN", b"\xef\xbb\xbf{}", b'"\\ud800"', b'"\xed\xa0\x80"', b"\x00", b"{'a': 1}", b'{"a": 1}x',
               b"+AHs-+AH0-", b"xn--\xff.a..b", b"\\", b"\\N{", b"{}" + b" " * 70000]
URLENC_BODIES = [b"", b"a=1&b=2", b"a=\xff", b"%ff=%zz", b"&&==", b"a=%", b"a=1;b=2", b"\xff\xfe", b"a" * 70000,
                 b"=" * 2000, b"a=\xe2\x82", b"+AHs-", b"xn--\xff", b"\\", b"%u1234=%00",
                 # very many fields / separators (resource limits of the parsers)
                 b"a=1&" * 1200, b"&" * 5000, b"a=1;" * 1200, b"k=v&" * 20000]
DATES = ["Mon, 01 Jan 2024 00:00:00 GMT", "", "garbage", "1 Jan 99999999999999999999 00:00:00",
         "Mon, 32 Jan 2024 00:00:00 GMT", "Mon, 01 Jan 2024 25:00:00 GMT", "31 Dec 9999 23:59:59 -2359",
         "1 Jan 0001 00:00:00 +2359", "Thu, 01 Jan 1970 00:00:00 +9999", "Mon, 01 Jan 2024 00:00:00 -0000",
         "1 Jan 2024 00:00:999999999999", "1 Jan " + DIGITS5000, "\x00", "\u0663 Jan 2024 00:00:00",
         "Mon, 01 Jan 2024 00:00:00 +" + "9" * 50, "Sun, 06 Nov 1994 08:49:37 GMT", "Wed, 01 Jan 2020 00:00:00 GMT",
         "Fri, 01 Jan 2100 00:00:00 GMT", "Jan", ":", "1 1 1", "1 Jan 1 1:1:1 +1", "0 Jan 0000 00:00:00"]
URLS = ["http://example.com/a?b#c", "", "http://[x", "http://[::1", "//[", "http://a:b/", "http://a:99999999/",
        "http://\u2100/", "http://a\uff03b/", "[", "]", "http://[::1]x/", "http://[v1.x]/", "http://[1.2.3.4]/",
        "/relative", "x" * 70000, "http://\x00/", "ht\ttp://a\r\n/", "http://a@[b/", "http://\u0663/"]
HOSTS = ["example.com", "www.example.com:8080", "static.example.com", "", "[", "[::1]", "[::1", "a:b", "exa mple",
         "x/y?z#w", "\u2175", "a\x00", "[::1]x", "\u2100", "a\uff03b", "[v1.x]", "h" * 70000, "\u0663", "a@[b"]
CL_VALUES = ["0", "12", "abc", "\u0663", "-1", DIGITS5000, str(2 ** 63), str(2 ** 63 - 1), str(2 ** 64), "9" * 30,
             str(2 ** 31), str(2 ** 32), " 12 ", "1_0", "+5", "1e3", "\x00", "\u0661\u0662\u0663", "",
             "12, 12", "0x10", "\xb2"]
COOKIES = ["a=b", "", "a=b; c", "\"\\", "a=\"\\777\"", "a=\"\\9", "=", ";;=;", "a=\"\\" + "\\" * 2000, "a=" + "\"" * 9999,
           "\u0663=\u0663", "a=\"\\0\\1\\2\"", "a=\"\\400\"", "\x00=\x00", "a=b; " * 1500, "a=\"\\089\"", "a=\"\\389\\128\""]
ACCEPTS = ["text/html", "*/*", "", "text/html;q=", "*/*;" + "\"" * 999, ",,,", "a/b/c;d=\"", "/", ";", "text/*;q=0.\u0663",
           "\x00/\x00", "a" * 70000]
RANGES = ["bytes=0-9", "bytes=0-", "bytes=-5", "bytes=0-0,2-2", "bytes=5-1", "bytes=200-", "bytes=-0", "bytes=-",
          "bytes", "=", "", "items=0-1", "bytes=a-b", "bytes=0-" + DIGITS5000, "bytes=" + DIGITS5000 + "-",
          "bytes=-" + DIGITS5000, "bytes=\u0663-", "bytes=-\u0663", "bytes=1\u0663-", "bytes=0-9," * 400 + "1-2",
          "bytes=\xb2-", "bytes=0-9\x00", "bytes=0-4300" + "0" * 4300]
IF_RANGES = [None, "", "\"x\"", "garbage", "Wed, 01 Jan 2020 00:00:00 GMT", "\x00"]
ETAGS = ["*", "\"x\"", "W/\"x\"", "", ",", "\"" * 999, "\x00", "W/", "\u0663"]
PATHS = ["/", "", "/file.txt", "/dir", "/dir/", "/page", "/page.html", "/blob", "/nope", "/file.txt/x", "/\x00",
         "/" + "a" * 300, "/" + "a/" * 3000, "/\xff", "/..", "/../..", "/%00", "/dir/..", "/private/secret.txt",
         "/private", "/private/", "/dir/index.html/", "//", "/./file.txt", "/file.txt/", "/\xe2\x82", "/\xc3\xbc.txt"]
ROUTER_PATHS = ["/i/12", "/i/" + DIGITS5000, "/i/\u0663", "/i/1\u0663", "/d/1.5", "/d/1x2", "/d/1.", "/d/" + DIGITS5000,
                "/d/1\u06632", "/u/12345678-1234-1234-1234-123456789abc", "/u/12345678-1234-1234-1234-123456789abg",
                "/t/2024-02-29", "/t/2021-13-45", "/t/0000-01-01", "/t/2023-02-29", "/t/\u0662\u0660\u0662\u0664-01-01",
                "/s/x", "/s/", "/s/a/b", "/a/anything\n\x00", "/a/", "/zzz", "", "/", "/i/", "/i/1/2", "/t/9999-12-31"]
QUERIES = ["", "a=b", "%ff=%zz", "\xff", "&&==", "%", "%u1234", "a=1;b=2", "#", "[", "=%00", "a" * 70000, "a=\r\n",
           "?", "a=%e2%82", "a=1&" * 1200, "&" * 5000]


def multipart_body(boundary=b"B", parts=None):
    parts = parts if parts is not None else [(b'Content-Disposition: form-data; name="a"', b"x")]
    out = b""
    for hdr, data in parts:
        out += b"--" + boundary + b"\r\n" + hdr + b"\r\n\r\n" + data + b"\r\n"
    return out + b"--" + boundary + b"--\r\n"


CD = b'Content-Disposition: form-data; name="a"'
MP_BODIES = [
    multipart_body(), multipart_body(parts=[]), multipart_body(parts=[(b"nocolon", b"x")]),
    multipart_body(parts=[(b"X: y", b"x")]), multipart_body(parts=[(b"Content-Disposition: form-data", b"x")]),
    multipart_body(parts=[(b'Content-Disposition: form-data; filename="f"', b"\xff\x00")]),
    multipart_body(parts=[(b'Content-Disposition: form-data; name="\xff"', b"\xff\xfe")]),
    multipart_body(parts=[(CD + b"\r\nContent-Type: text/plain; charset=\xff", b"\xe2\x82")]),
    multipart_body(parts=[(CD + b"\r\n continued\r\n\tmore", b"x")]),
    multipart_body(parts=[(CD, b"x")] * 325), multipart_body(parts=[(CD, b"x")] * 324),
    multipart_body()[:20], multipart_body()[:-4], b"", b"--B", b"--B--", b"--B\r\n\r\n\r\n--B--",
    b"--B\r\n: novalue\r\n\r\nx\r\n--B--\r\n", b"--B\r\n" + CD + b"\r\n\r\n" + b"x" * 70000 + b"\r\n--B--\r\n",
    b"--B\n" + CD + b"\n\nxn--\xff.a..b\n--B--\n", b"--B\r" + CD + b"\r\rx\r--B--\r",
    b"preamble\r\n--B\r\n" + CD + b"\r\n\r\n+AHs-\r\n--B\r\n" + CD + b":\xff\r\n\r\ny\r\n--B--\r\nepilogue",
    b"--B\r\n" + b"A" * 5000 + b"\r\n\r\nx\r\n--B--\r\n", b"--B\r\n\x00\r\n\r\nx\r\n--B--\r\n",
    # extended parameters (RFC 5987 / 2231) with charset labels that name no text encoding, broken escapes
] + [b"--B\r\n" + CD + b"; " + ext + b"\r\n\r\nx\r\n--B--\r\n" for ext in (
    b"filename*=utf-9''%41", b"filename*=x-user-defined''a%FFb", b"filename*=hex''%41%42", b"filename*=UTF-8''%E2%82",
    b"filename*=''%", b"filename*=utf-8'en'%zz", b"filename*0*=utf-8''a; filename*1=b", b"name*=punycode''%41",
    b"filename*=\x00''%41", b"filename=\"a\"; filename*=idna''%2E%2E")
]

NOISE = ["\x00", "\xff", "%", "%zz", "\u0663", "\u2028", "\"", "\\", ";", "=", ",", " ", "\t", "[", "]", "(", DIGITS5000,
         "\r\n", "\ud800", "\udcff", "\x7f", "-", "+", "e", "9" * 20]


def mutate_text(rng, s, allow_surrogates=False):
    chars = list(s)
    for _ in range(rng.randrange(1, 4)):
        m = rng.random()
        pos = rng.randrange(len(chars) + 1)
        if m < 0.2 and chars:
            chars = chars[:pos]                                     # truncation
        elif m < 0.45 and chars:
            i = min(pos, len(chars) - 1)
            c = ord(chars[i]) ^ (1 << rng.randrange(8))             # bit flip
            chars[i] = chr(c)
        elif m < 0.8:
            chars[pos:pos] = list(rng.choice(NOISE))
        elif chars:
            del chars[min(pos, len(chars) - 1)]
    out = "".join(chars)
    if not allow_surrogates:
        out = "".join(c for c in out if not 0xD800 <= ord(c) <= 0xDFFF)
    return out


BYTE_NOISE = [b"\x00", b"\xff", b"\xfe\xff", b"\xe2\x82", b"\xed\xa0\x80", b"%", b"%zz", b"\r\n", b"\n", b"\r", b"--",
              b"--B", b":", b"\"", b"\\", b"[" * 1500, b"7" * 5000, b"{", b"}", b"=", b"&", b";", b"+", b"\x1b$B"]


def mutate_bytes(rng, b):
    data = bytearray(b)
    for _ in range(rng.randrange(1, 4)):
        m = rng.random()
        pos = rng.randrange(len(data) + 1)
        if m < 0.2 and data:
            del data[pos:]
        elif m < 0.45 and data:
            i = min(pos, len(data) - 1)
            data[i] ^= 1 << rng.randrange(8)
        elif m < 0.8:
            data[pos:pos] = rng.choice(BYTE_NOISE)
        elif data:
            del data[min(pos, len(data) - 1)]
    return bytes(data)


def ct_json(cs=None):
    return "application/json" if cs is None else "application/json; charset=%s" % cs


def ct_url(cs=None):
    return "application/x-www-form-urlencoded" if cs is None else "application/x-www-form-urlencoded; charset=%s" % cs


def ct_mp(boundary="B", cs=None):
    s = "multipart/form-data"
    if boundary is not None:
        s += "; boundary=%s" % boundary
    if cs is not None:
        s += "; charset=%s" % cs
    return s


def latin1(s):
    try:
        s.encode("latin-1")
        return True
    except UnicodeEncodeError:
        return False


def library(tier):
    """the exhaustive part: every entry point x interface x the value libraries"""
    for iface in ("w", "a"):
        for e in ("headers", "accepted_types", "accepts", "content_type"):
            for name, vals in (("accept", ACCEPTS), ("content-type", [ct_json(c) for c in CHARSETS[:12]] + ACCEPTS),
                               ("cookie", COOKIES[:4])):
                for v in vals:
                    yield mk(e, iface, headers=[(name, v)])
        for v in CL_VALUES:
            yield mk("content_length", iface, headers=[("content-length", v)])
            yield mk("content_length", iface, headers=[("content-length", v), ("transfer-encoding", "chunked")])
        yield mk("content_length", iface)
        for v in COOKIES:
            yield mk("cookies", iface, headers=[("cookie", v)])
        for v in DATES:
            yield mk("date", iface, headers=[("date", v)])
        yield mk("date", iface)
        for v in URLS + HOSTS:
            yield mk("referrer", iface, headers=[("referer", v)])
        yield mk("referrer", iface)
        for h in HOSTS + [None]:
            for p in ("/", "/a b", "/?#", "//[x", "/\r\n", "/\xff", "/\u0663" if iface == "a" else "/\xd9\xa3"):
                for q in ("", "a=b", "\xff", "#[", "%zz"):
                    yield mk("url", iface, path=p, query=q, headers=[("host", h)] if h is not None else [])
        for bad in ("/\u0663", "/\u20ac"):
            yield mk("url", "w", path=bad)              # a gateway that breaks PEP 3333: still a 400
            yield mk("url", "w", query=bad)
        for q in QUERIES:
            yield mk("query_params", iface, query=q)
        yield mk("query_params", "w", mode="q")
        for port in ("50000", "0", "", "abc", "-1", DIGITS5000):
            yield mk("client", iface, headers=[("x-remote-port", port)])
        yield mk("client", iface)
        # body machinery
        for mode in ("n", "c") + (("d",) if iface == "a" else ()):
            yield mk("body", iface, mode=mode, body=b"hello world")
            yield mk("json", iface, mode=mode, headers=[("content-type", ct_json())], body=b"{}")
            yield mk("form", iface, mode=mode, headers=[("content-type", ct_url())], body=b"a=1")
            yield mk("form", iface, mode=mode, headers=[("content-type", ct_mp())], body=multipart_body())
        for ct in ("text/plain", "", "application/json ", "APPLICATION/JSON", "application/jsonx", "\x00", ";", "\u0663"):
            yield mk("json", iface, headers=[("content-type", ct)], body=b"{}")
            yield mk("form", iface, headers=[("content-type", ct)], body=b"a=1")
        yield mk("json", iface, body=b"{}")
        yield mk("form", iface, body=b"a=1")
        # the body accessors under every announced length (absurd, negative, huge, non-numeric ones included)
        for v in CL_VALUES:
            yield mk("body", iface, headers=[("content-length", v)], body=b"hello world")
            yield mk("json", iface, headers=[("content-type", ct_json()), ("content-length", v)], body=b"{}")
            yield mk("form", iface, headers=[("content-type", ct_url()), ("content-length", v)], body=b"a=1")
            yield mk("form", iface, headers=[("content-type", ct_mp()), ("content-length", v)], body=multipart_body())
        for body in JSON_BODIES:
            yield mk("json", iface, headers=[("content-type", ct_json())], body=body)
        for cs in CHARSETS:
            for body in (b"{}", b'{"a":"\xff"}', b"xn--\xff.a..b", b"+AHs-+AH0-", b"\\", b"\xff\xfe{\x00}\x00"):
                yield mk("json", iface, headers=[("content-type", ct_json(cs))], body=body)
            for body in (b"a=1", b"a=\xff", b"xn--\xff.a..b", b"\\N{"):
                yield mk("form", iface, headers=[("content-type", ct_url(cs))], body=body)
            for body in MP_BODIES[:3] + MP_BODIES[5:8] + MP_BODIES[19:22]:
                yield mk("form", iface, headers=[("content-type", ct_mp("B", cs))], body=body)
        for body in URLENC_BODIES:
            yield mk("form", iface, headers=[("content-type", ct_url())], body=body)
            yield mk("form", iface, headers=[("content-type", ct_url("utf8"))], body=body)
        for b in BOUNDARIES:
            bb = b.encode("latin-1") if (b and latin1(b)) else b"B"
            for body in (multipart_body(bb), multipart_body(bb, parts=[(b"nocolon", b"x")]), b""):
                yield mk("form", iface, headers=[("content-type", ct_mp(b))], body=body)
        for body in MP_BODIES:
            yield mk("form", iface, headers=[("content-type", ct_mp())], body=body)
        # range / file response
        for r in RANGES:
            for ifr in IF_RANGES:
                hs = [("range", r)] + ([("if-range", ifr)] if ifr is not None else [])
                yield mk("file", iface, headers=hs)
        yield mk("file", iface)
        # routing
        for p in ROUTER_PATHS:
            if iface == "a" or latin1(p):
                yield mk("router", iface, path=p)
        for p in ("/static", "/static/x", "/staticx", "/api/", "", "/", "/\x00", "/api\n"):
            yield mk("subpaths", iface, path=p)
        for h in HOSTS:
            yield mk("hosts", iface, headers=[("host", h)])
        yield mk("hosts", iface)
        # static files
        for app in ("files", "pages"):
            for p in PATHS:
                yield mk(app, iface, path=p)
                yield mk(app, iface, mode="p", path=p)
            for p in ("/file.txt", "/page", "/dir/"):
                for v in DATES:
                    yield mk(app, iface, path=p, headers=[("if-modified-since", v)])
                for v in ETAGS:
                    yield mk(app, iface, path=p, headers=[("if-none-match", v)])
                    yield mk(app, iface, path=p, headers=[("if-none-match", v), ("if-modified-since", DATES[3])])
                for r in RANGES[:14]:
                    yield mk(app, iface, path=p, headers=[("range", r)])
            for h in HOSTS:
                yield mk("pages", iface, path="/dir", headers=[("host", h)])
                yield mk("pages", iface, path="/dir", query="a=\xff#", headers=[("host", h)])
        for p in ("/\udcff/..", "/dir/\ud800/..", "/\udcff"):
            yield mk("pages", "a", path=p)
            yield mk("files", "a", path=p)
    for r in RANGES:
        for size in (0, 1, 10, 111):
            yield mk("parse_range", "w", path=str(size), headers=[("range", r)])


def random_cases(rng, n):
    for _ in range(n):
        iface = rng.choice("wa")
        k = rng.random()
        if k < 0.12:
            e = rng.choice(["content_length", "cookies", "date", "referrer", "accepted_types", "accepts", "content_type",
                            "headers"])
            name, lib = {"content_length": ("content-length", CL_VALUES), "cookies": ("cookie", COOKIES),
                         "date": ("date", DATES), "referrer": ("referer", URLS),
                         "accepted_types": ("accept", ACCEPTS), "accepts": ("accept", ACCEPTS),
                         "content_type": ("content-type", ACCEPTS), "headers": ("cookie", COOKIES)}[e]
            yield mk(e, iface, headers=[(name, mutate_text(rng, rng.choice(lib)))])
        elif k < 0.22:
            host = mutate_text(rng, rng.choice(HOSTS))
            path = mutate_text(rng, rng.choice(PATHS + ROUTER_PATHS))
            query = mutate_text(rng, rng.choice(QUERIES))
            if iface == "w" and rng.random() < 0.9:
                path = "".join(c for c in path if ord(c) < 256)
                query = "".join(c for c in query if ord(c) < 256)
            yield mk(rng.choice(["url", "query_params"]), iface, path=path, query=query,
                     headers=[("host", host)] if rng.random() < 0.8 else [])
        elif k < 0.40:
            cs = rng.choice(CHARSETS + [None] * 10)
            if cs is not None and rng.random() < 0.3:
                cs = mutate_text(rng, cs)
            body = rng.choice(JSON_BODIES[:6] + JSON_BODIES[8:24])
            yield mk("json", iface, headers=[("content-type", ct_json(cs))], body=mutate_bytes(rng, body))
        elif k < 0.50:
            cs = rng.choice(CHARSETS + [None] * 10)
            if cs is not None and rng.random() < 0.3:
                cs = mutate_text(rng, cs)
            body = rng.choice(URLENC_BODIES[:8] + URLENC_BODIES[10:])
            yield mk("form", iface, headers=[("content-type", ct_url(cs))], body=mutate_bytes(rng, body))
        elif k < 0.66:
            cs = rng.choice(CHARSETS + [None] * 20)
            b = rng.choice(["B"] * 6 + BOUNDARIES)
            bb = b.encode("latin-1") if (b and latin1(b)) else b"B"
            parts = []
            for _ in range(rng.randrange(0, 4)):
                hdr = rng.choice([CD, b'Content-Disposition: form-data; name="f"; filename="f.bin"', b"nocolon", b"X: y",
                                  CD + b"\r\nContent-Type: text/plain", b'Content-Disposition: form-data; name="\xff"'])
                parts.append((mutate_bytes(rng, hdr) if rng.random() < 0.4 else hdr,
                              rng.choice([b"x", b"\xff\xfe", b"xn--\xff.a..b", b"", b"line\r\nline", b"+AHs-"])))
            body = multipart_body(bb, parts)
            if rng.random() < 0.5:
                body = mutate_bytes(rng, body)
            ct = ct_mp(b, cs)
            if rng.random() < 0.2:
                ct = mutate_text(rng, ct)
            yield mk("form", iface, headers=[("content-type", ct)], body=body)
        elif k < 0.76:
            hs = [("range", mutate_text(rng, rng.choice(RANGES[:13])))]
            if rng.random() < 0.3:
                hs.append(("if-range", mutate_text(rng, rng.choice(IF_RANGES[1:]))))
            if rng.random() < 0.5:
                yield mk("file", iface, headers=hs)
            else:
                yield mk("parse_range", "w", path=str(rng.choice([0, 1, 10, 111, 10 ** 12])), headers=hs[:1])
        elif k < 0.86:
            p = mutate_text(rng, rng.choice(ROUTER_PATHS), allow_surrogates=False)
            if iface == "w":
                p = "".join(c for c in p if ord(c) < 256)
            e = rng.choice(["router", "router", "router", "subpaths", "hosts"])
            yield mk(e, iface, path=p, headers=[("host", mutate_text(rng, rng.choice(HOSTS)))])
        else:
            app = rng.choice(["files", "pages"])
            p = mutate_text(rng, rng.choice(PATHS[:12] + PATHS[18:]))
            if iface == "w":
                p = "".join(c for c in p if ord(c) < 256)
            hs = []
            r = rng.random()
            if r < 0.3:
                hs.append(("if-modified-since", mutate_text(rng, rng.choice(DATES))))
            elif r < 0.5:
                hs.append(("if-none-match", mutate_text(rng, rng.choice(ETAGS))))
            elif r < 0.7:
                hs.append(("range", mutate_text(rng, rng.choice(RANGES[:13]))))
            if rng.random() < 0.3:
                hs.append(("host", mutate_text(rng, rng.choice(HOSTS))))
            yield mk(app, iface, mode=rng.choice("nnnp"), path=p, headers=hs)


def corpus_cases():
    """corpus lines are stored without the facts field (`c12 <entry> <iface> ? <mode> …`): the stdlib behaviour
    is recomputed, so that a corpus line keeps its meaning when the interpreter changes"""
    for line in corpus_lines(PROPERTY):
        parts = line.split(" ")
        if parts[3] == "?":
            entry, iface, _q, mode, path, query, headers, body = parts[1:]
            yield mk(entry, iface, mode, dec_rle_text(path), dec_rle_text(query), dec_headers(headers), dec_rle(body))
        else:
            yield line


def cases(rng, tier):
    yield from corpus_cases()
    yield from library(tier)
    yield from random_cases(rng, 12000 if tier == "quick" else 150000)


# --------------------------------------------------------------------------- raise-set validation, directly


KINDS = ["int", "decodeCharset", "encodeLatin1", "jsonLoads", "parsedate", "timestamp", "urlsplit", "unpack2", "decimal",
         "uuid", "dateCtor", "osStat", "quote", "parseQsl", "cookieUnquote", "decodeLatin1", "decodeLenient", "errno"]


def declared_sets():
    """the declared raise-sets, read from the compiled Lean model (single source of truth)"""
    import subprocess

    exe = os.path.join(os.path.dirname(os.path.dirname(os.path.abspath(__file__))), "lean", ".lake", "build", "bin", "driver")
    p = subprocess.run([exe], input="".join("c12decl %s\n" % k for k in KINDS), stdout=subprocess.PIPE, text=True,
                       timeout=120)
    rows = p.stdout.split("\n")
    return {k: (set() if rows[i] == "-" else set(rows[i].split(","))) for i, k in enumerate(KINDS)}


def extra(rng, tier):
    """(b) raise-set validation: the value libraries and their mutations are fed to the stdlib functions directly;
    every exception class observed must be in the declared set of the Lean model"""
    try:
        decl = declared_sets()
    except Exception as exc:  # noqa
        return {"raise_set_validation": "skipped: %r" % (exc,)}
    n = 4000 if tier == "quick" else 60000
    observed = {k: {} for k in KINDS}
    calls = {k: 0 for k in KINDS}

    def see(kind, sample, fn, *a, **kw):
        calls[kind] += 1
        cls = probe(fn, *a, **kw)
        if cls:
            observed[kind].setdefault(cls, sample)

    texts = CL_VALUES + DATES + URLS + HOSTS + COOKIES + ACCEPTS + RANGES + ETAGS + QUERIES + PATHS + ROUTER_PATHS + CHARSETS
    blobs = JSON_BODIES + URLENC_BODIES + MP_BODIES[:10]
    ensure_world()
    for i in range(n):
        t = rng.choice(texts)
        if i >= len(texts):
            t = mutate_text(rng, t, allow_surrogates=True)
        else:
            t = texts[i]
        b = rng.choice(blobs)
        if rng.random() < 0.7:
            b = mutate_bytes(rng, b)
        tag = repr(t[:60])
        see("int", tag, int, t)
        see("parsedate", tag, parsedate_to_datetime, t)
        try:
            d = parsedate_to_datetime(t)
        except Exception:  # noqa
            d = None
        if d is not None:
            see("timestamp", tag, d.timestamp)
        see("urlsplit", tag, urlsplit, t)
        see("urlsplit", tag, urlsplit, "http://%s/" % t)
        see("parseQsl", tag, parse_qsl, t, keep_blank_values=True)
        see("cookieUnquote", tag, _http_cookies._unquote, t)
        see("encodeLatin1", tag, t.encode, "latin-1")
        see("quote", tag, quote, t, safe="/#%[]=:;$&()+,!?*@'~")
        see("decimal", tag, _Decimal, t)
        see("uuid", tag, _uuid.UUID, t)
        target = os.path.join(ROOT, t.lstrip("/"))
        see("osStat", tag, os.stat, target)
        cls, en, _kind = stat_probe(target, "n")
        if cls == "OSError":
            calls["errno"] += 1
            observed["errno"].setdefault(en, tag)
        ymd = "%04d-%02d-%02d" % (rng.randrange(0, 10000), rng.randrange(0, 100), rng.randrange(0, 100))
        see("dateCtor", ymd, lambda: _date(int(ymd[0:4]), int(ymd[5:7]), int(ymd[8:10])))

        def unpack2(x):
            a, b2 = x.split("=", maxsplit=1)

        see("unpack2", tag, unpack2, t)
        dt = mutate_text(rng, rng.choice(DATES))
        try:
            d2 = parsedate_to_datetime(dt)
        except Exception:  # noqa
            d2 = None
        if d2 is not None:
            see("timestamp", repr(dt), d2.timestamp)
        cs = rng.choice(CHARSETS)
        if rng.random() < 0.2:
            cs = mutate_text(rng, cs, allow_surrogates=True)
        see("decodeCharset", "%r with %r" % (b[:40], cs), b.decode, cs)
        see("decodeLatin1", repr(b[:40]), b.decode, "latin-1")
        see("decodeLenient", repr(b[:40]), b.decode, "utf8", "replace")
        try:
            text = b.decode(rng.choice(["utf8", "latin-1"]))
        except Exception:  # noqa
            text = None
        if text is not None and len(b) < 20000 or i % 50 == 0:
            see("jsonLoads", repr(b[:40]), _json.loads, text if text is not None else "")
    violations = []
    for kind in KINDS:
        for cls, sample in observed[kind].items():
            if cls not in decl[kind]:
                violations.append({"line": "c12decl %s" % kind, "out": cls,
                                   "why": "the declared raise-set of %s is %s but the function raised %s on %s — the "
                                          "declaration (trusted part of the exception-flow model) is wrong"
                                          % (kind, sorted(decl[kind]), cls, sample)})
    return {"violations": violations,
            "raise_set_validation": {k: {"calls": calls[k], "observed": sorted(observed[k]), "declared": sorted(decl[k])}
                                     for k in KINDS}}
