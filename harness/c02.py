"""C02 — file responses deliver exactly the requested bytes with truthful framing.

Op lines (one self-contained scenario each; `x` = header absent, `-` = header present and empty):

    file_wsgi      <method> <range|x> <if-range|x> <chunk> <size> <ct> <last-modified> <etag>
    file_asgi <zc> <method> <range|x> <if-range|x> <chunk> <size> <ct> <last-modified> <etag>

The file has <size> bytes, byte i = 128 + (89*i + i//128) % 128 (position coded, never ASCII, so
file data cannot be confused with framing).  <last-modified> / <etag> are the stat-derived
texts of that file (opaque for the model; produced by the generator from the real stat).

Output:  <status> <header multiset> <events>
    headers:  sorted `name=value` (names lower-cased, both sides as code points) joined by `;`
    events :  WSGI   c:<bytes>                    one per yielded chunk
              ASGI   b<more>:<bytes>              http.response.body
                     z<more>:<off|x>:<cnt|x>:<bytes a server would copy from the descriptor>
"""
import asyncio
import atexit
import email.utils
import itertools
import os
import re
import shutil
import tempfile

import baize.asgi.responses as asgi_responses
import baize.wsgi.responses as wsgi_responses
from baize.responses import FileResponseMixin

from .common import OpTimeout, corpus_lines, dec_text, enc, exc_name, with_alarm

PROPERTY = "C02"
LEAN_MODULES = ["BaizeVerif.Props.C02"]
MODEL_MODULES = ["BaizeVerif.Model.FileResponse"]
DRIVER_OPS = {"file_wsgi": "FileResponse.runWsgi", "file_asgi": "FileResponse.runAsgi"}
GEN_MODULES = ["c02", "c03"]
THEOREMS = [
    "Baize.FileResponse.length_formula",
    "Baize.FileResponse.multipart_body_spec",
    "Baize.FileResponse.wsgi_reader_exact",
    "Baize.FileResponse.wsgi_read_all_exact",
    "Baize.FileResponse.asgi_sendfile_exact",
    "Baize.FileResponse.asgi_send_all_exact",
    "Baize.FileResponse.content_length_truthful",
    "Baize.FileResponse.head_same_headers_empty_body",
    "Baize.FileResponse.status_cases",
    "Baize.FileResponse.error_no_file_data",
    "Baize.FileResponse.if_range_gate",
    "Baize.FileResponse.zerocopy_events",
    "Baize.FileResponse.zerocopy_same_bytes",
    "Baize.FileResponse.wsgi_asgi_same_plan_and_body",
    "Baize.FileResponse.boundary_is_token",
    "Baize.FileResponse.source_pinned",
]
MANIFEST = {
    "technique": "Lean 4 proof (induction over ranges / read loops) + differential correspondence of the Lean model "
                 "with the WSGI and ASGI FileResponse on real temp files",
    "text": "Lean theorems over an executable model of FileResponse.__call__ and its handlers on both interfaces "
            "(multipart length formula = rendered length for all digit counts, chunked readers and the sendfile "
            "emulation return exactly the slice for every chunk size, Content-Length truthful, HEAD, status cases "
            "tied to the proved Range resolution of C03, If-Range gate, zero-copy messages, WSGI = ASGI); the part "
            "header template, the constants 44 and 5 and the summand structure of content_length are regenerated "
            "from /repo on every run; the model is run against the real code on real files (position-coded "
            "content, all chunk/size alignments, digit-count boundaries, If-Range variants, GET/HEAD, zero-copy "
            "on/off); an independent oracle re-parses the multipart body.",
    "note": "Trusted: Lean kernel (propext, Classical.choice, Quot.sound only), tools/gen/c02.py, the harness; "
            "os.read/file.read on a regular file return min(n, remaining) bytes; the file does not change between "
            "stat and read; chunk_size >= 1; SHA-1/formatdate are parameters (only equality with If-Range is used).",
    "design": "C02",
}
CORRESPONDENCE = ("Baize.FileResponse.wsgiRespond / asgiEvents  vs  baize.wsgi.responses.FileResponse.__call__ / "
                  "baize.asgi.responses.FileResponse.__call__ (status, header multiset, every chunk / ASGI event)")
RULE = ("corpus of past failures; systematic grid: chunk sizes {1,2,7,64,255,256,257} x file sizes "
        "{0,1,chunk-1,chunk,chunk+1,2chunk-1,2chunk,2chunk+1} x range headers aligned with the chunk grid x "
        "GET/HEAD x wsgi/asgi/asgi-zerocopy; If-Range in {absent, empty, etag, weak etag, unquoted etag, date, "
        "stale date, garbage}; digit-count boundaries 9/10, 99/100, 999/1000 for start, end and size; C03's "
        "exhaustive small range sets on sizes {0,1,5,10}; random range sets / mutated headers.  non-trivial = a "
        "206 answer or a 4xx answer; distinct = distinct op line")
TRUSTED = [
    "os.read / file.read on a regular file return exactly min(n, bytes remaining) bytes (model: List.take of List.drop)",
    "the temp file is not modified between os.stat and the reads (the property fixes the file)",
    "baize.asgi.responses.run_in_threadpool is replaced by an inline call in the harness (thread hop only; "
    "`extra` re-runs a sample through the real thread pool)",
    "random_choices is replaced by a deterministic function of its real arguments (population, k) in both modules",
    "ETag (SHA-1 of mtime-size) and Last-Modified (email.utils.formatdate) are opaque texts taken from the real stat",
]
ASSUMPTIONS = [
    "chunk_size >= 1 (0 makes range() raise on WSGI and the ASGI loop spin; it is an application constant, not input)",
    "content_type is Latin-1 text chosen by the application (not application/octet-stream, no download_name: "
    "Content-Disposition belongs to C13)",
    "header text is Latin-1; at most one Range and one If-Range header",
    "a zero-copy message without offset refers to a fresh descriptor (position 0), without count to end of file",
]
PARTIAL = None

MTIME = 1700000000
STALE = email.utils.formatdate(MTIME - 86400, usegmt=True)
CTS = ["text/plain", "a/b", "application/x-verif-long-content-type; charset=utf-8",
       "text/x-caf\xe9; title=\xfcber\xff"]       # Latin-1 beyond ASCII: one byte per character on the wire

# ---- fixtures ------------------------------------------------------------------------

_DIR = None
_FILES = {}


def content(size):
    return bytes(128 + (89 * i + i // 128) % 128 for i in range(size))


def _cleanup():
    if _DIR and os.path.isdir(_DIR):
        shutil.rmtree(_DIR, ignore_errors=True)


def file_of(size):
    """(path, stat_result) of the position-coded file with `size` bytes"""
    global _DIR
    if size not in _FILES:
        if _DIR is None:
            _DIR = tempfile.mkdtemp(prefix="verif-c02-")
            atexit.register(_cleanup)
        path = os.path.join(_DIR, "f%d.bin" % size)
        with open(path, "wb") as f:
            f.write(content(size))
        os.utime(path, (MTIME, MTIME))
        _FILES[size] = (path, os.stat(path))
    return _FILES[size]


def stat_texts(size):
    """(Last-Modified text, ETag hex) of the fixture, from the real stat via the real helpers"""
    _, st = file_of(size)
    return email.utils.formatdate(st.st_mtime, usegmt=True), FileResponseMixin.generate_etag(st)


def fixed_choices(population, k=1, **kw):
    """stands in for random.choices: a deterministic function of the real arguments"""
    return [population[(7 * i + 3) % len(population)] for i in range(k)]


async def inline_threadpool(fn, *a, **kw):
    return fn(*a, **kw)


wsgi_responses.random_choices = fixed_choices
asgi_responses.random_choices = fixed_choices
_REAL_THREADPOOL = asgi_responses.run_in_threadpool
asgi_responses.run_in_threadpool = inline_threadpool
_LOOP = None


def loop():
    global _LOOP
    if _LOOP is None:
        _LOOP = asyncio.new_event_loop()
    return _LOOP


# ---- line handling -------------------------------------------------------------------


def opt(tok):
    return None if tok == "x" else dec_text(tok)


def parse_line(line):
    a = line.split(" ")
    if a[0] == "file_wsgi":
        side, zc, rest = "wsgi", False, a[1:]
    else:
        side, zc, rest = "asgi", a[1] == "1", a[2:]
    method, rng_, ifr, chunk, size, ct, lm, etag = rest
    return {"side": side, "zc": zc, "method": method, "range": opt(rng_), "if_range": opt(ifr),
            "chunk": int(chunk), "size": int(size), "ct": dec_text(ct), "lm": dec_text(lm), "etag": dec_text(etag)}


def mk(side, zc, method, range_, if_range, chunk, size, ct):
    """build an op line; if_range may be one of the symbols @etag @weak @bare @date"""
    lm, etag = stat_texts(size)
    sym = {"@etag": '"%s"' % etag, "@weak": 'W/"%s"' % etag, "@bare": etag, "@date": lm}
    if if_range in sym:
        if_range = sym[if_range]
    head = "file_wsgi" if side == "wsgi" else "file_asgi %d" % (1 if zc else 0)
    return "%s %s %s %s %d %d %s %s %s" % (
        head, method, "x" if range_ is None else enc(range_), "x" if if_range is None else enc(if_range),
        chunk, size, enc(ct), enc(lm), enc(etag))


def expand(short):
    """corpus short form `wsgi|asgi|asgizc METHOD range ifrange chunk size [ct]` (text tokens, `x` absent,
    `-` empty, `@etag` etc.; `_` stands for a space) -> op line"""
    a = short.split(" ")
    side = {"wsgi": ("wsgi", False), "asgi": ("asgi", False), "asgizc": ("asgi", True)}[a[0]]

    def txt(t):
        return None if t == "x" else ("" if t == "-" else t.replace("_", " "))

    return mk(side[0], side[1], a[1], txt(a[2]), txt(a[3]), int(a[4]), int(a[5]), a[6] if len(a) > 6 else CTS[0])


def describe(line):
    d = parse_line(line)
    d.pop("lm"), d.pop("etag")
    return d


# ---- adapter: the real code ------------------------------------------------------------


def canon_headers(pairs):
    out = []
    for k, v in pairs:
        if isinstance(k, bytes):
            k = k.decode("latin-1")
        if isinstance(v, bytes):
            v = v.decode("latin-1")
        out.append("%s=%s" % (enc(k.lower()), enc(v)))
    return ";".join(sorted(out)) if out else "-"


def run_wsgi(d):
    path, st = file_of(d["size"])
    resp = wsgi_responses.FileResponse(path, content_type=d["ct"], stat_result=st, chunk_size=d["chunk"])
    environ = {"REQUEST_METHOD": d["method"]}
    if d["range"] is not None:
        environ["HTTP_RANGE"] = d["range"]
    if d["if_range"] is not None:
        environ["HTTP_IF_RANGE"] = d["if_range"]
    started = []

    def start_response(status, headers, exc_info=None):
        started.append((status, list(headers)))

    chunks = []
    for c in resp(environ, start_response):
        chunks.append(bytes(c))
        if len(chunks) > MAX_EVENTS:
            raise OpTimeout()
    if len(started) != 1:
        return "crash start_response-called-%d-times" % len(started)
    status, headers = started[0]
    return "%d %s %s" % (int(status.split(" ")[0]), canon_headers(headers),
                         "|".join("c:" + enc(c) for c in chunks) if chunks else "-")


def run_asgi(d, inline=True):
    path, st = file_of(d["size"])
    resp = asgi_responses.FileResponse(path, content_type=d["ct"], stat_result=st, chunk_size=d["chunk"])
    headers = []
    if d["range"] is not None:
        headers.append((b"range", d["range"].encode("latin-1")))
    if d["if_range"] is not None:
        headers.append((b"if-range", d["if_range"].encode("latin-1")))
    scope = {"type": "http", "method": d["method"], "headers": headers}
    if d["zc"]:
        scope["extensions"] = {"http.response.zerocopysend": {}}
    events = []

    async def send(msg):
        if len(events) > MAX_EVENTS:
            raise OpTimeout()
        msg = dict(msg)
        if msg["type"] == "http.response.zerocopysend":
            # what a server does with the message: copy from the descriptor
            fd = msg["file"]
            if "offset" in msg:
                os.lseek(fd, msg["offset"], os.SEEK_SET)
            if "count" in msg:
                data = b""
                while len(data) < msg["count"]:
                    piece = os.read(fd, msg["count"] - len(data))
                    if not piece:
                        break
                    data += piece
            else:
                data = b""
                while True:
                    piece = os.read(fd, 65536)
                    if not piece:
                        break
                    data += piece
            msg["copied"] = data
        events.append(msg)

    async def receive():
        return {"type": "http.disconnect"}

    asgi_responses.run_in_threadpool = inline_threadpool if inline else _REAL_THREADPOOL
    try:
        loop().run_until_complete(resp(scope, receive, send))
    finally:
        asgi_responses.run_in_threadpool = inline_threadpool
    if not events or events[0]["type"] != "http.response.start":
        return "crash no-response-start"
    out = []
    for m in events[1:]:
        if m["type"] == "http.response.body":
            out.append("b%d:%s" % (1 if m.get("more_body", False) else 0, enc(bytes(m.get("body", b"")))))
        elif m["type"] == "http.response.zerocopysend":
            out.append("z%d:%s:%s:%s" % (1 if m.get("more_body", False) else 0,
                                         m["offset"] if "offset" in m else "x",
                                         m["count"] if "count" in m else "x", enc(m["copied"])))
        else:
            return "crash unexpected-event-%s" % m["type"]
    return "%d %s %s" % (events[0]["status"], canon_headers(events[0].get("headers", [])),
                         "|".join(out) if out else "-")


_MEMO = {}
MAX_EVENTS = 20000  # far above any generated scenario; a response that goes on is the outcome `hang`


def impl(line):
    global _LOOP
    if line in _MEMO:
        return _MEMO[line]
    try:
        d = parse_line(line)
        out = with_alarm(20, run_wsgi, d) if d["side"] == "wsgi" else with_alarm(20, run_asgi, d)
    except OpTimeout:
        out = "hang"
        _LOOP = None  # the interrupted event loop is not reused
    except Exception as exc:  # noqa
        out = exc_name(exc)
    if len(_MEMO) > 200000:
        _MEMO.clear()
    _MEMO[line] = out
    return out


# ---- oracle: the property on the implementation's output -------------------------------

SPEC = r"(?:\d+-\d*|-\d+)"
GRAMMAR = re.compile(r"bytes=[ \t]*%s(?:[ \t]*,[ \t]*%s)*[ \t]*" % (SPEC, SPEC))


def parse_out(out):
    """-> (status, {name: [values]}, [(kind, more, data, off, cnt)]) or None"""
    parts = out.split(" ")
    if len(parts) != 3 or not parts[0].isdigit():
        return None
    hdrs = {}
    if parts[1] != "-":
        for item in parts[1].split(";"):
            k, v = item.split("=")
            hdrs.setdefault(dec_text(k), []).append(dec_text(v))
    evs = []
    if parts[2] != "-":
        for e in parts[2].split("|"):
            f = e.split(":")
            if f[0] == "c":
                evs.append(("c", None, bytes(int(x) for x in f[1].split(",")) if f[1] != "-" else b"", None, None))
            elif f[0][0] == "b":
                evs.append(("b", f[0][1] == "1", bytes(int(x) for x in f[1].split(",")) if f[1] != "-" else b"",
                            None, None))
            else:
                evs.append(("z", f[0][1] == "1", bytes(int(x) for x in f[3].split(",")) if f[3] != "-" else b"",
                            None if f[1] == "x" else int(f[1]), None if f[2] == "x" else int(f[2])))
    return int(parts[0]), hdrs, evs


def grammatical_ranges(text, n):
    """independent reading of a grammatical range set: ('ok', merged) | ('err', {statuses})"""
    specs = re.findall(r"(\d*)-(\d*)", text.split("=", 1)[1])
    unsat = inverted = False
    ivs = []
    for a, b in specs:
        if len(a) > 4300 or len(b) > 4300:
            return "err", {400}
        if a:
            first = int(a)
            unsat |= first >= n
            if b:
                inverted |= first > int(b)
                ivs.append((first, min(int(b), n - 1) + 1))
            else:
                ivs.append((first, n))
        else:
            unsat |= int(b) == 0 or int(b) > n
            ivs.append((n - int(b), n))
    if unsat or inverted:
        return "err", ({416} if unsat else set()) | ({400} if inverted else set())
    ivs.sort()
    merged = []
    for a, b in ivs:
        if merged and a <= merged[-1][1]:
            merged[-1] = (merged[-1][0], max(merged[-1][1], b))
        else:
            merged.append((a, b))
    return "ok", merged


def split_lines_header(block):
    """header block -> list of (name lower, value); accepts LF or CRLF line ends"""
    out = []
    for ln in re.split(b"\r?\n", block):
        if not ln:
            continue
        if b":" not in ln:
            return None
        k, v = ln.split(b":", 1)
        out.append((k.strip().lower().decode("latin-1"), v.strip().decode("latin-1")))
    return out


def parse_byteranges(body, boundary):
    """own parser of a multipart/byteranges body -> [(headers, data)] or an error string"""
    delim = b"--" + boundary
    if not body.startswith(delim):
        return "body does not start with the boundary delimiter"
    pos = len(delim)
    parts = []
    while True:
        if body.startswith(b"--", pos):  # closing delimiter
            rest = body[pos + 2:]
            if rest not in (b"\n", b"\r\n", b""):
                return "bytes after the closing delimiter: %r" % rest[:20]
            return parts
        m = re.compile(b"\r?\n").match(body, pos)
        if not m:
            return "no line end after a boundary delimiter at %d" % pos
        pos = m.end()
        m = re.compile(b"\r?\n\r?\n").search(body, pos)
        if not m:
            return "part header block not terminated"
        hdrs = split_lines_header(body[pos:m.start()] + b"\n")
        if hdrs is None:
            return "malformed part header"
        pos = m.end()
        m = re.compile(b"\r?\n" + re.escape(delim)).search(body, pos)
        if not m:
            return "part not terminated by a delimiter line"
        parts.append((hdrs, body[pos:m.start()]))
        pos = m.end()


def oracle(line, out):
    d = parse_line(line)
    if out.startswith("crash") or out == "hang" or out.startswith("http"):
        return "file response gave no answer: %s" % out
    p = parse_out(out)
    if p is None:
        return "unreadable output %s" % out[:80]
    status, hdrs, evs = p
    n = d["size"]
    data = content(n)
    body = b"".join(e[2] for e in evs)
    head = d["method"] == "HEAD"
    if status not in (200, 206, 400, 416):
        return "status %d is none of 200/206/400/416" % status
    # ---- truthful Content-Length, HEAD
    cl = hdrs.get("content-length")
    if cl is not None and (len(cl) != 1 or not cl[0].isdigit()):
        return "Content-Length header %r" % (cl,)
    if head:
        if body:
            return "HEAD response carries %d body bytes" % len(body)
        if d["side"] == "asgi" and (not evs or evs[-1][1] is not False):
            return "the HEAD response is never finished (no final event with more_body false)"
        twin_line = line.replace(" HEAD ", " GET ", 1)
        twin = impl(twin_line)
        tp = parse_out(twin)
        if tp is None or tp[0] != status or tp[1] != hdrs:
            return "HEAD status/headers differ from GET: %s" % twin[:120]
        why = oracle(twin_line, twin)  # the headers a HEAD repeats must themselves be truthful
        return ("GET twin: " + why) if why else None
    if cl is not None and int(cl[0]) != len(body):
        return "Content-Length %s but %d body bytes sent" % (cl[0], len(body))
    if status in (200, 206) and cl is None:
        return "no Content-Length on a %d" % status
    # ---- what a server actually sends: everything up to the first event with more_body false
    if d["side"] == "asgi":
        if not evs or evs[-1][1] is not False:
            return "the response body is never finished (no final event with more_body false)"
        if any(e[1] is not True for e in evs[:-1]):
            return "more_body false before the last event: the bytes after it are not sent (%s)" % [e[1] for e in evs]
    # ---- which answers are allowed
    gate_open = d["if_range"] is None or d["if_range"] == '"%s"' % d["etag"] or d["if_range"] == d["lm"]
    if "etag" in hdrs and hdrs["etag"] != ['"%s"' % d["etag"]]:
        return "ETag header %r is not the file's ETag" % hdrs["etag"]
    if "last-modified" in hdrs and hdrs["last-modified"] != [d["lm"]]:
        return "Last-Modified header %r is not the file's" % hdrs["last-modified"]
    if status == 200:
        if body != data:
            return "200 body is not the whole file (%d bytes for %d)" % (len(body), n)
        if "content-range" in hdrs:
            return "200 with Content-Range"
        return None  # serving the whole file is always a permitted answer (Range may be ignored)
    if d["range"] is None:
        return "%d without a Range header" % status
    if not gate_open:
        return "Range honoured (%d) although If-Range %r is neither the ETag nor Last-Modified" % (
            status, d["if_range"])
    # reference resolution of the header: independent for grammatical headers, C03's verified
    # parse_range for lenient ones
    text = d["range"]
    if GRAMMAR.fullmatch(text):
        kind, ref = grammatical_ranges(text, n)
    else:
        try:
            kind, ref = "ok", [tuple(r) for r in FileResponseMixin.parse_range(text, n)]
        except Exception as exc:  # noqa
            kind, ref = "err", {getattr(exc, "status_code", 500)}
    if status in (400, 416):
        if kind == "ok":
            return "satisfiable Range %r rejected with %d" % (text, status)
        if status not in ref:
            return "Range %r: expected %s, got %d" % (text, sorted(ref), status)
        if any(b >= 128 for b in body):
            return "%d response carries file data" % status
        if status == 416 and hdrs.get("content-range") != ["*/%d" % n]:
            return "416 without Content-Range: */%d (%r)" % (n, hdrs.get("content-range"))
        return None
    # ---- 206
    if kind != "ok":
        return "206 for a Range header that must be rejected with %s" % sorted(ref)
    ctype = hdrs.get("content-type", [""])[0]
    if not ctype.lower().startswith("multipart/byteranges"):
        if len(ref) != 1:
            return "%d ranges selected but the answer is not multipart/byteranges" % len(ref)
        a, b = ref[0]
        if hdrs.get("content-range") != ["bytes %d-%d/%d" % (a, b - 1, n)]:
            return "Content-Range %r, expected bytes %d-%d/%d" % (hdrs.get("content-range"), a, b - 1, n)
        if body != data[a:b]:
            return "206 body is not file[%d:%d]" % (a, b)
        if ctype != d["ct"]:
            return "Content-Type %r" % ctype
        return None
    m = re.search(r"boundary=\"?([^\";]+)\"?", ctype)
    if not m:
        return "multipart Content-Type without boundary: %r" % ctype
    parts = parse_byteranges(body, m.group(1).encode("latin-1"))
    if isinstance(parts, str):
        return "multipart body: " + parts
    if len(parts) != len(ref):
        return "%d parts for the %d selected ranges %s" % (len(parts), len(ref), ref)
    for (ph, pdata), (a, b) in zip(parts, ref):
        phd = dict(ph)
        if phd.get("content-range") != "bytes %d-%d/%d" % (a, b - 1, n):
            return "part Content-Range %r, expected bytes %d-%d/%d" % (phd.get("content-range"), a, b - 1, n)
        if phd.get("content-type") != d["ct"].strip():
            return "part Content-Type %r" % phd.get("content-type")
        if pdata != data[a:b]:
            return "part data is not file[%d:%d] (%d bytes)" % (a, b, len(pdata))
    return None


def classify(line, out):
    d = parse_line(line)
    st = out.split(" ")[0]
    kind = ""
    if st == "206":
        kind = "multi" if "109,117,108,116,105,112,97,114,116" in out.split(" ")[1] else "single"
    ifr = "ifr-absent" if d["if_range"] is None else ("ifr-empty" if d["if_range"] == "" else (
        "ifr-match" if d["if_range"] in ('"%s"' % d["etag"], d["lm"]) else "ifr-other"))
    return "%s%s/%s/%s%s/%s" % (d["side"], "-zc" if d["zc"] else "", d["method"], st, kind, ifr)


def nontrivial(line, out):
    return out.split(" ")[0] in ("206", "400", "416")


# ---- generators ------------------------------------------------------------------------

CHUNKS = [1, 2, 7, 64, 255, 256, 257]
# dates around the file's own Last-Modified: one second / one hour / one year later, one second earlier (an If-Range
# date is a validator, compared for EQUALITY - a later date does not make the copy current), lower-case, no GMT
LATER1 = email.utils.formatdate(MTIME + 1, usegmt=True)
LATER_H = email.utils.formatdate(MTIME + 3600, usegmt=True)
LATER_Y = email.utils.formatdate(MTIME + 366 * 86400, usegmt=True)
EARLIER1 = email.utils.formatdate(MTIME - 1, usegmt=True)
IF_RANGES = [None, "", "@etag", "@weak", "@bare", "@date", STALE, "garbage", '"', " ", LATER1, LATER_H, LATER_Y, EARLIER1,
             email.utils.formatdate(MTIME, usegmt=True).lower(), email.utils.formatdate(MTIME, usegmt=False)]
SIDES = [("wsgi", False), ("asgi", False), ("asgi", True)]


def sizes_for(chunk):
    return sorted({0, 1, max(chunk - 1, 0), chunk, chunk + 1, 2 * chunk - 1, 2 * chunk, 2 * chunk + 1, 3 * chunk})


def aligned_headers(chunk, size, rng):
    """range headers whose starts/ends sit on and around the chunk grid and the file end"""
    pts = sorted({0, 1, chunk - 1, chunk, chunk + 1, 2 * chunk - 1, 2 * chunk, 2 * chunk + 1, size - 2, size - 1, size,
                  size + 1} - {-1, -2})
    pts = [p for p in pts if p >= 0]
    out = [None, "", "bytes=0-", "bytes=-1", "bytes=-%d" % chunk, "bytes=-%d" % (size + 1), "bytes=-0",
           "bytes=%d-" % size, "bytes=", "bits=0-1", "bytes", "bytes=1-0"]
    for a in pts:
        for b in pts:
            if a <= b:
                out.append("bytes=%d-%d" % (a, b))
    for _ in range(6):
        k = rng.choice([2, 2, 3, 4])
        cuts = sorted(rng.sample(pts * 2, min(2 * k, len(pts) * 2)))
        specs = ["%d-%d" % (cuts[i], cuts[i + 1]) for i in range(0, len(cuts) - 1, 2)]
        rng.shuffle(specs)
        out.append("bytes=" + ",".join(specs))
    out.append("bytes=0-0,%d-%d" % (max(size - 1, 0), max(size - 1, 0)))
    out.append("bytes=0-0,2-2,-1")
    out.append("bytes=%d-%d,0-%d" % (chunk, 2 * chunk, max(chunk - 2, 0)))
    return out


def valid_multi(rng, size):
    """k disjoint, non-adjacent, in-file ranges in random order (a multipart answer), some given as suffix / open"""
    k = rng.randrange(2, 7)
    if size < 3:
        return "bytes=0-0"
    cuts = sorted(rng.sample(range(size + 1), min(2 * k, size + 1)))
    specs = []
    for i in range(0, len(cuts) - 1, 2):
        a, b = cuts[i], cuts[i + 1]
        if b > a and (not specs or a > specs[-1][1] + 1):
            specs.append((a, b - 1))
    out = ["%d-%d" % p for p in specs]
    if out and rng.random() < 0.2 and specs[-1][1] < size:
        out[-1] = "%d-" % specs[-1][0]
    elif out and rng.random() < 0.2:
        out[-1] = "-%d" % (size - specs[-1][0])
    rng.shuffle(out)
    return "bytes=" + rng.choice([",", ", "]).join(out) if out else "bytes=0-0"


def random_header(rng, size):
    kind = rng.random()
    if kind < 0.35:
        return valid_multi(rng, size)
    kind = rng.random()
    if kind < 0.6:
        k = rng.randrange(1, 6)
        parts = []
        base = rng.randrange(0, max(size, 1) + 2)
        for _ in range(k):
            mode = rng.random()
            if mode < 0.6:
                a = max(0, base + rng.randrange(-6, 7))
                b = a + rng.choice([0, 0, 1, 2, 5, rng.randrange(0, max(2, size // 2 + 2))]) + rng.choice([0, 0, 0, -1])
                parts.append("%d-%d" % (a, max(b, 0)))
                base = b + rng.choice([-3, 0, 1, 2, 3, 9])
            elif mode < 0.75:
                parts.append("%d-" % max(0, base + rng.randrange(-3, 4)))
            else:
                parts.append("-%d" % rng.choice([0, 1, 2, size, size + 1, max(size - 1, 0), rng.randrange(0, size + 5)]))
        rng.shuffle(parts)
        return "bytes=" + rng.choice([",", ", ", " , "]).join(parts)
    if kind < 0.85:
        text = "bytes=" + ",".join("%d-%d" % (a, a + rng.randrange(0, 9)) for a in
                                   (rng.randrange(0, size + 3) for _ in range(rng.randrange(1, 4))))
        chars = list(text)
        for _ in range(rng.randrange(1, 3)):
            pos = rng.randrange(0, len(chars) + 1)
            alphabet = "0123456789-,= \tbytesx=\xb2;"
            m = rng.random()
            if m < 0.4 and chars:
                chars[min(pos, len(chars) - 1)] = rng.choice(alphabet)
            elif m < 0.7:
                chars.insert(pos, rng.choice(alphabet))
            elif chars:
                del chars[min(pos, len(chars) - 1)]
        return "".join(chars)
    text = "".join(chr(rng.choice([rng.randrange(33, 256), 45, 48, 49, 57, 61, 44, 98])) for _ in
                   range(rng.randrange(0, 16)))
    return ("bytes=" + text) if rng.random() < 0.5 else text


def cases(rng, tier):
    for short in corpus_lines(PROPERTY):
        yield expand(short)
    thorough = tier == "thorough"
    # 1. If-Range x Range presence x method x side (small file): the gate
    for side, zc in SIDES:
        for method in ("GET", "HEAD"):
            for ifr in IF_RANGES:
                for r in (None, "", "bytes=1-3", "bytes=0-0,4-5", "bytes=9-", "bytes=5-2", "bogus"):
                    yield mk(side, zc, method, r, ifr, 4, 8, CTS[0])
    # 2. chunk grid: sizes and ranges aligned with the chunk size
    for chunk in CHUNKS:
        for size in sizes_for(chunk):
            hdrs = aligned_headers(chunk, size, rng)
            if not thorough and chunk > 7:
                hdrs = hdrs[:12] + rng.sample(hdrs[12:], min(len(hdrs) - 12, 14 if chunk < 255 else 6))
            for h in hdrs:
                for side, zc in SIDES:
                    method = "GET" if (thorough or rng.random() < 0.85) else "HEAD"
                    ifr = rng.choice([None, None, None, "@etag", "@date", LATER1, EARLIER1]) if h else rng.choice(IF_RANGES)
                    yield mk(side, zc, method, h, ifr, chunk, size, rng.choice(CTS))
                    if thorough:
                        yield mk(side, zc, "HEAD", h, ifr, chunk, size, CTS[0])
    # 3. digit-count boundaries for start, end and size (the multipart length formula)
    marks = [0, 1, 9, 10, 11, 99, 100, 101, 999, 1000]
    for size in ([10, 11, 100, 101, 1000, 1001] if thorough else [10, 100, 101, 1000, 1001]):
        ms = [m for m in marks if m <= size]
        pairs = [(a, b) for a in ms for b in ms if a <= b]
        combos = list(itertools.combinations(pairs, 2))
        if not thorough:
            combos = rng.sample(combos, min(len(combos), 40))
        for c in combos:
            h = "bytes=" + ",".join("%d-%d" % p for p in c)
            side, zc = rng.choice(SIDES)
            yield mk(side, zc, "GET", h, None, rng.choice([7, 64, 256, 4096]), size, rng.choice(CTS))
        for (a, b) in (pairs if thorough else rng.sample(pairs, min(len(pairs), 12))):
            side, zc = rng.choice(SIDES)
            yield mk(side, zc, "GET", "bytes=%d-%d" % (a, b), None, rng.choice([7, 256]), size, CTS[0])
        # many parts with digit boundaries at once
        h = "bytes=" + ",".join("%d-%d" % (m, m) for m in ms if m < size)
        for side, zc in SIDES:
            yield mk(side, zc, "GET", h, None, 64, size, CTS[2])
            yield mk(side, zc, "HEAD", h, None, 64, size, CTS[2])
            yield mk(side, zc, "GET", h, None, 64, size, CTS[3])
            yield mk(side, zc, "HEAD", h, None, 64, size, CTS[3])
    # very many specs in one header (the count itself must not matter)
    for k in (32, 33, 64, 65, 128):
        specs_k = ",".join("%d-%d" % (3 * i, 3 * i) for i in range(k))
        for side, zc in SIDES:
            yield mk(side, zc, "GET", "bytes=" + specs_k, None, 64, 3 * k + 5, CTS[0])
            yield mk(side, zc, "HEAD", "bytes=" + specs_k, None, 64, 3 * k + 5, CTS[0])
            yield mk(side, zc, "GET", "bytes=" + ",".join("0-%d" % i for i in range(k)), None, 64, 3 * k + 5, CTS[0])
    # 4. C03's exhaustive small range sets, through the whole response
    nums = ["", "0", "1", "2", "4", "5", "9", "10"]
    specs = ["%s-%s" % (a, b) for a in nums for b in nums]
    for size in [0, 1, 5, 10]:
        for s in specs:
            side, zc = rng.choice(SIDES)
            yield mk(side, zc, "GET", "bytes=" + s, None, rng.choice([1, 2, 3, 64]), size, CTS[1])
        pairs = list(itertools.product(specs, repeat=2))
        for s, t in (pairs if thorough else rng.sample(pairs, 500)):
            side, zc = rng.choice(SIDES)
            yield mk(side, zc, "GET", "bytes=%s,%s" % (s, t), None, rng.choice([1, 2, 3, 64]), size, CTS[1])
    # 5. random
    for _ in range(5000 if not thorough else 60000):
        chunk = rng.choice(CHUNKS + [3, 5, 4096])
        size = rng.choice(sizes_for(chunk) + [rng.randrange(0, 3 * min(chunk, 200) + 2)])
        if chunk == 1:
            size = min(size, 40)
        side, zc = rng.choice(SIDES)
        h = rng.choice([None, ""]) if rng.random() < 0.06 else random_header(rng, size)
        yield mk(side, zc, rng.choice(["GET", "GET", "GET", "HEAD"]), h, rng.choice(IF_RANGES + [None] * 8),
                 chunk, size, rng.choice(CTS))


def extra(rng, tier):
    """a sample of ASGI ops through the real thread pool (the harness otherwise inlines run_in_threadpool)"""
    bad = []
    n = 0
    for chunk, size, h in [(7, 15, None), (7, 14, "bytes=0-6"), (2, 9, "bytes=1-2,5-8"), (64, 129, "bytes=-65"),
                           (1, 5, "bytes=0-"), (256, 512, None)]:
        for zc in (False, True):
            line = mk("asgi", zc, "GET", h, None, chunk, size, CTS[0])
            try:
                real = run_asgi(parse_line(line), inline=False)
            except Exception as exc:  # noqa
                real = exc_name(exc)
            n += 1
            if real != impl(line):
                bad.append({"line": line, "out": real, "why": "output through the real thread pool differs from the "
                                                               "inlined run: %s" % impl(line)[:100]})
    hist, nh = _rewritten_file_histories()
    reuse, nr = _reused_response_sequences()
    return {"violations": bad + hist + reuse, "threadpool_ops": n, "rewritten_file_histories": nh,
            "reused_response_requests": nr}


def _rewritten_file_histories():
    """If-Range over a history: a client holds the validator of an earlier state of the file; the file is rewritten in
    place (same size; same second or a later one; the modification time differs), and the client asks for a range
    `If-Range: <old validator>`.  Range may be honoured only if that is the file's CURRENT validator - it is not, the
    bytes changed - so the answer is the whole new file (200), never a 206 slice of the new bytes."""
    import tempfile as _tf
    out, n = [], 0
    d = _tf.mkdtemp(prefix="verif-c02h-")
    try:
        for iface in ("wsgi", "asgi"):
            for method in ("GET", "HEAD"):
                for which in ("etag", "last-modified"):
                    for dt_ns in (400_000_000, 3_000_000_000):
                        if which == "last-modified" and dt_ns < 10 ** 9:
                            continue      # an HTTP date cannot tell two instants of one second apart
                        n += 1
                        path = os.path.join(d, "h-%s-%s-%s-%d.bin" % (iface, method, which, dt_ns))
                        t0 = 1_700_000_000 * 10 ** 9 + 100_000_000
                        with open(path, "wb") as f:
                            f.write(b"A" * 64)
                        os.utime(path, ns=(t0, t0))
                        st1, h1, _ = _plain_request(iface, path, "GET", None, None)
                        with open(path, "wb") as f:
                            f.write(b"B" * 64)
                        os.utime(path, ns=(t0 + dt_ns, t0 + dt_ns))
                        old = h1.get(which if which == "etag" else "last-modified")
                        st2, h2, body2 = _plain_request(iface, path, method, "bytes=0-3", old)
                        label = "history %s %s if-range=%s rewritten-after=%.1fs" % (iface, method, which, dt_ns / 1e9)
                        if st1 != 200 or old is None:
                            out.append({"line": label, "out": "%s %s" % (st1, h1), "why": "the first plain GET was not a 200 with a validator"})
                        elif st2 != 200:
                            out.append({"line": label, "out": "%s %s %r" % (st2, sorted(h2.items()), body2[:16]),
                                        "why": "the file was rewritten (same size, modification time %+.1f s) after the client got "
                                               "%s %s; Range with If-Range: <that value> was answered %s%s instead of 200 with the "
                                               "whole current file" % (dt_ns / 1e9, which, old, st2,
                                                                       " (the validator sent now is still %s)" % h2.get(which)
                                                                       if h2.get(which) == old else "")})
                        elif method == "GET" and body2 != b"B" * 64:
                            out.append({"line": label, "out": "%s %r" % (st2, body2[:16]), "why": "200 without the whole current file"})
    finally:
        shutil.rmtree(d, ignore_errors=True)
    return out, n


def _reused_response_sequences():
    """a FileResponse object is an application and may answer many requests: each answer must be the one a fresh object
    gives to the same request (nothing of an earlier answer - a multipart content type, a boundary, a length - stays)"""
    import tempfile as _tf
    out, n = [], 0
    d = _tf.mkdtemp(prefix="verif-c02r-")
    try:
        path = os.path.join(d, "reuse.bin")
        with open(path, "wb") as f:
            f.write(bytes(range(200)))
        seqs = [[("GET", "bytes=0-1,10-11"), ("GET", "bytes=5-9"), ("GET", None), ("HEAD", None), ("HEAD", "bytes=5-9")],
                [("GET", "bytes=5-9"), ("GET", "bytes=0-1,10-11,50-"), ("GET", "bytes=-1"), ("GET", "bytes=500-"), ("GET", None)],
                [("HEAD", "bytes=0-0,2-2"), ("GET", "bytes=3-"), ("GET", "bytes=a-b"), ("GET", "bytes=0-0,2-2"), ("GET", "bytes=1-1")]]
        for iface in ("wsgi", "asgi"):
            mod = wsgi_responses if iface == "wsgi" else asgi_responses
            for si, seq in enumerate(seqs):
                shared = mod.FileResponse(path)
                for step, (method, rng_) in enumerate(seq):
                    n += 1
                    def strip(res):
                        st, hd, body = res
                        hd = dict(hd)
                        ct = hd.get("content-type", "")
                        if ct.startswith("multipart/byteranges; boundary="):
                            b = ct.split("boundary=", 1)[1]
                            hd["content-type"] = "multipart/byteranges; boundary=<B>"
                            body = body.replace(b.encode("latin-1"), b"<B>")
                        return st, sorted(hd.items()), body
                    try:
                        got = strip(_plain_request(iface, path, method, rng_, None, resp=shared))
                        want = strip(_plain_request(iface, path, method, rng_, None))
                    except Exception as exc:  # noqa
                        out.append({"line": "reuse %s seq=%d step=%d" % (iface, si, step), "out": exc_name(exc),
                                    "why": "a reused FileResponse raised %s" % exc_name(exc)})
                        break
                    if got != want:
                        out.append({"line": "reuse %s seq=%d step=%d %s %s" % (iface, si, step, method, rng_),
                                    "out": repr(got)[:300],
                                    "why": "request %d (%s, Range %r) on a FileResponse object that answered %r before: %r, a fresh "
                                           "object answers %r" % (step + 1, method, rng_, seq[:step], got[:2], want[:2])})
                        break
    finally:
        shutil.rmtree(d, ignore_errors=True)
    return out, n


def _plain_request(iface, path, method, range_, if_range, resp=None):
    """(status, {lower-case header: value}, body) of a FileResponse(path) (a fresh one unless given) that stats the file itself"""
    if resp is not None:
        _orig_w, _orig_a = wsgi_responses.FileResponse, asgi_responses.FileResponse
        class _Given:  # noqa
            def __new__(cls, *_a, **_k):
                return resp
        try:
            wsgi_responses.FileResponse = asgi_responses.FileResponse = _Given
            return _plain_request(iface, path, method, range_, if_range)
        finally:
            wsgi_responses.FileResponse, asgi_responses.FileResponse = _orig_w, _orig_a
    if iface == "wsgi":
        environ = {"REQUEST_METHOD": method}
        if range_ is not None:
            environ["HTTP_RANGE"] = range_
        if if_range is not None:
            environ["HTTP_IF_RANGE"] = if_range
        got = {}
        it = wsgi_responses.FileResponse(path)(environ, lambda s, h, e=None: got.update(status=s, headers=h))
        body = b"".join(bytes(c) for c in it)
        if hasattr(it, "close"):
            it.close()
        return int(got["status"].split(" ")[0]), {k.lower(): v for k, v in got["headers"]}, body
    headers = []
    if range_ is not None:
        headers.append((b"range", range_.encode("latin-1")))
    if if_range is not None:
        headers.append((b"if-range", if_range.encode("latin-1")))
    events = []

    async def send(msg):
        events.append(msg)

    async def receive():
        return {"type": "http.disconnect"}

    loop().run_until_complete(asgi_responses.FileResponse(path)({"type": "http", "method": method, "headers": headers},
                                                                receive, send))
    start = [m for m in events if m["type"] == "http.response.start"][0]
    body = b"".join(m.get("body", b"") for m in events if m["type"] == "http.response.body")
    return start["status"], {k.decode("latin-1").lower(): v.decode("latin-1") for k, v in start["headers"]}, body
