"""
Shared machinery of the multipart plugins (C01, C15): encoder, reference parser
(the oracle's own reading of a well-formed body), adapters running the real
decoder / helpers / form accessors, canonical rendering.
"""
import asyncio
import io
import re

import baize.multipart_helper as helper_mod
from baize.datastructures import UploadFile
from baize.exceptions import HTTPException
from baize.multipart import (Data, Epilogue, Field, File, MultipartDecoder, NeedData, Preamble)
from baize.multipart import State as _MPState

from .common import dec_bytes, dec_text, enc, exc_name

BLANKS = b" \t\x0b\x0c"


# ----------------------------------------------------------------------------- encoder


class Part:
    def __init__(self, name, content, filename=None, headers=()):
        self.name = name            # str
        self.content = content      # bytes
        self.filename = filename    # str | None
        self.headers = list(headers)  # extra (name, value) pairs, e.g. Content-Type


def encode_form(boundary, parts, preamble=b"", epilogue=b"", charset="utf-8"):
    """canonical RFC 7578 rendering: CRLF everywhere, Content-Disposition first"""
    out = bytearray()
    if preamble:
        out += preamble + b"\r\n"
    for p in parts:
        out += b"--" + boundary + b"\r\n"
        cd = 'Content-Disposition: form-data; name="%s"' % p.name
        if p.filename is not None:
            cd += '; filename="%s"' % p.filename
        out += cd.encode(charset) + b"\r\n"
        for k, v in p.headers:
            out += ("%s: %s" % (k, v)).encode(charset) + b"\r\n"
        out += b"\r\n" + p.content + b"\r\n"
    out += b"--" + boundary + b"--\r\n" + epilogue
    return bytes(out)


# ----------------------------------------------------------------------------- reference parser


def ref_parse_any_break(body, boundary, charset):
    """ref_parse, also for a body written with bare LF (or bare CR) line breaks throughout - the decoder accepts
    them - as long as no part content contains a line break itself (then the reading is unambiguous)"""
    exp = ref_parse(body, boundary, charset)
    if exp is not None or b"\r\n" in body:
        return exp
    kinds = [br for br in (b"\n", b"\r") if br in body]
    if len(kinds) != 1:
        return None
    exp = ref_parse(body.replace(kinds[0], b"\r\n"), boundary, charset)
    if exp is None or any(b"\r" in p.content or b"\n" in p.content for p in exp["parts"]):
        return None
    return exp


def py_decode(data, charset):
    try:
        return data.decode(charset)
    except (UnicodeDecodeError, LookupError):
        return data.decode("latin-1")


def ref_parse(body, boundary, charset):
    """
    The oracle's own reading of a body.  Returns the list of expected items
    [(kind, name, text | (filename, headers, content))] when `body` is exactly
    the canonical encoding of a form of the property's class (contents and
    preamble free of '--'+boundary; names/filenames without quote, backslash,
    line break), else None (the oracle then demands nothing).
    """
    mk = b"--" + boundary
    if not boundary or any(c in boundary for c in b"\r\n") or boundary[-1:] in (b" ", b"\t", b"\x0b", b"\x0c"):
        return None
    try:
        b"".decode(charset)
    except LookupError:
        # the label names no text encoding (unknown, or a bytes-to-bytes / str-to-str codec such as hex, base64,
        # rot13, zlib): the text of the form is its Latin-1 reading (baize's documented fallback, /repo b56c03c)
        charset = "latin-1"
    except Exception:  # noqa
        return None
    i = body.find(mk)
    if i < 0:
        return None
    if i == 0:
        preamble = b""
    else:
        if body[i - 2:i] != b"\r\n":
            return None
        preamble = body[:i - 2]
        if not preamble:
            return None  # the encoder writes no CRLF for an empty preamble
    pos = i + len(mk)
    parts = []
    block_lens = []
    while True:
        if body[pos:pos + 2] == b"--":
            if body[pos + 2:] == b"":
                epilogue = b""          # the body ends with the close-delimiter (RFC 2046: [CRLF epilogue] is optional)
                break
            if body[pos + 2:pos + 4] != b"\r\n":
                return None
            epilogue = body[pos + 4:]
            break
        if body[pos:pos + 2] != b"\r\n":
            return None
        pos += 2
        j = body.find(b"\r\n\r\n", pos)
        if j < 0:
            return None
        block = body[pos:j]
        block_lens.append(len(block))
        k = body.find(b"\r\n" + mk, j + 4)
        if k < 0:
            return None
        content = body[j + 4:k]
        lines = block.split(b"\r\n")
        try:
            text_lines = [l.decode(charset) for l in lines]
        except (UnicodeDecodeError, LookupError):
            return None
        m = re.fullmatch(r'Content-Disposition: form-data; name="([^"\\\r\n]*)"(?:; filename="([^"\\\r\n]*)")?',
                         text_lines[0])
        if not m:
            return None
        extra = []
        for l in text_lines[1:]:
            hm = re.fullmatch(r"([A-Za-z][A-Za-z0-9-]*): ([!-~](?:[ -~]*[!-~])?)", l)
            if not hm or hm.group(1).lower() == "content-disposition":
                return None
            extra.append((hm.group(1), hm.group(2)))
        if len({k.lower() for k, _ in extra}) != len(extra):
            return None
        parts.append(Part(m.group(1), content, m.group(2), extra))
        pos = k + 2 + len(mk)
    if mk in preamble:
        return None
    if any(mk in p.content for p in parts):
        return None
    # names ending/starting with whitespace are stripped by any header parser: outside the class
    for p in parts:
        for s in (p.name, p.filename or "x"):
            if s != s.strip():
                return None
    try:
        canonical = encode_form(boundary, parts, preamble, epilogue, charset)
        if canonical != body and not (epilogue == b"" and canonical[:-2] == body):
            return None
    except (UnicodeEncodeError, LookupError):
        return None
    items = []
    for p in parts:
        if p.filename is None:
            try:
                text = p.content.decode(charset)
            except (UnicodeDecodeError, LookupError):
                return None  # field text that is not valid in the charset: no expectation
            items.append(("f", p.name, text))
        else:
            hdrs = [("content-disposition",
                     'form-data; name="%s"; filename="%s"' % (p.name, p.filename))]
            hdrs += [(k.lower(), v) for k, v in p.headers]
            items.append(("x", p.name, (p.filename, hdrs, p.content)))
    return {"items": items, "preamble": preamble, "parts": parts,
            "field_bytes": sum(len(p.content) for p in parts if p.filename is None),
            "max_block": max([len(preamble) + 2] + [n + 4 for n in block_lens])}


# ----------------------------------------------------------------------------- canonical rendering


def r_name(n):
    return "None" if n is None else enc(n)


def r_headers(h):
    items = list(h.items()) if hasattr(h, "items") else list(h)
    return ";".join("%s=%s" % (enc(k), enc(v)) for k, v in items) if items else "-"


def r_event(ev):
    if isinstance(ev, NeedData):
        return "N"
    if isinstance(ev, Preamble):
        return "P:" + enc(ev.data)
    if isinstance(ev, Field):
        return "F:%s:%s" % (r_name(ev.name), r_headers(ev.headers))
    if isinstance(ev, File):
        return "X:%s:%s:%s" % (r_name(ev.name), enc(ev.filename), r_headers(ev.headers))
    if isinstance(ev, Data):
        return "D:%s:%s" % (enc(ev.data), "1" if ev.more_data else "0")
    if isinstance(ev, Epilogue):
        return "E:" + enc(ev.data)
    return "?"


def r_items(items, read):
    out = []
    for name, val in items:
        if isinstance(val, str):
            out.append("f:%s:%s" % (r_name(name), enc(val)))
        elif isinstance(val, (bytes, bytearray)) or not hasattr(val, "filename"):
            # neither text nor an upload: rendered as what it is (never equal to an expected item)
            out.append("?%s:%s:%s" % (type(val).__name__, r_name(name), enc(bytes(val)) if isinstance(val, (bytes, bytearray)) else "-"))
        else:
            out.append("x:%s:%s:%s:%s" % (r_name(name), enc(val.filename), r_headers(val.headers), enc(read(val))))
    return "|".join(out) if out else "-"


def r_expected(items):
    out = []
    for kind, name, val in items:
        if kind == "f":
            out.append("f:%s:%s" % (enc(name), enc(val)))
        else:
            fn, hdrs, content = val
            out.append("x:%s:%s:%s:%s" % (enc(name), enc(fn), r_headers(hdrs), enc(content)))
    return "|".join(out) if out else "-"


def charset_of(tok):
    return {"utf8": "utf-8", "latin1": "latin-1"}.get(tok, tok)


def chunks_of(tok):
    return [] if tok == "_" else [dec_bytes(c) for c in tok.split("/")]


def enc_chunks(chunks):
    return "/".join(enc(c) for c in chunks) if chunks else "_"


# ----------------------------------------------------------------------------- adapters (real code)


class _Rec:
    held = 0
    dheld = 0


class RecordingDecoder(MultipartDecoder):
    """the real decoder, recording len(buffer) whenever the helper's loop is about to wait for data"""

    def next_event(self):
        ev = super().next_event()
        if isinstance(ev, (NeedData, Epilogue)):
            _Rec.held = max(_Rec.held, len(self.buffer))
            if self.state is _MPState.DATA:
                _Rec.dheld = max(_Rec.dheld, len(self.buffer))
        return ev


helper_mod.MultipartDecoder = RecordingDecoder


def run_events(boundary, charset, chunks):
    dec = MultipartDecoder(boundary, charset)
    groups = []
    held = 0
    for c in list(chunks) + [None]:
        dec.receive_data(c)
        evs = []
        stop = False
        while True:
            try:
                ev = dec.next_event()
            except HTTPException as exc:
                evs.append("http%d" % exc.status_code)
                stop = True
                break
            except Exception as exc:  # noqa
                evs.append("crash:" + type(exc).__name__)
                stop = True
                break
            if isinstance(ev, NeedData):
                break
            evs.append(r_event(ev))
            if isinstance(ev, Epilogue):
                break
        groups.append("~".join(evs) if evs else ".")
        if stop:
            break
        if c is not None:
            held = max(held, len(dec.buffer))
    return " ".join(groups) + " held=%d" % held


class MinSyncSink:
    """a file_factory offering exactly SyncUploadFileInterface: __init__, write, seek (no close, no read)"""

    def __init__(self, filename, headers):
        self.filename, self.headers, self.buf, self.pos = filename, headers, bytearray(), 0

    def write(self, data):
        self.buf[self.pos:self.pos + len(data)] = data
        self.pos += len(data)

    def seek(self, offset):
        self.pos = offset

    def __len__(self):          # a container-like sink: falsy while nothing has been written to it
        return len(self.buf)

    @property
    def content_type(self):
        return self.headers.get("content-type", "")


class MinAsyncSink:
    """a file_factory offering exactly AsyncUploadFileInterface: __init__, awrite, aseek"""

    def __init__(self, filename, headers):
        self.filename, self.headers, self.buf, self.pos = filename, headers, bytearray(), 0

    async def awrite(self, data):
        self.buf[self.pos:self.pos + len(data)] = data
        self.pos += len(data)

    async def aseek(self, offset):
        self.pos = offset

    def __len__(self):
        return len(self.buf)

    @property
    def content_type(self):
        return self.headers.get("content-type", "")


_POISON = (b"--px\r\nContent-Disposition: form-data; name=\"secret\"\r\n\r\nLEAKED-FROM-AN-EARLIER-REQUEST",
           b"--px\r\nContent-Disposition: form-data; name=\"f\"; filename=\"x\"\r\n\r\nLEAKED-FILE-BYTES")


def _poison(is_async):
    """an EARLIER request of the same process whose parse ended in the middle of a part (truncated body, then one
    that hits the memory limit): whatever it left behind must not show up in the parse that follows"""
    for body, limit in ((_POISON[0], None), (_POISON[1], None), (_POISON[0] + b"\r\n--px--\r\n", 3)):
        kw = dict(file_factory=UploadFile)
        if limit is not None:
            kw["max_form_memory_size"] = limit
        try:
            if is_async:
                async def agen():
                    yield body[:20]
                    yield body[20:]

                asyncio.run(helper_mod.parse_async_stream(agen(), b"px", "utf8", **kw))
            else:
                helper_mod.parse_stream(iter([body[:20], body[20:]]), b"px", "utf8", **kw)
        except Exception:  # noqa
            pass


STREAM_OPS = ("mp_stream", "mp_astream", "mp_stream_min", "mp_astream_min")


def run_stream(boundary, charset, max_parts, max_mem, chunks, is_async, minimal=False):
    _poison(is_async)
    _Rec.held = 0
    _Rec.dheld = 0
    factory = UploadFile if not minimal else (MinAsyncSink if is_async else MinSyncSink)
    kw = dict(file_factory=factory)
    # the documented defaults are left to the helper itself, so that a changed default is seen too
    if max_parts != 324:
        kw["max_form_parts"] = max_parts
    if max_mem is not None:
        kw["max_form_memory_size"] = max_mem
    try:
        if is_async:
            async def agen():
                for c in chunks:
                    yield c

            async def main():
                items = await helper_mod.parse_async_stream(agen(), boundary, charset, **kw)
                out = []
                for n, v in items:
                    out.append((n, v))
                return items

            items = asyncio.run(main())
        else:
            items = helper_mod.parse_stream(iter(chunks), boundary, charset, **kw)
    except Exception as exc:  # noqa
        return "%s held=%d dheld=%d" % (exc_name(exc), _Rec.held, _Rec.dheld)
    if minimal:
        text = r_items(items, lambda f: bytes(f.buf))
    else:
        text = r_items(items, lambda f: f.read())
        for _, v in items:
            if not isinstance(v, str) and hasattr(v, "close"):
                v.close()
    return "ok %s held=%d dheld=%d" % (text, _Rec.held, _Rec.dheld)


class ChunkInput:
    """wsgi.input whose read() returns the given (non-empty) chunks one by one, then b''"""

    def __init__(self, chunks):
        self.chunks = [c for c in chunks]

    def read(self, size=-1):
        return self.chunks.pop(0) if self.chunks else b""


def run_wsgi_form(content_type, chunks):
    from baize.wsgi import Request

    environ = {"REQUEST_METHOD": "POST", "CONTENT_TYPE": content_type, "wsgi.input": ChunkInput(chunks),
               "CONTENT_LENGTH": str(sum(len(c) for c in chunks)), "QUERY_STRING": "", "wsgi.url_scheme": "http", "SERVER_NAME": "t", "SERVER_PORT": "80"}
    req = Request(environ)
    try:
        form = req.form
    except Exception as exc:  # noqa
        return exc_name(exc)
    text = r_items(form.multi_items(), lambda f: f.read())
    try:
        req.close()
    except Exception as exc:  # noqa
        return "ok %s !close:%s" % (text, exc_name(exc))
    return "ok " + text


def run_asgi_form(content_type, chunks):
    from baize.asgi import Request

    msgs = [{"type": "http.request", "body": c, "more_body": True} for c in chunks]
    if msgs:
        msgs[-1]["more_body"] = False
    else:
        msgs = [{"type": "http.request", "body": b"", "more_body": False}]

    async def receive():
        return msgs.pop(0) if msgs else {"type": "http.disconnect"}

    scope = {"type": "http", "method": "POST", "headers": [(b"content-type", content_type.encode("latin-1"))],
             "path": "/", "query_string": b""}

    async def main():
        req = Request(scope, receive)
        form = await req.form
        text = r_items(form.multi_items(), lambda f: f.read())
        await req.close()
        return text

    try:
        return "ok " + asyncio.run(main())
    except Exception as exc:  # noqa
        return exc_name(exc)


def impl(line):
    a = line.split(" ")
    op = a[0]
    if op == "mp_events":
        return run_events(dec_bytes(a[1]), charset_of(a[2]), chunks_of(a[3]))
    if op in STREAM_OPS:
        return run_stream(dec_bytes(a[1]), charset_of(a[2]), int(a[3]), None if a[4] == "none" else int(a[4]),
                          chunks_of(a[5]), "astream" in op, op.endswith("_min"))
    if op == "mp_wsgi_form":
        return run_wsgi_form(dec_text(a[1]), chunks_of(a[2]))
    if op == "mp_asgi_form":
        return run_asgi_form(dec_text(a[1]), chunks_of(a[2]))
    if op == "mp_header":
        from baize.utils import parse_header

        k, opts = parse_header(dec_text(a[1]))
        return "%s %s" % (enc(k), r_headers(opts))
    raise ValueError(op)


def body_of(line):
    """(boundary, charset, body, chunks) of any multipart op line, for the oracles"""
    a = line.split(" ")
    op = a[0]
    if op == "mp_events":
        return dec_bytes(a[1]), charset_of(a[2]), chunks_of(a[3])
    if op in STREAM_OPS:
        return dec_bytes(a[1]), charset_of(a[2]), chunks_of(a[5])
    if op in ("mp_wsgi_form", "mp_asgi_form"):
        from baize.utils import parse_header

        _, opts = parse_header(dec_text(a[1]))
        cs = opts.get("charset", "utf8")
        try:
            "".encode(cs)
        except LookupError:
            cs = "latin-1"
        return opts.get("boundary", "").encode("latin-1"), cs, chunks_of(a[2])
    return None


def describe(line):
    a = line.split(" ")
    info = body_of(line)
    d = {"op": a[0]}
    if info:
        b, cs, chunks = info
        d.update(boundary=repr(b), charset=cs, chunks=[repr(c) for c in chunks], body=repr(b"".join(chunks)))
    if a[0] in STREAM_OPS:
        d.update(max_form_parts=a[3], max_form_memory_size=a[4])
    if a[0] == "mp_header":
        d["header"] = dec_text(a[1])
    return d


# ----------------------------------------------------------------------------- generators


ADV = [b"\r", b"\n", b"-", b"--", b"\r\n", b"\r\n-", b"\r\n--", b"b", b"d", b" ", b"\t", b"x", b"\x00", b"\xff"]


def rand_content(rng, boundary, maxlen=24):
    mk = b"--" + boundary
    for _ in range(20):
        n = rng.choice([0, 0, 1, 2, 3, 5, 8, rng.randrange(0, maxlen + 1)])
        out = b""
        while len(out) < n:
            r = rng.random()
            if r < 0.55:
                out += rng.choice(ADV)
            elif r < 0.7:
                out += b"\r\n--" + boundary[:rng.randrange(0, len(boundary))]   # partial delimiter
            elif r < 0.8:
                out += boundary
            else:
                out += bytes([rng.randrange(256)])
        out = out[:max(n, 0)] if rng.random() < 0.7 else out
        if mk not in out:
            return out
    return b"zz"


BOUNDARIES = [b"bd", b"-", b"--", b"a-b", b"b", b"X" * 70, b"a.b(c)[d]+*?^$|\\", b"----WebKitFormBoundary7MA4YWxk",
              b"'()+_,-./:=?", b"0", b"next part 7e3", b"a b"]
NAMES = ["rate 100%22", "report%0A50", "%0D", "a%2522b", "a", "b", "field", "name with space", "üñî", "中文", "x;y", "a=b", "q'z", "",
         "n:1", "*",
         # characters that str.splitlines / str.strip treat specially but that are NOT line breaks of the format
         "a\x0cb", "t\x1cu", "n\x85m", "x\u2028y", "v\x0bw", "p\u2029q"]
FILENAMES = ["dir/name.bin", "/abs/path.txt", "../up.txt", "a/b/", "report 50%0A.txt", "q%22uote%22.bin", "f.txt", "a b.bin", "é.png", "semi;colon.txt", "", "中.bin", "C:fake", "x=y",
             "ff\x0c.bin", "ls\u2028.txt", "nel\x85.dat", "fs\x1c"]
EXTRA = [("Content-Type", "text/plain"), ("Content-Type", "application/octet-stream"), ("X-Custom", "a: b; c"),
         ("Content-Transfer-Encoding", "binary"), ("X-Empty-Ish", "0")]


def rand_text(rng):
    alpha = ["a", "b", " ", "\r", "\n", "-", "é", "中", "\U0001f600", "=", ";", '"']
    return "".join(rng.choice(alpha) for _ in range(rng.choice([0, 1, 2, 3, 6, 12])))


def rand_form(rng, boundary, max_parts=4, maxlen=24):
    parts = []
    for _ in range(rng.choice([0, 1, 1, 2, 2, 3, max_parts])):
        name = rng.choice(NAMES)
        if rng.random() < 0.5:
            mk = b"--" + boundary
            for _ in range(10):
                t = rand_text(rng).encode("utf-8")
                if mk not in t:
                    break
            else:
                t = b"t"
            parts.append(Part(name, t))
        else:
            hdrs = []
            if rng.random() < 0.7:
                hdrs.append(rng.choice(EXTRA[:2]))
            if rng.random() < 0.3:
                hdrs.append(rng.choice(EXTRA[2:]))
            parts.append(Part(name, rand_content(rng, boundary, maxlen), rng.choice(FILENAMES), hdrs))
    pre = b""
    if rng.random() < 0.3:
        pre = rng.choice([b"preamble", b"x\r", b"\r\n", b"-", b"--", b"this is\r\nignored", b"\n"])
        if b"--" + boundary in pre:
            pre = b"p"
    epi = rng.choice([b"", b"", b"epilogue", b"\r\n", b"--" + boundary + b"\r\n", b"\r"])
    return parts, pre, epi


def all_partitions(body, limit):
    """every way of cutting `body` into consecutive non-empty chunks (2^(n-1)), capped"""
    n = len(body)
    if n == 0:
        yield []
        return
    total = 1 << (n - 1)
    step = max(1, total // limit)
    for mask in range(0, total, step):
        chunks, start = [], 0
        for i in range(n - 1):
            if mask >> i & 1:
                chunks.append(body[start:i + 1])
                start = i + 1
        chunks.append(body[start:])
        yield chunks


def rand_partition(rng, body, empties=True):
    mode = rng.random()
    n = len(body)
    if mode < 0.15:
        chunks = [body]
    elif mode < 0.35:
        chunks = [body[i:i + 1] for i in range(n)]
    elif mode < 0.5:
        k = rng.choice([2, 3, 5, 7, 16])
        chunks = [body[i:i + k] for i in range(0, n, k)]
    else:
        cuts = sorted(rng.randrange(0, n + 1) for _ in range(rng.randrange(1, 8))) if n else []
        chunks, prev = [], 0
        for c in cuts + [n]:
            chunks.append(body[prev:c])
            prev = c
    if not empties:
        chunks = [c for c in chunks if c]
    elif rng.random() < 0.3:
        chunks.insert(rng.randrange(0, len(chunks) + 1), b"")
    return chunks


def malformed_body(rng, boundary):
    parts, pre, epi = rand_form(rng, boundary)
    body = encode_form(boundary, parts, pre, epi)
    r = rng.random()
    if r < 0.25:
        body = body[:rng.randrange(0, len(body) + 1)]                      # truncated
    elif r < 0.45:
        body = body.replace(b"\r\n", rng.choice([b"\n", b"\r"]))            # bare LF / CR line breaks
    elif r < 0.6:
        pad = rng.choice([b" ", b"\t", b" \t ", b"\x0b", b"\x0c "])
        body = body.replace(b"--" + boundary + b"\r\n", b"--" + boundary + pad + b"\r\n")   # transport padding
    elif r < 0.7:
        body = body.replace(b"Content-Disposition", rng.choice([b"Content-Dis", b"X", b"content-disposition"]))
    elif r < 0.8:
        body = body.replace(b": form-data", b" form-data", 1)               # header line without colon
    elif r < 0.9 and body:
        i = rng.randrange(len(body))
        body = body[:i] + bytes([rng.randrange(256)]) + body[i + 1:]
    else:
        body = bytes(rng.choice(b"\r\n-bd x") for _ in range(rng.randrange(0, 40)))
    return body
