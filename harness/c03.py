"""C03 — a Range header resolves to the canonical set of satisfiable byte ranges."""
import itertools
import re

from baize.responses import FileResponseMixin

from .common import corpus_lines, dec_text, enc, exc_name

PROPERTY = "C03"
LEAN_MODULES = ["BaizeVerif.Props.C03"]
MODEL_MODULES = ["BaizeVerif.Model.Range"]
DRIVER_OPS = {"parse_range": "Range.run"}
THEOREMS = [
    "Baize.Range.accepted_canonical",
    "Baize.Range.accepted_exact",
    "Baize.Range.reject_416_iff",
    "Baize.Range.reject_400_iff",
    "Baize.Range.order_independent",
    "Baize.Range.parseRange_sound",
    "Baize.Range.source_pinned",
    "Baize.Range.header_text_specs",
    "Baize.Range.grammatical_header",
]
MANIFEST = {
    "technique": "Lean 4 proof (induction over the spec list) + differential correspondence of the Lean model "
                 "with parse_range",
    "text": "Lean theorems over an executable model of parse_range (canonical form, exact cover, exact 400/416 "
            "characterisation, order independence, for every size and every list of specs); the model is tied to "
            "/repo on every run by regenerated constants and by a differential correspondence (exhaustive small "
            "range sets + random + mutated headers) against the real function; an independent oracle states the "
            "property on the implementation's outputs.",
    "note": "Trusted: Lean kernel (propext, Classical.choice, Quot.sound only), tools/extract.py, the "
            "correspondence generator; CPython re/int/sorted behave as sampled. Header text is Latin-1.",
    "design": "C03",
}
CORRESPONDENCE = "Baize.Range.parseRange  vs  baize.responses.FileResponseMixin.parse_range"
RULE = ("corpus of past failures; exhaustive range sets with <=2 (quick) / <=3 (thorough) specs over a "
        "small number domain x sizes {0,1,5,10}; random 1-12 spec sets with overlapping/nested/adjacent "
        "patterns and long numbers; mutated and arbitrary Latin-1 text.  non-trivial = accepted with >=2 "
        "specs, or rejected with a satisfiable/unsatisfiable mix; distinct = distinct op line")
TRUSTED = [
    "CPython re.findall on r'(\\d*)-(\\d*)' agrees with Baize.Range.scan (checked on every generated header)",
    "sorted() on tuples = the unique ascending arrangement (insertion sort in the model)",
]
ASSUMPTIONS = [
    "header text is Latin-1 (code points < 256), so \\d is exactly 0-9",
    "Python 3.12 int() digit limit 4300 (sys.int_max_str_digits default)",
]


def impl(line):
    op, hdr, size = line.split(" ")
    def once():
        try:
            rs = FileResponseMixin.parse_range(dec_text(hdr), int(size))
        except Exception as exc:  # noqa
            return exc_name(exc), None
        return "ok " + (",".join("%d-%d" % (a, b) for a, b in rs) if rs else "-"), rs

    first, rs = once()
    # the answer is a function of (header, size) alone: the caller scribbling over the list it was handed, and
    # asking again, must not change it (a memoised result shared between callers would)
    if isinstance(rs, list):
        rs.append((10 ** 9, 10 ** 9 + 1))
        rs.reverse()
    second, _ = once()
    if first != second:
        return "REPEAT first [%s] second [%s]" % (first, second)
    # the answer is a function of the SET of specs (the statement speaks of "any spec" / "the specs"): the same
    # specs written in the opposite order get the same answer - the same ranges, or the same rejection
    text = dec_text(hdr)
    if GRAMMAR.fullmatch(text) and "," in text:
        unit, rest = text.split("=", 1)
        rev = unit + "=" + ",".join(reversed([p.strip(" \t") for p in rest.split(",")]))
        try:
            rs2 = FileResponseMixin.parse_range(rev, int(size))
            other = "ok " + (",".join("%d-%d" % (a, b) for a, b in rs2) if rs2 else "-")
        except Exception as exc:  # noqa
            other = exc_name(exc)
        if other != first:
            return "ORDER as written [%s] specs reversed [%s]" % (first, other)
    return first


# ---- oracle: the property stated directly, independent of the Lean model -------------

SPEC = r"(?:\d+-\d*|-\d+)"
GRAMMAR = re.compile(r"bytes=[ \t]*%s(?:[ \t]*,[ \t]*%s)*[ \t]*" % (SPEC, SPEC))


def oracle(line, out):
    _, hdr, size = line.split(" ")
    text, n = dec_text(hdr), int(size)
    if out.startswith("REPEAT"):
        return "the same header and size resolved differently the second time: %s" % out[:200]
    if out.startswith("ORDER"):
        return "the answer depends on the order in which the same specs are written: %s" % out[:200]
    if out.startswith("crash") or out == "hang":
        return "parse_range raised a non-HTTP error: %s" % out
    if out.startswith("http"):
        if out not in ("http 400", "http 416"):
            return "unexpected status %s" % out
    rs = None
    if out.startswith("ok"):
        body = out[3:]
        rs = [] if body == "-" else [tuple(map(int, p.split("-"))) for p in body.split(",")]
        # canonical form is demanded of every accepted answer
        if not rs:
            return "accepted with an empty range list"
        prev_end = None
        for a, b in rs:
            if not (0 <= a < b <= n):
                return "range (%d,%d) is empty or outside [0,%d)" % (a, b, n)
            if prev_end is not None and a <= prev_end:
                return "ranges not strictly ascending / disjoint / non-adjacent: %s" % (rs,)
            prev_end = b
    if not GRAMMAR.fullmatch(text):
        # outside the grammar.  Text that is a bytes range set under NO reading - no '=', a unit other than
        # "bytes" (case and blanks ignored), or not a single first-last / first- / -suffix spec after the '=' -
        # is malformed whatever the file size: 400.  Anything else is lenient input: a 4xx or a canonical
        # in-file result is all that is asked.
        unit, eq, rest = text.partition("=")
        if not eq or unit.strip().lower() != "bytes" or not re.search(r"\d-|-\d", rest):
            if out != "http 400":
                return "not a bytes range set: expected http 400, got %s" % out
        return None
    specs = re.findall(r"(\d*)-(\d*)", text.split("=", 1)[1])
    overlong = any(len(a) > 4300 or len(b) > 4300 for a, b in specs)
    if overlong and out == "http 400":
        return None     # a number the implementation's integer conversion refuses: rejecting the header is allowed

    def num(t):       # position texts of any length: what they denote, not what int() accepts
        t = t.lstrip("0")
        return 10 ** 30 if len(t) > 30 else int(t or "0")

    unsat = False
    inverted = False
    ivs = []
    for a, b in specs:
        if a:
            first = num(a)
            if first >= n:
                unsat = True
            if b:
                last = num(b)
                if first > last:
                    inverted = True
                ivs.append((first, min(last, n - 1) + 1))
            else:
                ivs.append((first, n))
        else:
            suf = num(b)
            if suf == 0 or suf > n:
                unsat = True
            ivs.append((n - suf, n))
    if unsat or inverted:
        allowed = set()
        if unsat:
            allowed.add("http 416")
        if inverted:
            allowed.add("http 400")
        if out not in allowed:
            return "expected %s, got %s" % (" or ".join(sorted(allowed)), out)
        return None
    if rs is None:
        return "satisfiable range set rejected with %s" % out
    # exact cover: compare as canonical unions (brute force over merged intervals)
    ivs.sort()
    merged = []
    for a, b in ivs:
        if merged and a <= merged[-1][1]:
            merged[-1] = (merged[-1][0], max(merged[-1][1], b))
        else:
            merged.append((a, b))
    if n <= 64:
        want = set()
        for a, b in ivs:
            want.update(range(a, b))
        got = set()
        for a, b in rs:
            got.update(range(a, b))
        if want != got:
            return "covered positions differ: missing %s, extra %s" % (sorted(want - got), sorted(got - want))
    if merged != rs:
        return "expected %s, got %s" % (merged, rs)
    return None


def classify(line, out):
    _, hdr, size = line.split(" ")
    text = dec_text(hdr)
    k = len(re.findall(r"(\d*)-(\d*)", text))
    g = "gram" if GRAMMAR.fullmatch(text) else "lenient"
    return "%s/%s/specs=%s" % (out.split(" ")[0] + (out[4:] if out.startswith("http") else ""), g,
                               k if k < 4 else "4+")


def nontrivial(line, out):
    text = dec_text(line.split(" ")[1])
    return len(re.findall(r"(\d*)-(\d*)", text)) >= 2


def describe(line):
    _, hdr, size = line.split(" ")
    return {"header": dec_text(hdr), "size": int(size)}


# ---- generators ----------------------------------------------------------------------


def mk(text, size):
    return "parse_range %s %d" % (enc(text), size)


def cases(rng, tier):
    yield from corpus_lines(PROPERTY)
    nums = ["", "0", "1", "2", "4", "5", "6", "9", "10", "11"]
    small = ["", "0", "2", "5", "9", "10"]
    sizes = [0, 1, 5, 10]
    specs = ["%s-%s" % (a, b) for a in nums for b in nums]
    for size in sizes:
        for s in specs:
            yield mk("bytes=" + s, size)
        for s, t in itertools.product(specs, repeat=2):
            yield mk("bytes=%s,%s" % (s, t), size)
    if tier == "thorough":
        sp = ["%s-%s" % (a, b) for a in small for b in small]
        for size in sizes:
            for c in itertools.product(sp, repeat=3):
                yield mk("bytes=" + ",".join(c), size)
    # very many ranges that stay apart after merging (the count itself must not matter): k single bytes / short runs
    # with gaps, in order, reversed and shuffled, on files that hold them and on files that clip them
    for k in (2, 16, 63, 64, 65, 66, 100, 128, 129, 256, 257, 1000, 1024, 1025):
        for step, width in ((2, 1), (3, 2), (7, 3)):
            specs_k = ["%d-%d" % (i * step, i * step + width - 1) for i in range(k)]
            for size in (k * step + 5, k * step - step // 2, max(1, k * step // 2)):
                yield mk("bytes=" + ",".join(specs_k), size)
                yield mk("bytes=" + ", ".join(reversed(specs_k)), size)
            shuffled = list(specs_k)
            rng.shuffle(shuffled)
            yield mk("bytes=" + ",".join(shuffled), k * step + 1)
    n_random = 6000 if tier == "quick" else 120000
    for _ in range(n_random):
        kind = rng.random()
        size = rng.choice([0, 1, 2, 9, 10, 11, 100, 1000, 4096, 10 ** 6, 10 ** 12, rng.randrange(1, 5000)])
        if kind < 0.55:
            k = rng.randrange(1, 13)
            parts = []
            base = rng.randrange(0, max(size, 1) + 3)
            for _ in range(k):
                mode = rng.random()
                if mode < 0.55:
                    a = max(0, base + rng.randrange(-6, 7))
                    b = a + rng.choice([0, 0, 1, 2, 5, rng.randrange(0, max(2, size // 2 + 2))]) + rng.choice([0, 0, 0, -1, -2])
                    parts.append("%d-%s" % (a, max(b, 0)))
                    base = b + rng.choice([-3, 0, 1, 2, 3])
                elif mode < 0.7:
                    parts.append("%d-" % max(0, base + rng.randrange(-3, 4)))
                elif mode < 0.85:
                    parts.append("-%d" % rng.choice([0, 1, 2, size, size + 1, max(size - 1, 0), rng.randrange(0, size + 5)]))
                else:
                    a = rng.randrange(0, size + 2)
                    parts.append("%d-%d" % (a, rng.randrange(0, size + 2)))
            rng.shuffle(parts)
            sep = rng.choice([",", ", ", " , ", ",\t"])
            text = "bytes=" + sep.join(parts)
        elif kind < 0.65:
            # very long numbers, leading zeros
            d = rng.choice([1, 5, 19, 20, 25, 4299, 4300, 4301, 5000])
            a = "0" * rng.choice([0, 1, 3]) + str(rng.randrange(0, 10)) * d
            b = rng.choice(["", str(rng.randrange(0, 10 ** 6)), "9" * d])
            text = "bytes=" + rng.choice(["%s-%s" % (a, b), "-%s" % a, "0-1,%s-%s" % (a, b)])
        elif kind < 0.85:
            # mutations of a valid header
            text = "bytes=" + ",".join("%d-%d" % (a, a + rng.randrange(0, 9)) for a in
                                       (rng.randrange(0, size + 3) for _ in range(rng.randrange(1, 4))))
            chars = list(text)
            for _ in range(rng.randrange(1, 4)):
                pos = rng.randrange(0, len(chars) + 1)
                m = rng.random()
                alphabet = "0123456789-,= \tbytesx=\xb2\xb9;\x00"
                if m < 0.4 and chars:
                    chars[min(pos, len(chars) - 1)] = rng.choice(alphabet)
                elif m < 0.7:
                    chars.insert(pos, rng.choice(alphabet))
                elif chars:
                    del chars[min(pos, len(chars) - 1)]
            text = "".join(chars)
        else:
            text = "".join(chr(rng.choice([rng.randrange(0, 256), 45, 48, 49, 57, 61, 44, 98])) for _ in
                           range(rng.randrange(0, 24)))
            if rng.random() < 0.5:
                text = "bytes=" + text
        yield mk(text, size)


# ---- the resolution as the two file responses apply it -------------------------------

def _content_ranges(headers, data):
    """the half-open ranges a 206 announces: its Content-Range header, or those of its multipart parts"""
    single = [v for k, v in headers if k == "content-range"]
    texts = single if single else re.findall(rb"(?im)^content-range:[ \t]*(.*?)\r?$", data)
    out = []
    for t in texts:
        m = re.fullmatch(r"bytes (\d+)-(\d+)/(\d+)", t if isinstance(t, str) else t.decode("latin-1"))
        if m:
            out.append((int(m.group(1)), int(m.group(2)) + 1))
    return out


def _status_through(side, header, size):
    """status of a FileResponse over a file of `size` bytes asked with `Range: header` on one interface"""
    import asyncio
    import os
    import tempfile

    d = tempfile.mkdtemp(prefix="baize-verif-c03-")
    path = os.path.join(d, "f.bin")
    with open(path, "wb") as f:
        f.write(b"x" * size)
    try:
        if side == "wsgi":
            from baize.wsgi.responses import FileResponse
            got = {}
            env = {"REQUEST_METHOD": "GET", "HTTP_RANGE": header, "wsgi.input": None}
            body = FileResponse(path)(env, lambda st, hd, exc_info=None: got.update(status=st, headers=hd))
            data = b"".join(body)
            if hasattr(body, "close"):
                body.close()
            return int(got["status"].split(" ")[0]), _content_ranges(
                [(k.lower(), v) for k, v in got["headers"]], data)
        from baize.asgi.responses import FileResponse
        msgs = []

        async def receive():
            return {"type": "http.disconnect"}

        async def send(m):
            msgs.append(m)

        scope = {"type": "http", "method": "GET", "headers": [(b"range", header.encode("latin-1"))]}
        loop = asyncio.new_event_loop()
        try:
            loop.run_until_complete(FileResponse(path)(scope, receive, send))
        finally:
            loop.close()
        start = [m for m in msgs if m["type"] == "http.response.start"][0]
        data = b"".join(m.get("body", b"") for m in msgs if m["type"] == "http.response.body")
        return start["status"], _content_ranges(
            [(k.decode("latin-1").lower(), v.decode("latin-1")) for k, v in start["headers"]], data)
    finally:
        import shutil
        shutil.rmtree(d, ignore_errors=True)


def extra(rng, tier):
    """a header that range resolution rejects is rejected by the response that resolves it, on both interfaces, for
    every file size (the empty file and the empty header value included); an accepted one is answered 200 / 206"""
    headers = ["", "bytes=", "hello", "bytes", "items=0-1", "bytes=0-0", "bytes=-1", "bytes=-0", "bytes=0-", "bytes=3-",
               "bytes=5-3", "bytes=0-0,2-2", "bytes=9-", "bytes=10-", "bytes=-5", "bytes=a-b", "bytes=0-0,-0", " ",
               "bytes=0-4,6-9", "bytes=0-1,4-5,8-9", "bytes=8-9,0-1", "bytes=2-5,4-7", "bytes=-2,0-0",
               # header bytes beyond ASCII are part of the text that is resolved (Latin-1), not noise to drop or replace
               "bytes=0-1\xff2", "bytes\xa0=0-1", "bytes=0\xe9-1", "bytes=\xb2-3", "bytes=0-\xb9", "byt\xe9s=0-1", "bytes=0-1,\xa02-3",
               "bytes=1\x80-\x802"]
    violations, n, stats = [], 0, {}
    for size in (0, 1, 5, 10):
        for h in headers:
            try:
                resolved = list(FileResponseMixin.parse_range(h, size))
                want = None
            except Exception as exc:  # noqa
                want = getattr(exc, "status_code", None)
            for side in ("wsgi", "asgi"):
                n += 1
                announced = None
                try:
                    got, announced = _status_through(side, h, size)
                except Exception as exc:  # noqa
                    got = "raised %s" % exc_name(exc)
                key = "%s/%s" % (side, got)
                stats[key] = stats.get(key, 0) + 1
                ok = (got == want) if want is not None else got in (200, 206)
                if ok and got == 206 and announced != resolved:
                    violations.append({"line": "through_%s %s %d" % (side, enc(h), size), "out": "206 %s" % announced,
                                       "why": "range resolution of %r on %d bytes gives %s, the %s FileResponse serves %s" % (
                                           h, size, resolved, side.upper(), announced)})
                if not ok:
                    violations.append({"line": "through_%s %s %d" % (side, enc(h), size), "out": str(got),
                                       "why": "range resolution of %r on %d bytes %s, the %s FileResponse answered %s" % (
                                           h, size, "rejects with %s" % want if want else "accepts", side.upper(), got)})
    return {"violations": violations, "through_file_responses": n, "statuses": stats}
