"""C16 — cookies round-trip exactly and expire when asked."""
import datetime
import http.cookies
import itertools
import os
import re
import time

from baize.asgi import Request as AsgiRequest
from baize.datastructures import Cookie
from baize.responses import BaseResponse
from baize.wsgi import Request as WsgiRequest

from .common import corpus_lines, dec_text, enc, exc_name

PROPERTY = "C16"
LEAN_MODULES = ["BaizeVerif.Props.C16"]
MODEL_MODULES = ["BaizeVerif.Model.Cookie"]
DRIVER_OPS = {
    "ck_quote": "Cookie.runQuote",
    "ck_unquote": "Cookie.runUnquote",
    "ck_cookies": "Cookie.runCookies",
    "ck_set": "Cookie.runSetCookie",
    "ck_delete": "Cookie.runDeleteCookie",
    "ck_roundtrip": "Cookie.runRoundtrip",
    "ck_seq": "Cookie.runSeq",
}
THEOREMS = [
    "Baize.Cookie.table_facts",
    "Baize.Cookie.source_pinned",
    "Baize.Cookie.seq_emits_every_call",
    "Baize.Cookie.seq_delete_is_expired",
    "Baize.Cookie.quote_ascii",
    "Baize.Cookie.quote_no_separator",
    "Baize.Cookie.quote_strip_stable",
    "Baize.Cookie.unquote_eq_scan",
    "Baize.Cookie.roundtrip_single",
    "Baize.Cookie.roundtrip_among",
    "Baize.Cookie.roundtrip_all",
    "Baize.Cookie.days_civil_roundtrip",
    "Baize.Cookie.civil_valid",
    "Baize.Cookie.expires_denotes",
    "Baize.Cookie.weekday_correct",
    "Baize.Cookie.set_cookie_expires",
    "Baize.Cookie.max_age_verbatim",
    "Baize.Cookie.delete_is_expired",
]
GEN_MODULES = ["c16"]
MANIFEST = {
    "technique": "Lean 4 proof (induction over the value / the cookie list, integer arithmetic for the calendar) + "
                 "differential correspondence of the Lean model with Cookie, set_cookie, delete_cookie, "
                 "Request.cookies and http.cookies._unquote under several process time zones",
    "text": "Lean theorems over an executable model of Cookie._quote / Cookie.__str__ / set_cookie / delete_cookie / "
            "Request.cookies and a transcription of CPython's http.cookies._unquote: the quoted text is printable "
            "ASCII without ';' and strip-stable, unquote(quote v) = v for every value over code points 0..255, the "
            "value is recovered among any other cookies, the expires text denotes exactly now+seconds (proleptic "
            "Gregorian round trip, no time-zone parameter), max-age is verbatim, delete_cookie is already expired. "
            "Tables and format strings are regenerated from /repo on every run; the model is diffed against the real "
            "code (TZ = UTC, Asia/Shanghai, America/New_York, Europe/London, Pacific/Kiritimati, POSIX TZ strings).",
    "note": "Trusted: Lean kernel, tools/extract.py, the correspondence generator; glibc strftime in the C locale "
            "(LC_TIME is not varied), datetime.fromtimestamp(tz=utc), str.strip/split and re as sampled. Values are "
            "Latin-1 (code points < 256) as in the statement.",
    "design": "C16",
}
CORRESPONDENCE = ("Baize.Cookie.{quote,unquote,cookiesOf,line∘setCookie,line∘deleteCookie}  vs  Cookie._quote, "
                  "http.cookies._unquote, Request.cookies (wsgi+asgi), BaseResponse.set_cookie/delete_cookie + "
                  "list_headers")
RULE = ("corpus of past failures; every code point 0..255 alone and in 3 contexts, all pairs of dangerous code "
        "points, backslash/digit/newline strings exhaustively up to length 3 (quick) / 4 (thorough) for _unquote, "
        "random Latin-1 values and headers, several cookies per header, set_cookie over time zones x instants "
        "(DST switches, year ends, leap days, datetime range ends) x seconds.  non-trivial = a value that needs "
        "quoting, a header with >=2 chunks, an expires under a non-UTC zone")
TRUSTED = [
    "CPython 3.12 http.cookies._unquote agrees with Baize.Cookie.unquote (transcribed loop; checked on every "
    "generated string, exhaustively over a 10-letter alphabet up to length 3/4)",
    "datetime.fromtimestamp(t, tz=utc).strftime in the C locale agrees with Baize.Cookie.httpDate (checked on every "
    "generated instant); LC_TIME other than C is not exercised (no other locale is installed)",
    "str.strip / str.split / str.translate / re.fullmatch behave as sampled",
]
ASSUMPTIONS = [
    "cookie names/values are Latin-1 text (code points < 256); above that the writer emits the character raw "
    "(outside the statement)",
    "time.time() + expires is an integer-valued float (the harness patches time.time); sub-second parts are not "
    "modelled",
    "timestamps are within +-1e14 s (beyond that CPython raises OSError/OverflowError instead of ValueError)",
]
PARTIAL = None

TZS = ["UTC", "Asia/Shanghai", "America/New_York", "Europe/London", "Pacific/Kiritimati", "Pacific/Pago_Pago",
       "Asia/Kolkata", "Australia/Lord_Howe", "CST-8", "EST5EDT,M3.2.0,M11.1.0", "<+1345>-13:45"]
MIN_TS, MAX_TS = -62135596800, 253402300799


# ---- adapters ------------------------------------------------------------------------


def _environ(hdr):
    return {"REQUEST_METHOD": "GET", "SCRIPT_NAME": "", "PATH_INFO": "/", "QUERY_STRING": "",
            "SERVER_NAME": "h", "SERVER_PORT": "80", "SERVER_PROTOCOL": "HTTP/1.1", "wsgi.url_scheme": "http",
            "HTTP_COOKIE": hdr}


def request_cookies(hdr):
    """Request.cookies through both interfaces (the ASGI one only for Latin-1 text)"""
    w = dict(WsgiRequest(_environ(hdr)).cookies)
    try:
        raw = hdr.encode("latin-1")
    except UnicodeEncodeError:
        return w, None
    a = dict(AsgiRequest({"type": "http", "method": "GET", "path": "/", "query_string": b"",
                          "headers": [(b"cookie", raw)]}).cookies)
    return w, a


def render_dict(d):
    return " ".join("%s=%s" % (enc(k), enc(v)) for k, v in d.items()) if d else "-"


_CLOCK = [0]


def _response_built_earlier():
    """the response object exists for a while (a view builds it, works, then sets its cookies): it is constructed
    three days and seven seconds before the instant `now` at which the cookie calls are made"""
    now = _CLOCK[0]
    _CLOCK[0] = now - 259207
    try:
        return BaseResponse()
    finally:
        _CLOCK[0] = now


def with_clock(tz, now, fn):
    old_tz = os.environ.get("TZ")
    real = time.time
    os.environ["TZ"] = tz
    time.tzset()
    _CLOCK[0] = now
    time.time = lambda: float(_CLOCK[0])
    try:
        return fn()
    finally:
        time.time = real
        if old_tz is None:
            os.environ.pop("TZ", None)
        else:
            os.environ["TZ"] = old_tz
        time.tzset()


def header_text(resp):
    hs = resp.list_headers(as_bytes=False)
    if len(hs) != 1 or hs[0][0] != "set-cookie":
        return "mismatch list_headers=%r" % (hs,)
    text = hs[0][1]
    if all(ord(c) < 128 for c in text):
        hb = resp.list_headers(as_bytes=True)
        if hb != [(b"set-cookie", text.encode("ascii"))]:
            return "mismatch as_bytes=%r" % (hb,)
    return "ok " + enc(text)


def impl(line):
    args = line.split(" ")
    op = args[0]
    try:
        if op == "ck_quote":
            v = dec_text(args[1])
            return enc(Cookie("n", v)._quote(v))
        if op == "ck_unquote":
            return enc(http.cookies._unquote(dec_text(args[1])))
        if op == "ck_cookies":
            w, a = request_cookies(dec_text(args[1]))
            if a is not None and list(a.items()) != list(w.items()):
                return "mismatch wsgi=%r asgi=%r" % (w, a)
            return render_dict(w)
        if op == "ck_set":
            tz, now = args[1], int(args[2])
            name, value = dec_text(args[3]), dec_text(args[4])
            max_age = int(args[5])
            expires = None if args[6] == "none" else int(args[6])
            path, domain = dec_text(args[7]), dec_text(args[8])

            def go():
                r = _response_built_earlier()
                r.set_cookie(name, value, max_age=max_age, expires=expires, path=path, domain=domain or None,
                             secure=args[9] == "1", httponly=args[10] == "1", samesite=dec_text(args[11]))
                return header_text(r)

            return with_clock(tz, now, go)
        if op == "ck_delete":
            tz, now = args[1], int(args[2])

            def go():
                r = _response_built_earlier()
                r.delete_cookie(dec_text(args[3]), path=dec_text(args[4]), domain=dec_text(args[5]) or None,
                                secure=args[6] == "1", httponly=args[7] == "1", samesite=dec_text(args[8]))
                return header_text(r)

            return with_clock(tz, now, go)
        if op == "ck_seq":
            tz, now = args[1], int(args[2])

            def go():
                r = _response_built_earlier()
                for t in args[3:]:
                    f = t.split(":")
                    if f[0] == "s":
                        r.set_cookie(dec_text(f[1]), dec_text(f[2]), path=dec_text(f[3]))
                    else:
                        r.delete_cookie(dec_text(f[1]), path=dec_text(f[2]))
                hs = r.list_headers(as_bytes=False)
                if any(k != "set-cookie" for k, _ in hs):
                    return "mismatch list_headers=%r" % (hs,)
                return "ok " + ("|".join(enc(v) for _, v in hs) if hs else "-")

            return with_clock(tz, now, go)
        if op == "ck_roundtrip":
            r = BaseResponse()
            for a in args[1:]:
                n, v = a.split("=")
                r.set_cookie(dec_text(n), dec_text(v))
            pairs = [text.split(";", 1)[0] for _, text in r.list_headers(as_bytes=False)]
            w, a = request_cookies("; ".join(pairs))
            if a is not None and list(a.items()) != list(w.items()):
                return "mismatch wsgi=%r asgi=%r" % (w, a)
            return render_dict(w)
    except Exception as exc:  # noqa
        return exc_name(exc)
    return "bad-op"


# ---- oracle: the property stated on the implementation's output ----------------------

LEGAL = set("abcdefghijklmnopqrstuvwxyzABCDEFGHIJKLMNOPQRSTUVWXYZ0123456789!#$%&'*+-.^_`|~:")
WS = set(" \t\n\r\x0b\x0c\x1c\x1d\x1e\x1f\x85\xa0")


def is_token(s):
    return bool(s) and all(c in LEGAL for c in s)


def latin1(s):
    return all(ord(c) < 256 for c in s)


def parse_dict(out):
    if out == "-":
        return {}
    d = {}
    for item in out.split(" "):
        k, v = item.split("=")
        d[dec_text(k)] = dec_text(v)
    return d


def read_back(hdr):
    """(wsgi mapping, asgi mapping or None, None) — or (None, None, reason) when the reader raises"""
    try:
        w, a = request_cookies(hdr)
    except Exception as exc:  # noqa
        return None, None, "the request's cookie reader raised %s on %r" % (exc_name(exc), hdr)
    return w, a, None


def check_quoted(text, value, what):
    """`text` is the serialisation of `value`: ASCII, no ';', strip-stable, and read back identically"""
    for ch in text:
        if not (0x20 <= ord(ch) < 0x7f):
            return "%s %r contains the non-printable / non-ASCII code point %d" % (what, text, ord(ch))
    if ";" in text:
        return "%s %r contains ';'" % (what, text)
    if text != text.strip() or not text:
        return "%s %r is empty or not strip-stable" % (what, text)
    w, a, err = read_back("n=" + text)
    if err:
        return err
    for got in (w, a):
        if got is not None and got.get("n") != value:
            return "%s: sent back alone, the request reads %r instead of %r" % (what, got.get("n"), value)
    return None


def split_attrs(text):
    parts = text.split("; ")
    attrs = {}
    for p in parts[1:]:
        k, _, v = p.partition("=")
        attrs.setdefault(k, []).append(v)
    return parts[0], attrs


DATE_RE = re.compile(r"(Mon|Tue|Wed|Thu|Fri|Sat|Sun), (\d\d) (Jan|Feb|Mar|Apr|May|Jun|Jul|Aug|Sep|Oct|Nov|Dec) (\d+) "
                     r"(\d\d):(\d\d):(\d\d) GMT")
MONTHS = "Jan Feb Mar Apr May Jun Jul Aug Sep Oct Nov Dec".split()
DAYS = "Mon Tue Wed Thu Fri Sat Sun".split()


def http_date_seconds(text):
    """the instant an IMF-fixdate denotes (strict shape; the year is read as a plain number, so the unpadded
    years < 1000 that glibc prints are read permissively), None if it is not a date or the weekday is wrong"""
    m = DATE_RE.fullmatch(text)
    if not m:
        return None
    wd, d, mon, y, hh, mm, ss = m.groups()
    try:
        date = datetime.date(int(y), MONTHS.index(mon) + 1, int(d))
    except ValueError:
        return None
    if DAYS[date.weekday()] != wd or int(hh) > 23 or int(mm) > 59 or int(ss) > 59:
        return None
    return (date.toordinal() - 719163) * 86400 + int(hh) * 3600 + int(mm) * 60 + int(ss)


def oracle(line, out):
    args = line.split(" ")
    op = args[0]
    if out.startswith("mismatch"):
        return "the two interfaces / the two list_headers forms disagree: %s" % out
    if out == "hang":
        return "hang"
    if op == "ck_quote":
        v = dec_text(args[1])
        if not latin1(v):
            return None  # outside the statement
        if out.startswith("crash"):
            return "quoting raised %s" % out
        return check_quoted(dec_text(out), v, "quoted value")
    if op in ("ck_unquote", "ck_cookies"):
        if out.startswith("crash"):
            return "reader raised %s" % out
        return None
    if op in ("ck_set", "ck_delete"):
        tz, now = args[1], int(args[2])
        if op == "ck_set":
            name, value, max_age = dec_text(args[3]), dec_text(args[4]), int(args[5])
            expires = None if args[6] == "none" else int(args[6])
        else:
            name, value, max_age, expires = dec_text(args[3]), "", None, None
        if not (latin1(name) and latin1(value)):
            return None
        when = now + (expires if expires is not None else 0)
        if out.startswith("crash"):
            if (op == "ck_delete" or expires is not None) and not (MIN_TS <= when <= MAX_TS):
                return None  # the instant is not representable by datetime: refusing is allowed
            return "set_cookie raised %s" % out
        text = dec_text(out[3:])
        for ch in text:
            if ord(ch) >= 0x7f or ord(ch) < 0x20:
                if not (args[7 if op == "ck_set" else 4] or args[8 if op == "ck_set" else 5]):
                    return "Set-Cookie text is not printable ASCII: %r" % text
        pair, attrs = split_attrs(text)
        # the pair read back alone
        if is_token(name):
            if not pair.startswith(name + "="):
                return "pair %r does not start with the token name" % pair
            w, a, err = read_back(pair)
            if err:
                return err
            for got in (w, a):
                if got is not None and got.get(name) != value:
                    return "pair %r sent back alone reads %r, expected %r" % (pair, got.get(name), value)
        if op == "ck_set":
            if expires is None:
                if "expires" in attrs:
                    return "an expires attribute although none was requested"
            else:
                if len(attrs.get("expires", [])) != 1:
                    return "expected exactly one expires attribute, got %r" % attrs.get("expires")
                got = http_date_seconds(attrs["expires"][0])
                if got != when:
                    return ("expires=%r denotes %s but now+seconds = %d (TZ=%s): off by %s s"
                            % (attrs["expires"][0], got, when, tz, None if got is None else got - when))
            if max_age > -1:
                if attrs.get("max-age") != [str(max_age)]:
                    return "max-age is %r, requested %d" % (attrs.get("max-age"), max_age)
            elif "max-age" in attrs and attrs["max-age"] != [str(max_age)]:
                return "max-age is %r, requested %d" % (attrs.get("max-age"), max_age)
        else:
            seen = False
            if "expires" in attrs:
                got = http_date_seconds(attrs["expires"][0])
                if got is None or got > now:
                    return "deleted cookie has expires=%r which is not in the past at now=%d (TZ=%s)" % (
                        attrs["expires"][0], now, tz)
                seen = True
            if "max-age" in attrs:
                try:
                    if int(attrs["max-age"][0]) > 0:
                        return "deleted cookie has max-age=%s" % attrs["max-age"][0]
                except ValueError:
                    return "deleted cookie has max-age=%r" % attrs["max-age"][0]
                seen = True
            if not seen:
                return "deleted cookie carries neither expires nor max-age"
        return None
    if op == "ck_seq":
        tz, now = args[1], int(args[2])
        calls = [t.split(":") for t in args[3:]]
        calls = [(f[0], dec_text(f[1]), dec_text(f[-1])) for f in calls]      # (kind, name, path)
        if out.startswith("crash"):
            if not all(is_token(n) for _, n, _ in calls) or not (MIN_TS <= now <= MAX_TS):
                return None
            return "a call sequence of token-named cookies raised %s" % out
        lines = [] if out[3:] == "-" else [dec_text(x) for x in out[3:].split("|")]

        def expired(attrs):
            if "max-age" in attrs:
                try:
                    if int(attrs["max-age"][0]) <= 0:
                        return True
                except ValueError:
                    pass
            if "expires" in attrs:
                got = http_date_seconds(attrs["expires"][0])
                return got is not None and got <= now
            return False

        emitted = []      # (name, path, expired?)
        for text in lines:
            pair, attrs = split_attrs(text)
            emitted.append((pair.split("=", 1)[0], (attrs.get("path") or [""])[0], expired(attrs)))
        for idx, (kind, name, path) in enumerate(calls):
            if kind != "d" or not is_token(name) or ";" in path:
                continue
            mine = [e for e in emitted if e[0] == name and e[1] == path]
            if not any(e[2] for e in mine):
                return "delete_cookie(%r, path=%r) (call %d of %d): no expired cookie of that name and path is emitted" % (
                    name, path, idx + 1, len(calls))
            later = [c for c in calls[idx + 1:] if c[1] == name and c[2] == path]
            if not later and not mine[-1][2]:
                return ("delete_cookie(%r, path=%r) is the last call on that cookie but the last line emitted for it "
                        "is not expired" % (name, path))
        return None
    if op == "ck_roundtrip":
        cookies = [tuple(dec_text(x) for x in a.split("=")) for a in args[1:]]
        if not all(latin1(n) and latin1(v) for n, v in cookies):
            return None
        if out.startswith("crash"):
            return "round trip raised %s" % out
        got = parse_dict(out)
        want = {}
        for n, v in cookies:
            if is_token(n):
                want[n] = v
        for n, v in want.items():
            if got.get(n) != v:
                return "cookie %r: the request reads %r instead of %r" % (n, got.get(n), v)
        return None
    return "unknown op"


def classify(line, out):
    args = line.split(" ")
    op = args[0]
    kind = out.split(" ")[0] if out.startswith(("crash", "mismatch")) else "ok"
    if op == "ck_quote":
        v = dec_text(args[1])
        return "quote/%s/%s" % ("token" if is_token(v) else ("latin1" if latin1(v) else "wide"), kind)
    if op == "ck_unquote":
        t = dec_text(args[1])
        return "unquote/%s" % ("quoted" if len(t) >= 2 and t[0] == '"' and t[-1] == '"' else "bare")
    if op == "ck_cookies":
        return "cookies/chunks=%s" % min(dec_text(args[1]).count(";") + 1, 4)
    if op in ("ck_set", "ck_delete"):
        return "%s/%s/%s" % (op[3:], "utc" if args[1] == "UTC" else "non-utc", kind)
    if op == "ck_seq":
        ks = [t[0] for t in args[3:]]
        return "seq/n=%d/%s/%s" % (min(len(ks), 4), "del" if "d" in ks else "set-only", kind)
    return "roundtrip/n=%s" % min(len(args) - 1, 4)


def nontrivial(line, out):
    args = line.split(" ")
    op = args[0]
    if op == "ck_quote":
        return not is_token(dec_text(args[1]))
    if op == "ck_unquote":
        return "\\" in dec_text(args[1])
    if op == "ck_cookies":
        return ";" in dec_text(args[1])
    if op in ("ck_set", "ck_delete"):
        return args[1] != "UTC"
    if op == "ck_seq":
        return any(t[0] == "d" for t in args[3:]) and len(args) > 4
    return len(args) > 2


def describe(line):
    args = line.split(" ")
    op = args[0]
    if op in ("ck_quote", "ck_unquote", "ck_cookies"):
        return {"op": op, "text": dec_text(args[1])}
    if op == "ck_set":
        return {"op": op, "TZ": args[1], "now": int(args[2]), "name": dec_text(args[3]), "value": dec_text(args[4]),
                "max_age": int(args[5]), "expires": args[6], "path": dec_text(args[7]), "domain": dec_text(args[8]),
                "secure": args[9], "httponly": args[10], "samesite": dec_text(args[11])}
    if op == "ck_delete":
        return {"op": op, "TZ": args[1], "now": int(args[2]), "name": dec_text(args[3])}
    if op == "ck_seq":
        calls = []
        for t in args[3:]:
            f = t.split(":")
            calls.append("set_cookie(%r, %r, path=%r)" % (dec_text(f[1]), dec_text(f[2]), dec_text(f[3])) if f[0] == "s"
                         else "delete_cookie(%r, path=%r)" % (dec_text(f[1]), dec_text(f[2])))
        return {"op": op, "TZ": args[1], "now": int(args[2]), "calls on one response": calls}
    return {"op": op, "cookies": [tuple(dec_text(x) for x in a.split("=")) for a in args[1:]]}


def extra(rng, tier):
    """probes of what lies OUTSIDE the statement (recorded in the evidence, never judged)"""
    obs = {}
    try:
        r = BaseResponse()
        r.set_cookie("k", "\u4e2d")
        text = r.list_headers(as_bytes=False)[0][1]
        obs["value_above_latin1_is_emitted_raw"] = any(ord(c) > 127 for c in text)
        try:
            r.list_headers(as_bytes=True)
            obs["value_above_latin1_as_bytes"] = "ok"
        except Exception as exc:  # noqa
            obs["value_above_latin1_as_bytes"] = exc_name(exc)
        r = BaseResponse()
        r.set_cookie("a b", "v")
        pair = r.list_headers(as_bytes=False)[0][1].split(";", 1)[0]
        obs["non_token_name_reads_back_as"] = list(request_cookies(pair)[0].keys())
        def first_instant():
            x = BaseResponse()
            x.set_cookie("k", "v", expires=0)
            return header_text(x)

        out = with_clock("UTC", MIN_TS, first_instant)
        obs["year_below_1000_is_unpadded"] = out.startswith("ok ") and "Jan 1 " in dec_text(out[3:])
    except Exception as exc:  # noqa
        obs["probe_error"] = exc_name(exc)
    return {"violations": [], "observations_outside_statement": obs}


# ---- generators ----------------------------------------------------------------------

DANGEROUS = [0, 9, 10, 13, 32, 34, 44, 59, 61, 92, 127, 128, 133, 160, 255, 48, 51, 52, 55, 56, 97]
INSTANTS = [
    0, -1, 1, 86399, 86400, 951782400, 951868799, 946684799, 946684800, 1078012800,  # 2000-02-29, y2k, 2004-02-29
    1678604399, 1678604400, 1699163999, 1699164000,      # New_York DST switches 2023
    1679792399, 1679792400, 1698541199, 1698541200,      # London DST switches 2023
    1700000000, 1709164800, 1709251199, 1735689599, 1735689600,   # 2024-02-29, end of 2024
    2147483647, 2147483648, 4107542399, 4107542400, 4102444800,   # 2038, 2100-02-28/03-01, 2100-01-01
    -2208988800, -86400, -11644473600, MIN_TS, MIN_TS + 86399, MAX_TS, MAX_TS - 86400, 32503680000,
]


def mk_set(tz, now, name, value, max_age=-1, expires="none", path="/", domain="", secure=0, httponly=0,
           samesite="lax"):
    return "ck_set %s %d %s %s %d %s %s %s %d %d %s" % (tz, now, enc(name), enc(value), max_age, expires, enc(path),
                                                     enc(domain), secure, httponly, enc(samesite))


def mk_delete(tz, now, name, path="/", domain="", secure=0, httponly=0, samesite="lax"):
    return "ck_delete %s %d %s %s %s %d %d %s" % (tz, now, enc(name), enc(path), enc(domain), secure, httponly,
                                               enc(samesite))


def rand_value(rng, maxlen=16):
    mode = rng.random()
    n = rng.randrange(0, maxlen)
    if mode < 0.25:
        return "".join(rng.choice(sorted(LEGAL)) for _ in range(n))
    if mode < 0.6:
        return "".join(chr(rng.choice(DANGEROUS)) for _ in range(n))
    if mode < 0.95:
        return "".join(chr(rng.choice([rng.randrange(0, 256), rng.choice(DANGEROUS)])) for _ in range(n))
    return "".join(chr(rng.choice([rng.randrange(0, 256), 0x100, 0x2028, 0x4e2d, 0x1f600])) for _ in range(n))


def rand_token(rng):
    return "".join(rng.choice(sorted(LEGAL)) for _ in range(rng.randrange(1, 6)))


def rand_name(rng):
    return rand_token(rng) if rng.random() < 0.8 else rand_value(rng, 6)


def cases(rng, tier):
    thorough = tier == "thorough"
    yield from corpus_lines(PROPERTY)
    # -- quote: every code point alone and in three contexts; pairs of dangerous ones
    for c in range(256):
        for s in (chr(c), "a" + chr(c), chr(c) + "a", "a" + chr(c) + "7"):
            yield "ck_quote " + enc(s)
    for a, b in itertools.product(DANGEROUS, repeat=2):
        yield "ck_quote " + enc(chr(a) + chr(b))
    yield "ck_quote -"
    for c in (256, 0x2028, 0x4e2d, 0x1f600):
        yield "ck_quote " + enc("a" + chr(c))
    for _ in range(40000 if thorough else 5000):
        yield "ck_quote " + enc(rand_value(rng, 24))
    # -- _unquote: exhaustive over the letters that matter, bare and wrapped in quotes
    alpha = ["\\", '"', "0", "3", "4", "7", "8", "\n", "a", ";"]
    for n in range(0, 5 if thorough else 4):
        for t in itertools.product(alpha, repeat=n):
            s = "".join(t)
            yield "ck_unquote " + enc('"' + s + '"')
            if n <= 3:
                yield "ck_unquote " + enc(s)
    for _ in range(60000 if thorough else 8000):
        s = "".join(rng.choice(alpha + [chr(rng.randrange(0, 256))]) for _ in range(rng.randrange(0, 14)))
        yield "ck_unquote " + enc(rng.choice(['"%s"', "%s", '"%s', '%s"', ' "%s"']) % s)
    for _ in range(10000 if thorough else 1500):
        yield "ck_unquote " + enc(Cookie("n", "")._quote(rand_value(rng, 12)))
    # -- Request.cookies on arbitrary headers
    pool = ["a", "b", "a=1", "b=2", "a=", "=v", "=", "", " ", " a = 1 ", 'a="x y"', 'q="\\073"', "a=b=c", '"',
            "\xa0a\x85=\x1f1", "　k= v"]
    for n in range(1, 4 if thorough else 3):
        for t in itertools.product(pool[:12], repeat=n):
            yield "ck_cookies " + enc(";".join(t))
    for _ in range(40000 if thorough else 6000):
        chunks = []
        for _ in range(rng.randrange(0, 6)):
            m = rng.random()
            if m < 0.3:
                chunks.append(rng.choice(pool))
            elif m < 0.7:
                chunks.append(rng.choice(["", " ", "\t"]) + rand_name(rng) + rng.choice(["=", " = ", "=="]) +
                              Cookie("n", "")._quote(rand_value(rng, 8)) + rng.choice(["", " "]))
            else:
                chunks.append(rand_value(rng, 10))
        yield "ck_cookies " + enc(rng.choice([";", "; ", " ;"]).join(chunks))
    # -- set_cookie / delete_cookie: time zones x instants x seconds
    secs = [0, 1, -1, 10, 3600, 86400, -86400, 31536000, 7776000]
    for tz in TZS:
        for now in INSTANTS:
            picks = secs if (thorough or tz in TZS[:5]) else secs[:4]
            for s in picks[: (len(picks) if thorough else 5)]:
                yield mk_set(tz, now, "k", "v", expires=str(s))
            yield mk_delete(tz, now, "k")
    for _ in range(60000 if thorough else 8000):
        tz = rng.choice(TZS)
        now = rng.choice([rng.choice(INSTANTS) + rng.randrange(-90000, 90000), rng.randrange(0, 2 * 10 ** 9),
                          rng.randrange(0, 2 * 10 ** 9), rng.randrange(MIN_TS - 10 ** 6, MAX_TS + 10 ** 6)])
        exp = rng.choice(["none", str(rng.choice(secs)), str(rng.randrange(-10 ** 8, 10 ** 8)),
                          str(rng.randrange(-10 ** 8, 10 ** 8))])
        max_age = rng.choice([-1, -1, 0, 1, 10, 3600, -2, -100, 10 ** 12, rng.randrange(0, 10 ** 6)])
        samesite = rng.choice(["lax", "lax", "strict", "none", "None", "", "x"])
        if rng.random() < 0.15:
            yield mk_delete(tz, now, rand_name(rng), path=rng.choice(["/", "", "/a"]),
                            domain=rng.choice(["", "example.com"]), secure=rng.randrange(2),
                            httponly=rng.randrange(2), samesite=samesite)
        else:
            yield mk_set(tz, now, rand_name(rng), rand_value(rng, 10), max_age=max_age, expires=exp,
                         path=rng.choice(["/", "/", "", "/a b"]), domain=rng.choice(["", "", "example.com"]),
                         secure=rng.randrange(2), httponly=rng.randrange(2), samesite=samesite)
    # -- call sequences on one response: every sequence of length <= 3 over set/delete of two names and two paths,
    #    then random longer ones
    alpha = [("s", "k", "v", "/"), ("s", "k", "w", "/a"), ("s", "j", "v", "/"), ("d", "k", "/"), ("d", "k", "/a"),
             ("d", "j", "/")]

    def tok(c):
        return ":".join([c[0]] + [enc(x) for x in c[1:]])

    for n in (1, 2, 3):
        for cs in itertools.product(alpha, repeat=n):
            yield "ck_seq UTC 1700000000 " + " ".join(tok(c) for c in cs)
    for _ in range(6000 if thorough else 600):
        cs = [rng.choice(alpha) if rng.random() < 0.7 else
              (("s", rand_name(rng), rand_value(rng, 6), rng.choice(["/", "/a"])) if rng.random() < 0.5
               else ("d", rand_name(rng), rng.choice(["/", "/a"]))) for _ in range(rng.randrange(1, 8))]
        yield "ck_seq %s %d %s" % (rng.choice(TZS), rng.randrange(0, 2 * 10 ** 9), " ".join(tok(c) for c in cs))
    # -- several cookies on one response, all sent back in one header
    for c in range(256):
        yield "ck_roundtrip %s=%s" % (enc("k"), enc(chr(c)))
        yield "ck_roundtrip %s=%s %s=%s %s=%s" % (enc("a"), enc("x"), enc("k"), enc("p" + chr(c) + "q"), enc("b"),
                                                  enc(chr(c)))
    for _ in range(40000 if thorough else 6000):
        n = rng.randrange(1, 6)
        names = [rand_name(rng) for _ in range(n)]
        if rng.random() < 0.3 and n > 1:
            names[rng.randrange(n)] = names[0]
        yield "ck_roundtrip " + " ".join("%s=%s" % (enc(nm), enc(rand_value(rng, 10))) for nm in names)
