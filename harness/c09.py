"""C09 — mounting preserves the full path and dispatches on segment boundaries; host dispatch."""
import asyncio
import copy
import itertools
import re

from baize.asgi.routing import Hosts as AHosts
from baize.asgi.routing import Subpaths as ASubpaths
from baize.wsgi.routing import Hosts as WHosts
from baize.wsgi.routing import Subpaths as WSubpaths

from .common import corpus_lines, dec_text, enc

PROPERTY = "C09"
LEAN_MODULES = ["BaizeVerif.Props.C09"]
MODEL_MODULES = ["BaizeVerif.Model.Mount"]
DRIVER_OPS = {"mount": "Mount.run"}
THEOREMS = [
    "Baize.Mount.source_pinned",
    "Baize.Mount.status_pinned",
    "Baize.Mount.boundary_rule",
    "Baize.Mount.boundary_rule_none",
    "Baize.Mount.dispatch_mount",
    "Baize.Mount.dispatch_hosts",
    "Baize.Mount.trail_mount",
    "Baize.Mount.trail_hosts",
    "Baize.Mount.concat_invariant",
    "Baize.Mount.concat_invariant_leaf",
    "Baize.Mount.remainder",
    "Baize.Mount.remainder_segment",
    "Baize.Mount.mount_step",
    "Baize.Mount.host_preserved",
    "Baize.Mount.untouched_on_404",
    "Baize.Mount.untouched_on_host_404",
    "Baize.Mount.untouched_tree",
    "Baize.Mount.default_boundary",
    "Baize.Mount.default_entry",
    "Baize.Mount.default_entry_total",
    "Baize.Mount.default_rewrite",
    "Baize.Mount.host_first_fullmatch",
    "Baize.Mount.host_none",
]
MANIFEST = {
    "technique": "Lean 4 proof (structural induction over the mount tree) + differential correspondence of the "
                 "Lean model with Subpaths/Hosts on both interfaces",
    "text": "Lean theorems over an executable model of BaseSubpaths.search, the SCRIPT_NAME/PATH_INFO "
            "(root_path/path) rewrite and BaseHosts.search composed into a tree of any depth: the selected "
            "entry is the first whose prefix ends at a segment boundary of the path (iff), root path + path "
            "is invariant for every tree, the sub-application's path is what is left after all selected "
            "prefixes, a failed search answers 404 with the request as received, a '' entry catches every "
            "path that is empty or starts with '/', Hosts selects the first fully matching pattern (for any "
            "matcher).  The selection test and the 404 status codes are regenerated from the source on every "
            "run; the model is tied to the real classes by a differential correspondence over exhaustive "
            "small tables, nested trees and host tables on WSGI and ASGI; an independent oracle states the "
            "property on the implementation's outputs.",
    "note": "Trusted: Lean kernel (propext, Classical.choice, Quot.sound only), tools/gen/c09.py, the "
            "correspondence generator; CPython re.fullmatch is a parameter of the model (its verdicts are "
            "supplied per scenario by the harness).  Several Host headers in one ASGI scope (last one wins) "
            "are outside the statement.",
    "design": "C09",
}
CORRESPONDENCE = ("Baize.Mount.dispatch  vs  baize.wsgi.routing.Subpaths/Hosts and baize.asgi.routing.Subpaths/Hosts "
                  "(trees built from the real classes around recording leaves)")
RULE = ("corpus; exhaustive flat tables (ordered, <=3 entries from '', /api, /apix, /api/v1, /a, incl. duplicates) x "
        "18 paths x root absent / present; depth-2 trees (every prefix x every inner table of <=2 entries x '' "
        "sibling before/after/absent) x composite paths; host tables of <=2 (thorough 3) patterns with anchors, "
        "alternation, case, ports x 18 Host values incl. absent; random trees of depth <=3 (thorough 4) mixing "
        "Subpaths and Hosts with guided and mutated paths; inadmissible prefixes.  non-trivial = the tree has >=2 "
        "table entries; distinct = distinct op line")
TRUSTED = [
    "CPython re.compile/fullmatch (parameter `fm` of the model; evaluated by the harness for every (pattern, host) "
    "pair of a scenario and passed to the Lean driver as a table)",
    "str.startswith / == / slicing are code-point operations (modelled on List Nat)",
]
ASSUMPTIONS = [
    "an ASGI scope carries at most one `host` header and a `path` key (ASGI spec); with several host headers "
    "ASGI Hosts uses the last one",
    "Host header values are Latin-1 (the ASGI side decodes the header bytes as latin-1)",
    "assert statements are active (python without -O) for the rejection of inadmissible prefixes",
]
PARTIAL = None

SLASH = "/"

# ------------------------------------------------------------------------------ wire


def enc_tree(tree):
    kind = tree[0]
    if kind == "L":
        return ["0", str(tree[1])]
    if kind == "M":
        toks = ["1", str(len(tree[1]))]
        for pre, sub in tree[1]:
            toks.append(enc(pre))
            toks.extend(enc_tree(sub))
        return toks
    toks = ["2", str(len(tree[1]))]
    for idx, sub in tree[1]:
        toks.append(str(idx))
        toks.extend(enc_tree(sub))
    return toks


def dec_tree(tok):
    toks = tok.split(";")
    pos = [0]

    def nxt():
        pos[0] += 1
        return toks[pos[0] - 1]

    def go():
        kind = nxt()
        if kind == "0":
            return ("L", int(nxt()))
        n = int(nxt())
        entries = []
        for _ in range(n):
            key = nxt()
            entries.append((dec_text(key) if kind == "1" else int(key), go()))
        return ("M" if kind == "1" else "H", entries)

    tree = go()
    if pos[0] != len(toks):
        raise ValueError("trailing tokens")
    return tree


def opt_enc(s):
    return "~" if s is None else enc(s)


def opt_dec(tok):
    return None if tok == "~" else dec_text(tok)


def mk(tree, root, path, host, pats):
    """op line; the fullmatch table is evaluated here with CPython's re"""
    h = host or ""
    table = ",".join("1" if re.fullmatch(p, h) is not None else "0" for p in pats) if pats else "-"
    return "mount %s %s %s %s %s %s" % (";".join(enc_tree(tree)), opt_enc(root), enc(path), opt_enc(host),
                                        ";".join(enc(p) for p in pats) if pats else "_", table)


def parse_line(line):
    _, tree, root, path, host, pats, _table = line.split(" ")
    return (dec_tree(tree), opt_dec(root), dec_text(path), opt_dec(host),
            [] if pats == "_" else [dec_text(p) for p in pats.split(";")])


# ------------------------------------------------------------------------------ adapter


def build(tree, pats, iface, log):
    kind = tree[0]
    if kind == "L":
        return leaf_w(tree[1], log) if iface == "W" else leaf_a(tree[1], log)
    if kind == "M":
        cls = WSubpaths if iface == "W" else ASubpaths
        return cls(*[(pre, build(sub, pats, iface, log)) for pre, sub in tree[1]])
    cls = WHosts if iface == "W" else AHosts
    return cls(*[(pats[idx], build(sub, pats, iface, log)) for idx, sub in tree[1]])


def leaf_w(i, log):
    def app(environ, start_response):
        log.append((i, dict(environ)))
        start_response("200 OK", [("X-Leaf", str(i))])
        return [b"leaf %d" % i]

    return app


def leaf_a(i, log):
    async def app(scope, receive, send):
        log.append((i, copy.deepcopy(scope)))
        await send({"type": "http.response.start", "status": 200, "headers": [(b"x-leaf", b"%d" % i)]})
        await send({"type": "http.response.body", "body": b"leaf %d" % i})

    return app


def others_changed(before, after, skip):
    keys = sorted(set(before) | set(after))
    bad = [k for k in keys if k not in skip and (k not in before or k not in after or before[k] != after[k])]
    return bad


def finish(log, before, after, status, body, rk, pk, resp_ok):
    """canonical text of one interface's observation"""
    if len(log) > 1:
        return "multi %d" % len(log)
    if log:
        i, seen = log[0]
        flags = []
        bad = others_changed(before, seen, (rk, pk))
        if bad:
            flags.append("changed:" + "+".join(map(str, bad)))
        if not resp_ok(i):
            flags.append("response-not-passed")
        return "leaf %d %s %s %s" % (i, opt_enc(seen.get(rk)), enc(seen.get(pk, "")), ",".join(flags) or "ok")
    bad = others_changed(before, after, (rk, pk))
    return "http %s %s %s %s %s" % (status, enc(body), opt_enc(after.get(rk)), enc(after.get(pk, "")),
                                    ("changed:" + "+".join(map(str, bad))) if bad else "ok")


def run_wsgi(tree, root, path, host, pats, warm=None):
    log = []
    try:
        app = build(tree, pats, "W", log)
    except AssertionError:
        return "config AssertionError"
    for wroot, wpath in (warm or []):
        # an earlier request on the SAME application object (its answer is not looked at)
        wenv = {"REQUEST_METHOD": "GET", "QUERY_STRING": "", "SERVER_NAME": "srv", "SERVER_PORT": "80",
                "SERVER_PROTOCOL": "HTTP/1.1", "wsgi.version": (1, 0), "wsgi.url_scheme": "http", "PATH_INFO": wpath,
                "SCRIPT_NAME": wroot}
        if host is not None:
            wenv["HTTP_HOST"] = host
        try:
            wit = app(wenv, lambda status, headers, exc_info=None: None)
            b"".join(wit)
        except Exception:  # noqa
            pass
        del log[:]
    environ = {
        "REQUEST_METHOD": "GET", "QUERY_STRING": "q=1", "SERVER_NAME": "srv", "SERVER_PORT": "80",
        "SERVER_PROTOCOL": "HTTP/1.1", "wsgi.version": (1, 0), "wsgi.url_scheme": "http",
        "HTTP_ACCEPT": "*/*", "PATH_INFO": path,
    }
    if root is not None:
        environ["SCRIPT_NAME"] = root
    if host is not None:
        environ["HTTP_HOST"] = host
    before = dict(environ)
    started = []

    def start_response(status, headers, exc_info=None):
        started.append((status, headers))

    it = app(environ, start_response)
    try:
        body = b"".join(it)
    finally:
        if hasattr(it, "close"):
            it.close()
    status = started[0][0].split(" ")[0] if len(started) == 1 else "started=%d" % len(started)

    def resp_ok(i):
        return (len(started) == 1 and started[0][0] == "200 OK" and ("X-Leaf", str(i)) in started[0][1]
                and body == b"leaf %d" % i)

    return finish(log, before, environ, status, body, "SCRIPT_NAME", "PATH_INFO", resp_ok)


def run_asgi(tree, root, path, host, pats, warm=None):
    log = []
    try:
        app = build(tree, pats, "A", log)
    except AssertionError:
        return "config AssertionError"
    for wroot, wpath in (warm or []):
        wscope = {"type": "http", "asgi": {"version": "3.0"}, "http_version": "1.1", "method": "GET", "scheme": "http",
                  "path": wpath, "root_path": wroot, "query_string": b"",
                  "headers": [(b"host", host.encode("latin-1"))] if host is not None else [], "server": ("srv", 80)}

        async def wreceive():
            return {"type": "http.request", "body": b"", "more_body": False}

        async def wsend(message):
            pass

        try:
            asyncio.run(app(wscope, wreceive, wsend))
        except Exception:  # noqa
            pass
        del log[:]
    headers = [(b"accept", b"*/*")]
    if host is not None:
        headers.append((b"host", host.encode("latin-1")))
    headers.append((b"user-agent", b"verif"))
    scope = {
        "type": "http", "asgi": {"version": "3.0"}, "http_version": "1.1", "method": "GET", "scheme": "http",
        "path": path, "raw_path": b"/raw", "query_string": b"q=1", "headers": headers,
        "server": ("srv", 80), "client": ("cli", 1234),
    }
    if root is not None:
        scope["root_path"] = root
    before = copy.deepcopy(scope)
    sent = []

    async def receive():
        return {"type": "http.request", "body": b"", "more_body": False}

    async def send(message):
        sent.append(message)

    asyncio.run(app(scope, receive, send))
    starts = [m for m in sent if m["type"] == "http.response.start"]
    body = b"".join(m.get("body", b"") for m in sent if m["type"] == "http.response.body")
    status = str(starts[0]["status"]) if len(starts) == 1 else "started=%d" % len(starts)

    def resp_ok(i):
        return (len(starts) == 1 and starts[0]["status"] == 200
                and (b"x-leaf", b"%d" % i) in [tuple(h) for h in starts[0]["headers"]] and body == b"leaf %d" % i)

    return finish(log, before, scope, status, body, "root_path", "path", resp_ok)


def impl(line):
    try:
        tree, root, path, host, pats = parse_line(line)
    except Exception as exc:  # noqa
        return "bad-line %s" % type(exc).__name__
    outs = []
    for runner in (run_wsgi, run_asgi):
        try:
            fresh = runner(tree, root, path, host, pats)
            # the same request again on an application object that has already answered the same path under
            # ANOTHER mount point (and the same one): the answer is a function of the request alone
            warmed = runner(tree, root, path, host, pats, warm=[("/zz" + (root or ""), path), (root or "", path)])
            outs.append(fresh if fresh == warmed else "HISTORY fresh [%s] after-earlier-requests [%s]" % (fresh, warmed))
        except Exception as exc:  # noqa
            outs.append("crash %s" % type(exc).__name__)
    if outs[0] == outs[1] == "config AssertionError":
        return "config AssertionError"
    return "W %s | A %s" % (outs[0], outs[1])


# ------------------------------------------------------------------------------ oracle
# The property stated directly on what each interface showed; written from the property
# text, not from the Lean model: candidates are found by cutting the path at len(prefix)
# and looking at the next character, the remainder is derived from the invariant
# root + path = const.


def admissible(tree):
    if tree[0] == "L":
        return True
    if tree[0] == "M":
        return all((pre == "" or (pre[:1] == SLASH and pre[-1:] != SLASH)) and admissible(sub)
                   for pre, sub in tree[1])
    return all(admissible(sub) for _, sub in tree[1])


def expected(tree, root, path, host, pats):
    """(kind, leaf id, root, path, number of prefixes selected); root None = key absent"""
    full = (root or "") + path
    selected = 0
    node = tree
    while True:
        if node[0] == "L":
            return ("leaf", node[1], root, path, selected)
        if node[0] == "M":
            hits = [k for k, (pre, _) in enumerate(node[1])
                    if path[:len(pre)] == pre and path[len(pre):len(pre) + 1] in ("", SLASH)]
            if not hits:
                return ("404", None, root, path, selected)
            pre, node = node[1][min(hits)]
            root = (root or "") + pre
            assert full[:len(root)] == root
            path = full[len(root):]
            selected += 1
        else:
            hits = [k for k, (idx, _) in enumerate(node[1]) if re.fullmatch(pats[idx], host or "") is not None]
            if not hits:
                return ("404", None, root, path, selected)
            node = node[1][min(hits)][1]


def oracle(line, out):
    try:
        tree, root, path, host, pats = parse_line(line)
    except Exception:  # noqa
        return None
    if not admissible(tree):
        return None  # the property speaks about tables that can be constructed
    if out == "config AssertionError":
        return "an admissible table was refused"
    if "HISTORY" in out:
        return ("the same request is answered differently by an application object that answered the same path "
                "under another mount point before: %s" % out[:300])
    m = re.fullmatch(r"W (.*) \| A (.*)", out)
    if not m:
        return "unreadable outcome %r" % out
    kind, leaf, eroot, epath, nsel = expected(tree, root, path, host, pats)
    full = (root or "") + path
    for name, part in (("WSGI", m.group(1)), ("ASGI", m.group(2))):
        f = part.split(" ")
        if f[0] in ("crash", "multi", "config"):
            return "%s: %s" % (name, part)
        if f[0] == "leaf":
            got_leaf, groot, gpath, flag = int(f[1]), opt_dec(f[2]), dec_text(f[3]), f[4]
            if kind != "leaf":
                return "%s: no entry matches, expected 404, but leaf %d was called" % (name, got_leaf)
            if (groot or "") + gpath != full:
                return "%s: root path + path changed: %r + %r != %r" % (name, groot, gpath, full)
            if got_leaf != leaf:
                return "%s: leaf %d selected, the first matching entries lead to leaf %d" % (name, got_leaf, leaf)
            if gpath != epath or (groot or "") != (eroot or ""):
                return "%s: sub-application saw root %r path %r, expected root %r path %r" % (
                    name, groot, gpath, eroot, epath)
            if nsel == 0 and groot != root:
                return "%s: root path key changed though no prefix was selected" % name
            if flag != "ok":
                return "%s: %s" % (name, flag)
        elif f[0] == "http":
            status, groot, gpath, flag = f[1], opt_dec(f[3]), dec_text(f[4]), f[5]
            if kind == "leaf":
                return "%s: answered %s, expected leaf %d to be called" % (name, status, leaf)
            if status != "404":
                return "%s: status %s instead of 404" % (name, status)
            if flag != "ok":
                return "%s: 404 but the request was touched (%s)" % (name, flag)
            if groot != eroot or gpath != epath:
                return "%s: 404 but the request was touched: root %r path %r, the failing table received root %r " \
                       "path %r" % (name, groot, gpath, eroot, epath)
        else:
            return "%s: unreadable outcome %r" % (name, part)
    return None


# ------------------------------------------------------------------------------ statistics


def depth(tree):
    if tree[0] == "L":
        return 0
    return 1 + max([depth(sub) for _, sub in tree[1]] or [0])


def entries(tree):
    if tree[0] == "L":
        return 0
    return len(tree[1]) + sum(entries(sub) for _, sub in tree[1])


def has_kind(tree, k):
    return tree[0] == k or (tree[0] != "L" and any(has_kind(sub, k) for _, sub in tree[1]))


def classify(line, out):
    try:
        tree, root, path, host, pats = parse_line(line)
    except Exception:  # noqa
        return "bad-line"
    if out.startswith("config"):
        return "config-refused"
    kind = "+".join(k for k in ("M", "H") if has_kind(tree, k)) or "leaf-only"
    first = out[2:].split(" ")
    if first[0] == "leaf":
        res = "leaf"
    elif first[0] == "http":
        res = "404-host" if first[2] != "-" else "404-path"
    else:
        res = first[0]
    return "d%d/%s/%s" % (depth(tree), kind, res)


def nontrivial(line, out):
    try:
        return entries(parse_line(line)[0]) >= 2
    except Exception:  # noqa
        return False


def describe(line):
    try:
        tree, root, path, host, pats = parse_line(line)
    except Exception as exc:  # noqa
        return {"error": repr(exc)}
    return {"tree (L=leaf id, M=Subpaths, H=Hosts by pattern index)": tree, "root": root, "path": path,
            "host": host, "patterns": pats}


# ------------------------------------------------------------------------------ generators

PREFIXES = ["", "/api", "/apix", "/api/v1", "/a"]
PATHS = ["", "/", "/api", "/api/", "/apix", "/api/v1", "/api/v1/", "/api/v1/x", "/apiv1", "/a", "/a/api",
         "/api/api", "api", "//api", "/API", "/api//", "/b", "/apix/y",
         # unusual characters: a path is arbitrary text (newline, tab, non-ASCII, regex metacharacters)
         "/api\n", "/api/a\nb", "/api\n/x", "\n/api", "/api/\n", "/a\tb", "/api/é", "/api.", "/api$", "/api/(x", "/a\r\n"]
ROOTS_Q = [None, "/r", "/r/", "/"]          # initial root paths of the quick tier (incl. trailing '/')
ROOTS_T = [None, "/r", "", "/r/", "/", "/api", "/srv/"]
PATTERNS = [r"example\.com", r"(www\.)?example\.com", r"^api\.example\.com$", r"api|www", r".*",
            r".*\.example\.com", r"example.com", r"EXAMPLE\.COM", r"(?i)example\.com", r"example\.com(:\d+)?",
            r"[^.]+\.example\.com", r"", r"a|ab", r"ab|a", r"example\.com$", r"^example", r"example\.com\.?",
            r"api\.example\.com|example\.com"]
HOSTS = [None, "", "example.com", "Example.COM", "EXAMPLE.COM", "example.com:8000", "www.example.com",
         "api.example.com", "example.com.", "xexample.com", "example.comx", "exampleXcom", "ab", "a", "api",
         "wwwx", "example.com\n", "api.example.com:443"]


def number(tree, counter):
    """give every leaf a distinct id"""
    if tree[0] == "L":
        counter[0] += 1
        return ("L", counter[0] - 1)
    return (tree[0], [(k, number(sub, counter)) for k, sub in tree[1]])


def flat(prefixes):
    return ("M", [(p, ("L", i)) for i, p in enumerate(prefixes)])


def small_tables(pool, maxlen):
    for n in range(maxlen + 1):
        yield from itertools.permutations(pool, n)


def rand_tree(rng, d, pats_n, top=True):
    r = rng.random()
    if d == 0 or (r < 0.15 and not top):
        return ("L", 0)
    if r < 0.75:
        n = rng.choice([1, 2, 2, 3, 3, 4])
        pool = PREFIXES + ["/b", "/a/b", "/é", "/a b", "/api/v1/x", "/ap", "/a.b"]
        ps = [rng.choice(pool) for _ in range(n)]
        if rng.random() < 0.3:
            ps[rng.randrange(n)] = ""
        return ("M", [(p, rand_tree(rng, d - 1, pats_n, False)) for p in ps])
    n = rng.choice([1, 2, 2, 3])
    return ("H", [(rng.randrange(pats_n), rand_tree(rng, d - 1, pats_n, False)) for _ in range(n)])


def guided_path(rng, tree):
    """a path made of prefixes found on a random walk down the tree, plus a tail, sometimes mutated"""
    parts = []
    node = tree
    while node[0] != "L" and node[1]:
        key, node = rng.choice(node[1])
        if isinstance(key, str) and rng.random() < 0.85:
            parts.append(key)
    tail = rng.choice(["", "", SLASH, "/x", "x", "/api", "/x/y", "//", "/é", "\n", "/a\nb", "/\n", "\t"])
    path = "".join(parts) + tail
    if rng.random() < 0.2 and path:
        k = rng.randrange(len(path))
        m = rng.random()
        if m < 0.4:
            path = path[:k] + path[k + 1:]
        elif m < 0.8:
            path = path[:k] + rng.choice("/xa.") + path[k:]
        else:
            path = path[:k] + rng.choice("/xA") + path[k + 1:]
    return path


def cases(rng, tier):
    yield from corpus_lines(PROPERTY)
    thorough = tier == "thorough"

    # 1. flat tables: order, '' first / last / middle / absent, prefixes of each other, duplicates
    tables = list(small_tables(PREFIXES, 3)) + [("/api", "/api"), ("", ""), ("/api", "", "/api"),
                                                ("/api/v1", "/api", "/api/v1"), tuple(PREFIXES),
                                                tuple(reversed(PREFIXES))]
    for ps in tables:
        for path in PATHS:
            for root in (ROOTS_T if thorough else ROOTS_Q):
                yield mk(flat(ps), root, path, "example.com", [])

    # 2. depth 2: every prefix carrying every inner table, '' sibling before / after / absent
    inner_tables = list(small_tables(PREFIXES, 2))
    comp = sorted({x + y + z for x in PREFIXES + ["/x"] for y in PREFIXES + ["/x"] for z in ("", SLASH, "/x", "x")})
    for p1 in PREFIXES:
        for inner in inner_tables:
            for sib in (None, "before", "after"):
                ents = [(p1, flat(inner))]
                if sib == "before":
                    ents.insert(0, ("", ("L", 0)))
                elif sib == "after":
                    ents.append(("", ("L", 0)))
                tree = number(("M", ents), [0])
                paths = comp if thorough else rng.sample(comp, 14)
                for path in paths:
                    yield mk(tree, rng.choice([None, "", "/r", "/r/", "/"]), path, None, [])

    # 3. depth 3 chains (depth 4 in the thorough tier): nested mounts compose
    chain_pool = ["", "/api", "/api/v1", "/a"]
    for ps in itertools.product(chain_pool, repeat=4 if thorough else 3):
        tree = ("L", 0)
        for p in reversed(ps):
            tree = ("M", [(p, tree), ("/apix", ("L", 9))])
        tree = number(tree, [0])
        joined = "".join(ps)
        for path in [joined, joined + SLASH, joined + "/x", joined + "x", joined[:-1], "/apix" + joined,
                     "".join(ps[:-1]), "".join(ps[:-1]) + "/apix"]:
            yield mk(tree, rng.choice([None, "/r", "/srv/"]), path, None, [])

    # 4. host tables
    for n in range(1, (3 if thorough else 2) + 1):
        pools = itertools.permutations(range(len(PATTERNS)), n) if n < 3 else \
            (tuple(rng.sample(range(len(PATTERNS)), 3)) for _ in range(3000))
        for idxs in pools:
            tree = ("H", [(i, ("L", k)) for k, i in enumerate(idxs)])
            hosts = HOSTS if n == 1 or thorough else rng.sample(HOSTS, 6)
            for host in hosts:
                yield mk(tree, None, "/p", host, PATTERNS)
    # hosts above / below mounts: the request passes a Hosts node unchanged
    for host in HOSTS:
        for path in ["/api/x", "/apix", "", "/"]:
            t1 = ("H", [(0, flat(["/api", ""])), (4, flat(["/api"]))])
            t2 = ("M", [("/api", ("H", [(0, ("L", 0)), (1, ("L", 1))])), ("", ("H", [(3, ("L", 2))]))])
            yield mk(number(t1, [0]), "/r", path, host, PATTERNS)
            yield mk(number(t2, [0]), None, path, host, PATTERNS)

    # 5. inadmissible prefixes are refused when the table is built
    for bad in ["api", "/api/", SLASH, "a/", " ", "//"]:
        yield mk(flat([bad]), None, "/api", None, [])
        yield mk(("M", [("/ok", flat(["", bad]))]), None, "/ok/api", None, [])
        yield mk(("H", [(0, flat([bad, ""]))]), None, "/api", "example.com", PATTERNS)

    # 6. random trees mixing both node kinds
    n_random = 5000 if not thorough else 150000
    maxd = 4 if thorough else 3
    for _ in range(n_random):
        tree = number(rand_tree(rng, rng.randrange(1, maxd + 1), len(PATTERNS)), [0])
        host = rng.choice(HOSTS + ["example.com", "www.example.com", "api.example.com", "api"])
        if rng.random() < 0.1:
            host = "".join(rng.choice("aAbpi.:x w") for _ in range(rng.randrange(0, 6)))
        root = rng.choice([None, "", "/r", "/api", "/r/s", "/r/", "/", "/api/"])
        for _ in range(2):
            yield mk(tree, root, guided_path(rng, tree), host, PATTERNS)


# ------------------------------------------------------------------------------ extra


def extra(rng, tier):
    """outside the statement, recorded only: which of several Host headers the ASGI side uses"""
    seen = []

    async def leaf(scope, receive, send):
        seen.append("first")

    async def leaf2(scope, receive, send):
        seen.append("last")

    async def noop(*a):
        return {"type": "http.request"}

    app = AHosts(("first", leaf), ("last", leaf2))
    scope = {"type": "http", "path": "/", "headers": [(b"host", b"first"), (b"host", b"last")]}
    try:
        asyncio.run(app(scope, noop, noop))
    except Exception as exc:  # noqa
        seen.append("crash %s" % type(exc).__name__)
    return {"violations": [], "asgi_two_host_headers_uses": seen[0] if seen else "404"}
