"""Shared helpers for the per-property harness plugins (line protocol, canonical forms)."""
import os
import signal
import threading
import time


def enc(s):
    """text / bytes -> wire form: decimal code points joined by ',', '-' for empty"""
    if isinstance(s, (bytes, bytearray)):
        vals = list(s)
    else:
        vals = [ord(c) for c in s]
    return ",".join(map(str, vals)) if vals else "-"


def dec_text(tok):
    return "" if tok in ("-", "") else "".join(chr(int(x)) for x in tok.split(","))


def dec_bytes(tok):
    return b"" if tok in ("-", "") else bytes(int(x) for x in tok.split(","))


def corpus_lines(prop):
    d = os.path.join(os.path.dirname(os.path.dirname(os.path.abspath(__file__))), "corpus", prop)
    out = []
    if os.path.isdir(d):
        for fn in sorted(os.listdir(d)):
            if fn.endswith(".ops"):
                for line in open(os.path.join(d, fn), encoding="utf-8"):
                    line = line.rstrip("\n")
                    if line and not line.startswith("#"):
                        out.append(line)
    return out


def exc_name(exc):
    """canonical name of an escaping exception"""
    from baize.exceptions import HTTPException

    if isinstance(exc, HTTPException):
        return "http %d" % exc.status_code
    return "crash %s" % type(exc).__name__


class OpTimeout(Exception):
    pass


class _Watchdog:
    """Per-operation watchdog that does not depend on where the kernel delivers a process-directed signal.

    A helper thread sends SIGALRM to the MAIN THREAD (pthread_kill) once the innermost armed deadline has passed,
    and again every 0.5 s until that entry is disarmed: one exception can be swallowed by the code under test, or
    land in a cleanup of it that blocks again.  (An interval timer is not enough: with worker threads around, the
    kernel may hand SIGALRM to another thread, and a main thread blocked in a lock acquire is then never woken -
    found with seed C19-3, whose run never returned.)"""

    def __init__(self):
        self.entries = []
        self.cond = threading.Condition()
        self.thread = None
        self.main = threading.main_thread().ident
        self.installed = False

    def _handler(self, signum, frame):
        now = time.monotonic()
        for e in reversed(self.entries):
            if e["active"] and now >= e["deadline"]:
                raise e["exc"]()

    def _loop(self):
        with self.cond:
            while True:
                live = [e["deadline"] for e in self.entries if e["active"]]
                if not live:
                    self.cond.wait(1.0)      # arm() does not notify: a deadline is noticed at most 1 s late
                    continue
                wait = min(live) - time.monotonic()
                if wait > 0:
                    self.cond.wait(min(wait, 1.0))
                    continue
                try:
                    signal.pthread_kill(self.main, signal.SIGALRM)
                except Exception:  # noqa
                    pass
                self.cond.wait(0.5)

    def arm(self, seconds, exc):
        if not self.installed:
            signal.signal(signal.SIGALRM, self._handler)
            self.installed = True
        e = {"deadline": time.monotonic() + seconds, "exc": exc, "active": True}
        with self.cond:
            self.entries.append(e)
            if self.thread is None:
                self.thread = threading.Thread(target=self._loop, daemon=True, name="verif-watchdog")
                self.thread.start()
        return e

    def disarm(self, e):
        e["active"] = False
        while True:          # a late signal may raise in here: finish the removal anyway
            try:
                with self.cond:
                    if e in self.entries:
                        self.entries.remove(e)
                return
            except BaseException:  # noqa
                continue


WATCHDOG = _Watchdog()


def with_alarm(seconds, fn, *a):
    """run fn(*a); a hang of the code under test becomes OpTimeout (see _Watchdog)"""
    if _HANGS[0] >= 3:          # hangs are established (each one is reported): do not spend the full limit again
        seconds = min(seconds, 3)
    e = WATCHDOG.arm(seconds, OpTimeout)
    try:
        try:
            return fn(*a)
        finally:
            WATCHDOG.disarm(e)
    except OpTimeout:
        _HANGS[0] += 1
        raise


_HANGS = [0]
