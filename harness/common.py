"""Shared helpers for the per-property harness plugins (line protocol, canonical forms)."""
import os
import signal


def enc(s):
    """text / bytes -> wire form: decimal code points joined by ',', '-' for empty"""
    if isinstance(s, (bytes, bytearray)):
        vals = list(s)
    else:
        vals = [ord(c) for c in s]
    return ",".join(map(str, vals)) if vals else "-"


def dec_text(tok):
    return "" if tok in ("-", "") else "".join(chr(int(x)) for x in tok.split(","))


def dec_bytes(tok):
    return b"" if tok in ("-", "") else bytes(int(x) for x in tok.split(","))


def corpus_lines(prop):
    d = os.path.join(os.path.dirname(os.path.dirname(os.path.abspath(__file__))), "corpus", prop)
    out = []
    if os.path.isdir(d):
        for fn in sorted(os.listdir(d)):
            if fn.endswith(".ops"):
                for line in open(os.path.join(d, fn), encoding="utf-8"):
                    line = line.rstrip("\n")
                    if line and not line.startswith("#"):
                        out.append(line)
    return out


def exc_name(exc):
    """canonical name of an escaping exception"""
    from baize.exceptions import HTTPException

    if isinstance(exc, HTTPException):
        return "http %d" % exc.status_code
    return "crash %s" % type(exc).__name__


class OpTimeout(Exception):
    pass


def with_alarm(seconds, fn, *a):
    """run fn(*a); a hang of the code under test becomes OpTimeout.  The timer REPEATS (every 0.5 s after the
    first expiry) until fn has been left: a single exception can be swallowed, or can land in a `finally` of the
    code under test that blocks again (e.g. a cleanup that waits for a thread which never finishes)."""
    state = {"active": True}
    if _HANGS[0] >= 3:          # hangs are established (each one is reported): do not spend the full limit again
        seconds = min(seconds, 3)

    def handler(signum, frame):
        if state["active"]:
            raise OpTimeout()

    old = signal.signal(signal.SIGALRM, handler)
    old_timer = signal.setitimer(signal.ITIMER_REAL, seconds, 0.5)
    try:
        try:
            return fn(*a)
        finally:
            state["active"] = False
            signal.setitimer(signal.ITIMER_REAL, 0)
            signal.signal(signal.SIGALRM, old)
            if old_timer[0] > 0:     # an enclosing watchdog (run.py's): give it its time back
                signal.setitimer(signal.ITIMER_REAL, old_timer[0], old_timer[1])
    except OpTimeout:
        _HANGS[0] += 1
        raise


_HANGS = [0]
