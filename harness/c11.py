"""C11 — the WebSocket wrapper only forwards protocol-legal event sequences."""
import asyncio
import itertools
import re

from baize.asgi.responses import Response
from baize.asgi.shortcut import request_response, websocket_session
from baize.asgi.websocket import (WebSocket, WebsocketDenialResponse, WebSocketDisconnect,
                                  WebSocketState)

from .common import corpus_lines

PROPERTY = "C11"
LEAN_MODULES = ["BaizeVerif.Props.C11"]
MODEL_MODULES = ["BaizeVerif.Model.WebSocket"]
DRIVER_OPS = {"ws_seq": "WebSocket.runSeq", "ws_denial": "WebSocket.runDenial",
              "ws_shortcut": "WebSocket.runShortcut", "ws_session": "WebSocket.runSession"}
THEOREMS = [
    "Baize.WebSocket.legal_iff",
    "Baize.WebSocket.forwarded_legal",
    "Baize.WebSocket.forwarded_tracks_app",
    "Baize.WebSocket.illegal_raises_without_forwarding",
    "Baize.WebSocket.legal_call_forwards",
    "Baize.WebSocket.error_forwards_nothing",
    "Baize.WebSocket.no_receive_after_disconnect",
    "Baize.WebSocket.disconnect_delivered_marks_client",
    "Baize.WebSocket.receives_consume_script",
    "Baize.WebSocket.frames_in_order_once",
    "Baize.WebSocket.close_idempotent",
    "Baize.WebSocket.states_monotone",
    "Baize.WebSocket.wrong_kind_keyerror",
    "Baize.WebSocket.denial_legal",
    "Baize.WebSocket.source_pinned",
]
MANIFEST = {
    "technique": "Lean 4 proof (invariant linking a 4-state DFA of the forwarded word to application_state, "
                 "induction over the call sequence) + differential correspondence of the Lean model with the real "
                 "WebSocket class over scripted servers",
    "text": "Lean theorems over an executable model of WebSocket.receive/send/accept/receive_*/iter_*/send_*/close "
            "(for every call sequence and every server script, ill-typed ones included): the forwarded word is in "
            "eps | close | accept send* close?, a failing call forwards nothing and leaves the application state "
            "alone, no server receive() after a delivered disconnect, returned frames are consecutive script "
            "entries, close is idempotent, both states only move forward.  The accepted-type sets, the state "
            "changes and the statement order assert/state change/forward are regenerated from the source with ast "
            "on every run and interpreted by the model; a differential correspondence (exhaustive call sequences x "
            "scripts, random length 40) ties the model to the real class; an independent oracle states the property "
            "on the implementation trace.",
    "note": "Trusted: Lean kernel (propext, Classical.choice, Quot.sound only), tools/gen/c11.py, the scripted "
            "server of the harness.  Assumes assertions are enabled (python -O strips the guards).  A scripted "
            "receive() beyond the end of the script raises ScriptEnd (a real server would block).",
    "design": "C11",
}
CORRESPONDENCE = ("Baize.WebSocket.trace (step over Op)  vs  baize.asgi.websocket.WebSocket driven call by call over a "
                  "scripted receive / recording send; Baize.WebSocket.denial vs WebsocketDenialResponse.__call__; "
                  "requestResponseOnWs / sessionDispatch vs baize.asgi.shortcut")
RULE = ("corpus; exhaustive call sequences of length <=3 (quick) / <=4 (thorough) over 13 concrete calls x 31 scripts "
        "(connect, 0-2 text/bytes frames, disconnect at every position or absent, plus ill-typed scripts), length 4 "
        "over 9 calls x the 31 scripts (quick) / length 5 over 9 calls x 6 scripts (thorough); random sequences of "
        "length <=40 (10 000 quick / 150 000 thorough) over all calls (iterators "
        "pulled 0-5 times, raw send of 10 types) x random scripts (well-formed, truncated, ill-typed); denial response "
        "and shortcut dispatch exhaustively.  non-trivial = >=2 calls and something was forwarded or a call raised; "
        "distinct = distinct op line")
TRUSTED = [
    "the scripted server: receive() returns the script entries in order, send() records (type, payload key, "
    "application_state at the call)",
    "CPython assert / dict KeyError / async generator semantics as exercised",
]
ASSUMPTIONS = [
    "assertions are enabled (python -O would strip the state guards of receive()/send()/receive_text()/receive_bytes())",
    "the server's send() does not raise and calls are not interleaved by concurrent tasks",
    "a websocket.receive event carries exactly one of the keys text/bytes (an event carrying both, one of them None, "
    "makes the typed receive return None instead of raising KeyError: outside the model)",
]
PARTIAL = None

TYPES = ["websocket.accept", "websocket.send", "websocket.close", "websocket.connect",
         "websocket.receive", "websocket.disconnect", "websocket.bogus", "http.response.start",
         "websocket.http.response.start", "http.response.body", "websocket", "http", "lifespan",
         "websocket.http.response.body"]
RANK = {WebSocketState.CONNECTING: 0, WebSocketState.CONNECTED: 1, WebSocketState.DISCONNECTED: 2}


def type_of(i):
    return TYPES[i] if 0 <= i < len(TYPES) else "websocket.bogus"


class ScriptEnd(Exception):
    """the scripted server has nothing more to say (a real server would block)"""


def nums(tok):
    return [] if tok in ("-", "") else [int(x) for x in tok.split(",")]


def make_msg(c):
    if c == 0:
        return {"type": "websocket.connect"}
    if 100 <= c < 200:
        return {"type": "websocket.receive", "text": str(c - 100)}
    if 200 <= c < 300:
        return {"type": "websocket.receive", "bytes": str(c - 200).encode()}
    if 300 <= c < 350:
        return {"type": "websocket.disconnect", "code": 1000 + (c - 300)}
    if 350 <= c < 400:
        # close codes outside the registered range (2999, 3499 library / 3999, 4499, 4999 private use ...)
        return {"type": "websocket.disconnect", "code": 2999 + (c - 350) * 500}
    return {"type": type_of(c - 400)}


def render_value(v):
    """a value handed back to the application: a message dict, a str or a bytes"""
    try:
        if isinstance(v, str):
            return "websocket.receive.text=%d" % int(v)
        if isinstance(v, (bytes, bytearray)):
            return "websocket.receive.bytes=%d" % int(bytes(v).decode())
        if isinstance(v, dict):
            if "text" in v:
                return "%s.text=%d" % (v["type"], int(v["text"]))
            if "bytes" in v:
                return "%s.bytes=%d" % (v["type"], int(v["bytes"].decode()))
            if "code" in v:
                return "%s=%d" % (v["type"], v["code"])
            return v["type"]
    except Exception:  # noqa
        pass
    return "?%s" % type(v).__name__


LOOP = None


def loop():
    global LOOP
    if LOOP is None or LOOP.is_closed():
        LOOP = asyncio.new_event_loop()
    return LOOP


async def one_op(ws, c, vals):
    if c == 0:
        await ws.accept()
    elif c == 1:
        vals.append(render_value(await ws.receive()))
    elif c == 2:
        vals.append(render_value(await ws.receive_text()))
    elif c == 3:
        vals.append(render_value(await ws.receive_bytes()))
    elif c == 4:
        await ws.send_text("hello")
    elif c == 5:
        await ws.send_bytes(b"hello")
    elif c == 6:
        await ws.close()
    elif 10 <= c < 30:
        it = ws.iter_text() if c < 20 else ws.iter_bytes()
        try:
            for _ in range(c % 10):
                try:
                    vals.append(render_value(await it.__anext__()))
                except StopAsyncIteration:
                    return "stop"
        finally:
            await it.aclose()
    else:
        await ws.send({"type": type_of(c - 30)})


class ViewError(Exception):
    """what the session view raises after its calls"""


async def scenario(ops, script, session=False):
    """session=True: the same calls made by a view under `websocket_session`, which then RAISES; whatever the
    shortcut forwards on its own after that is appended as ` ; END <events>`"""
    fwd = []
    st = {"pos": 0, "calls": 0}
    box = {}

    async def receive():
        st["calls"] += 1
        if st["pos"] >= len(script):
            raise ScriptEnd()
        msg = make_msg(script[st["pos"]])
        st["pos"] += 1
        return msg

    async def send(msg):
        ws = box["ws"]
        suffix = ".text" if "text" in msg else ".bytes" if "bytes" in msg else ""
        fwd.append("%s%s@%d" % (msg["type"], suffix, RANK[ws.application_state]))

    scope = {"type": "websocket"}
    if (len(ops) + len(script)) % 2 == 1:
        # every other scenario: a server that advertises the denial-response extension (what the wrapper may
        # forward does not depend on it: denial events are the business of WebsocketDenialResponse)
        scope["extensions"] = {"websocket.http.response": {}}
    recs = []

    async def drive(ws):
        box["ws"] = ws
        for c in ops:
            vals = []
            f0, r0 = len(fwd), st["calls"]
            try:
                fin = await one_op(ws, c, vals) or "ok"
            except AssertionError:
                fin = "AssertionError"
            except WebSocketDisconnect as exc:
                fin = "WebSocketDisconnect=%s" % exc.code
            except KeyError:
                fin = "KeyError"
            except ScriptEnd:
                fin = "ScriptEnd"
            except RuntimeError:
                fin = "RuntimeError"
            except Exception as exc:  # noqa
                fin = "crash:%s" % type(exc).__name__
            recs.append("%s %s %s %d %d%d" % (fin, ",".join(vals) or "-", ",".join(fwd[f0:]) or "-",
                                            st["calls"] - r0, RANK.get(ws.client_state, 9),
                                            RANK.get(ws.application_state, 9)))

    if not session:
        await drive(WebSocket(scope, receive, send))
        return " ; ".join(recs) if recs else "-"

    async def view(ws):
        await drive(ws)
        raise ViewError()

    mark = [None]
    try:
        task = websocket_session(view)(scope, receive, send)
        try:
            await task
        except ViewError:
            pass
    except Exception as exc:  # noqa
        mark[0] = "crash:%s" % type(exc).__name__
    n_in_view = sum(0 if r.split(" ")[2] == "-" else len(r.split(" ")[2].split(",")) for r in recs)
    after = [f.rsplit("@", 1)[0] for f in fwd[n_in_view:]]
    tail = mark[0] or (",".join(after) or "-")
    return (" ; ".join(recs) if recs else "-") + " ; END " + tail


class FakeResponse:
    def __init__(self, types):
        self.types = types

    async def __call__(self, scope, receive, send):
        for t in self.types:
            await send({"type": t})


async def denial(scope_type, has_resp, has_ext, types):
    sent = []

    async def receive():
        return {"type": "websocket.disconnect", "code": 1000}

    async def send(msg):
        sent.append(msg["type"])

    scope = {"type": scope_type}
    if has_ext:
        scope["extensions"] = {"websocket.http.response": {}}
    try:
        await WebsocketDenialResponse(FakeResponse(types) if has_resp else None)(scope, receive, send)
        fin = "ok"
    except AssertionError:
        fin = "AssertionError"
    except ValueError:
        fin = "ValueError"
    except Exception as exc:  # noqa
        fin = "crash:%s" % type(exc).__name__
    return "%s %s" % (fin, ",".join(sent) or "-")


async def shortcut(kind, arg):
    sent = []
    seen = []

    async def receive():
        return {"type": "websocket.disconnect", "code": 1000}

    async def send(msg):
        sent.append(msg)

    try:
        if kind == 0:
            async def view(request):
                seen.append("called")
                return Response(200)

            scope = {"type": "websocket", "path": "/", "headers": []}
            if arg:
                scope["extensions"] = {"websocket.http.response": {}}
            await request_response(view)(scope, receive, send)
            if seen:
                return "view-called"
            return "ok %s" % (",".join(m["type"] for m in sent) or "-")

        async def wsview(ws):
            seen.append("view %d%d" % (RANK[ws.client_state], RANK[ws.application_state]))

        await websocket_session(wsview)({"type": type_of(arg), "path": "/", "headers": []}, receive, send)
        if seen:
            return seen[0]
        start = [m for m in sent if m["type"] == "http.response.start"]
        return "http %d" % start[0]["status"] if start else "nothing"
    except AssertionError:
        return "AssertionError"
    except Exception as exc:  # noqa
        return "crash:%s" % type(exc).__name__


def impl(line):
    a = line.split(" ")
    try:
        if a[0] == "ws_seq":
            return loop().run_until_complete(scenario(nums(a[1]), nums(a[2])))
        if a[0] == "ws_session":
            return loop().run_until_complete(scenario(nums(a[1]), nums(a[2]), session=True))
        if a[0] == "ws_denial":
            return loop().run_until_complete(denial(type_of(int(a[1])), a[2] != "0", a[3] != "0",
                                                    [type_of(i) for i in nums(a[4])]))
        if a[0] == "ws_shortcut":
            return loop().run_until_complete(shortcut(int(a[1]), int(a[2])))
    except Exception as exc:  # noqa
        return "crash:%s" % type(exc).__name__
    return "bad-op"


# ---- oracle: the property stated directly on the implementation trace ------------------
# (no knowledge of the wrapper's states or of the Lean model: only the ASGI grammar of the
# application side, the script, and what each call returned / forwarded / asked the server)

LETTER = {"websocket.accept": "a", "websocket.send": "s", "websocket.close": "c"}
LEGAL = re.compile(r"(?:|c|as*c?)\Z")
ERRORS = ("AssertionError", "RuntimeError", "KeyError", "ScriptEnd", "WebSocketDisconnect")


def script_render(c):
    return render_value(make_msg(c))


def fwd_type(tok):
    base = tok.rsplit("@", 1)[0]
    for suf in (".text", ".bytes"):
        if base.endswith(suf) and base[: -len(suf)] == "websocket.send":
            return base[: -len(suf)]
    return base


def parse_trace(out):
    recs = []
    for part in out.split(" ; "):
        f = part.split(" ")
        if len(f) != 5:
            return None
        recs.append((f[0], [] if f[1] == "-" else f[1].split(","), [] if f[2] == "-" else f[2].split(","),
                     int(f[3]), int(f[4][0]), int(f[4][1])))
    return recs


def intended(c):
    """letter of the event the call asks the wrapper to forward (None: not a sending call)"""
    if c == 0:
        return "a"
    if c in (4, 5):
        return "s"
    if c == 6:
        return "c"
    if c >= 30:
        return LETTER.get(type_of(c - 30), "x")
    return None


def oracle_seq(ops, script, out):
    if "crash" in out or out in ("hang", "bad-op"):
        return "unexpected outcome %s" % out
    if not ops:
        return None
    recs = parse_trace(out)
    if recs is None or len(recs) != len(ops):
        return "trace does not have one record per call"
    word = ""
    pos = 0
    delivered = False
    closed_called = False
    prev = (0, 0)
    for i, (c, (fin, vals, fwd, recvs, cs, as_)) in enumerate(zip(ops, recs)):
        at = "call %d (code %d)" % (i, c)
        before = word
        word += "".join(LETTER.get(fwd_type(t), "x") for t in fwd)
        # 1. the forwarded word stays inside  eps | close | accept send* close?
        if not LEGAL.match(word):
            return "%s: forwarded sequence %r is not a legal ASGI websocket application sequence" % (at, word)
        # 2. a call that raises has forwarded nothing; an illegal call raises
        failed = fin.split("=")[0] in ERRORS
        if failed and fwd:
            return "%s: raised %s after forwarding %s" % (at, fin, fwd)
        want = intended(c)
        if want is not None and not (c == 6 and "c" in before):
            if not LEGAL.match(before + want):
                if not failed:
                    return "%s: illegal call (would make the sequence %r) did not raise" % (at, before + want)
        # 2b. once close() has been called successfully the application side is closed, whether or not a close
        #     event had to be forwarded (the client may have gone already): accept / send calls after it are illegal
        if closed_called and want in ("a", "s") and not failed:
            return "%s: a send-type call after close() did not raise (forwarded %s)" % (at, fwd or "nothing")
        if c == 6 and fin == "ok":
            closed_called = True
        # 5. close can be called any number of times
        if c == 6:
            if fin != "ok":
                return "%s: close() raised %s" % (at, fin)
            if "c" in before and fwd:
                return "%s: close() after a close forwarded %s" % (at, fwd)
        # 2c. a typed read (receive_text / receive_bytes / iter_*) is legal only between accept and close: before, or
        #     after close(), it raises WITHOUT touching the connection (a frame taken by such a call would be lost)
        if (c in (2, 3) or 10 <= c < 30) and ("a" not in before or "c" in before or closed_called) and recvs:
            return "%s: a typed read outside the accepted state issued %d server receive() call(s) (%s)" % (at, recvs, fin)
        # 3. no receive() once a disconnect was delivered
        if delivered and recvs:
            return "%s: %d server receive() call(s) after a disconnect was delivered" % (at, recvs)
        # 4. returned values are the next script entries, in order, none skipped
        consumed = script[pos:pos + recvs]
        if len(vals) > len(consumed):
            return "%s: returned %d values from %d server events" % (at, len(vals), len(consumed))
        if vals != [script_render(x) for x in consumed[:len(vals)]]:
            return "%s: returned %s, the server had sent %s" % (at, vals, [script_render(x) for x in consumed])
        lost = len(consumed) - len(vals)
        if lost > 1 or (lost == 1 and fin == "ok" and c != 0):
            return "%s: %d received event(s) neither returned nor reported" % (at, lost)
        # accept() may consume exactly the pending connect event, never a frame or a disconnect
        if lost == 1 and fin == "ok" and c == 0 and make_msg(consumed[-1])["type"] != "websocket.connect":
            return "%s: accept() consumed and discarded the server event %s" % (at, script_render(consumed[-1]))
        pos += len(consumed)
        # what counts as "a disconnect was delivered"
        if fin.startswith("WebSocketDisconnect") or fin == "stop" or \
                (c == 1 and vals and vals[0].startswith("websocket.disconnect")):
            if not consumed or make_msg(consumed[-1])["type"] != "websocket.disconnect":
                return "%s: reported a disconnect the server never sent" % at
            if fin.startswith("WebSocketDisconnect") and fin != "WebSocketDisconnect=%d" % make_msg(consumed[-1])["code"]:
                return "%s: disconnect code differs from the server's" % at
            delivered = True
        # 6. both reported states only move forward
        if cs < prev[0] or as_ < prev[1] or cs > 2 or as_ > 2:
            return "%s: state moved backwards %s -> %s" % (at, prev, (cs, as_))
        prev = (cs, as_)
    return None


def oracle(line, out):
    a = line.split(" ")
    if a[0] == "ws_session":
        if " ; END " not in out:
            return "unexpected outcome %s" % out[:80]
        head, tail = out.rsplit(" ; END ", 1)
        if tail.startswith("crash"):
            return "the session shortcut raised %s instead of the view's own exception" % tail
        why = oracle_seq(nums(a[1]), nums(a[2]), head) if head != "-" else None
        if why:
            return why
        inside = [fwd_type(t) for rec in ((parse_trace(head) or []) if head != "-" else []) for t in rec[2]]
        after = [] if tail == "-" else tail.split(",")
        word = "".join(LETTER.get(t, "x") for t in inside + after)
        if not (LEGAL.match(word) or set(word) <= {"x"}):
            return ("after the view raised, the shortcut forwarded %s: the events the server received in all (%s) are "
                    "not a legal application sequence" % (tail, ",".join(inside + after)))
        return None
    if a[0] == "ws_seq":
        return oracle_seq(nums(a[1]), nums(a[2]), out)
    if "crash" in out or out in ("hang", "bad-op", "view-called"):
        return "unexpected outcome %s" % out
    if a[0] == "ws_denial" or (a[0] == "ws_shortcut" and a[1] == "0"):
        fin, sent = out.split(" ")
        word = "".join(LETTER.get(t, "x") for t in ([] if sent == "-" else sent.split(",")))
        # a denial either closes (legal word) or uses only the denial extension's events
        if "a" in word or "s" in word or (("c" in word) and word != "c"):
            return "denial forwarded %s" % sent
        if a[0] == "ws_shortcut" and fin != "ok":
            return "request_response on a websocket scope raised %s" % fin
        if fin == "ok" and a[0] == "ws_denial" and (a[2] == "0" or a[3] == "0") and word != "c":
            return "denial without extension did not close: %s" % sent
    return None


def classify(line, out):
    a = line.split(" ")
    if a[0] != "ws_seq":
        return "%s/%s" % (a[0], out.split(" ")[0])
    ops, script = nums(a[1]), nums(a[2])
    fins = [p.split(" ")[0].split("=")[0] for p in out.split(" ; ")] if ops else []
    errs = sorted(set(f for f in fins if f not in ("ok", "stop")))
    n = len(ops)
    ill = bool(script) and (script[0] != 0 or any(c >= 400 or c == 0 for c in script[1:]))
    return "len=%s/%s/%s" % (n if n < 6 else "6+", "ill-typed-script" if ill else "script",
                             "+".join(e[:6] for e in errs) or "no-error")


def nontrivial(line, out):
    a = line.split(" ")
    if a[0] != "ws_seq":
        return True
    if len(nums(a[1])) < 2:
        return False
    return any(p.split(" ")[2] != "-" or p.split(" ")[0] not in ("ok", "stop") for p in out.split(" ; "))


OP_NAMES = {0: "accept", 1: "receive", 2: "receive_text", 3: "receive_bytes", 4: "send_text", 5: "send_bytes",
            6: "close"}


def describe(line):
    a = line.split(" ")
    if a[0] != "ws_seq":
        return {"op": a[0], "args": a[1:]}

    def opn(c):
        if c in OP_NAMES:
            return OP_NAMES[c]
        if 10 <= c < 20:
            return "iter_text x%d" % (c - 10)
        if 20 <= c < 30:
            return "iter_bytes x%d" % (c - 20)
        return "send({type: %s})" % type_of(c - 30)

    return {"calls": [opn(c) for c in nums(a[1])], "server_script": [script_render(c) for c in nums(a[2])]}


# ---- generators ----------------------------------------------------------------------


def mk(ops, script):
    return "ws_seq %s %s" % (",".join(map(str, ops)) or "-", ",".join(map(str, script)) or "-")


def small_scripts():
    """connect, 0-2 frames (text/bytes), a disconnect at every position or none; then ill-typed ones"""
    out = []
    for k in range(3):
        for kinds in itertools.product((100, 200), repeat=k):
            frames = [kind + i + 1 for i, kind in enumerate(kinds)]
            out.append([0] + frames)
            for p in range(k + 1):
                out.append([0] + frames[:p] + [300] + frames[p:])
    out += [[], [101, 0], [300, 0, 101], [0, 406, 101, 300], [0, 0, 101], [0, 405, 101], [0, 404, 300], [403, 101, 301]]
    return out


FULL = [0, 1, 2, 3, 4, 5, 6, 12, 21, 30, 31, 32, 36, 38, 43]
REDUCED = [0, 1, 2, 4, 6, 12, 30, 31, 32]
CLOSES = list(range(300, 316)) + [350, 351, 352, 353, 354]
WELL = [[0, 101, 352, 102], [0, 354], [0, 101, 202, 300], [0, 101, 300, 102], [0, 300], [0, 201, 102], [0], [0, 101, 102, 303]]


def cases(rng, tier):
    yield from corpus_lines(PROPERTY)
    # denial response and shortcuts: exhaustive
    for scope in (10, 11, 12):
        for has_resp in (0, 1):
            for has_ext in (0, 1):
                for types in ([], [7, 9], [7, 9, 9], [7, 6, 9], [0], [2], [1, 7], [8]):
                    yield "ws_denial %d %d %d %s" % (scope, has_resp, has_ext, ",".join(map(str, types)) or "-")
    # the same call sequences made by a view under websocket_session that raises afterwards
    for n in range(0, 3):
        for ops in itertools.product(REDUCED, repeat=n):
            for sc in WELL:
                yield "ws_session %s %s" % (",".join(map(str, ops)) or "-", ",".join(map(str, sc)) or "-")
    yield "ws_shortcut 0 0"
    yield "ws_shortcut 0 1"
    for scope in (10, 11, 12, 6):
        yield "ws_shortcut 1 %d" % scope
    scripts = small_scripts()
    full_len = 3 if tier == "quick" else 4
    for n in range(full_len + 1):
        for ops in itertools.product(FULL, repeat=n):
            for sc in scripts:
                yield mk(ops, sc)
    if tier == "quick":
        for ops in itertools.product(REDUCED, repeat=4):
            for sc in scripts:
                yield mk(ops, sc)
    else:
        for ops in itertools.product(REDUCED, repeat=5):
            for sc in WELL:
                yield mk(ops, sc)
    n_random = 10000 if tier == "quick" else 150000
    weighted = [0, 0, 1, 1, 2, 2, 2, 3, 3, 4, 4, 4, 5, 5, 6, 6]
    for _ in range(n_random):
        n = rng.randrange(1, 41)
        ops = []
        for _ in range(n):
            r = rng.random()
            if r < 0.7:
                ops.append(rng.choice(weighted))
            elif r < 0.85:
                ops.append(rng.choice([10, 20]) + rng.randrange(0, 6))
            else:
                ops.append(30 + rng.choice([0, 1, 1, 2, 3, 4, 5, 6, 7, 8, 8, 9, 13, 13]))
        kind = rng.random()
        k = rng.randrange(0, 30)
        frames = [rng.choice([100, 200]) + rng.randrange(0, 100) for _ in range(k)]
        if kind < 0.15:
            frames = [100 + rng.randrange(0, 100) for _ in range(k)]
        if kind < 0.6:
            script = [0] + frames + [rng.choice(CLOSES)]
        elif kind < 0.75:
            p = rng.randrange(0, k + 1)
            script = [0] + frames[:p] + [rng.choice(CLOSES)] + frames[p:]
        elif kind < 0.85:
            script = [0] + frames
        else:
            script = [0] + frames + [300]
            for _ in range(rng.randrange(1, 4)):
                p = rng.randrange(0, len(script) + 1)
                m = rng.random()
                if m < 0.5:
                    script.insert(p, rng.choice([0, 300, 400, 401, 402, 403, 404, 405, 406, 407]))
                elif script:
                    del script[min(p, len(script) - 1)]
        yield mk(ops, script)
