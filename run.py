#!/venv/bin/python
"""
Single entry point of the baize verification machinery.

    run.py --property C03 --tier quick|thorough
    run.py --property C03 --replay replays/C03-xxxx.json
    run.py --setup                      (build every Lean target once)

Three legs per property (DESIGN.md §1.1):
  1. regenerate lean/BaizeVerif/Gen/*.lean from /repo (tools/extract.py)
  2. re-check the proofs (lake build of the property's modules) and audit them
     (forbidden tokens, `#print axioms` of every property theorem)
  3. correspondence: run generated operations on the real baize code and on the
     compiled Lean model, diff the canonical outputs; the property's oracle judges
     every implementation output directly.

Exit 0: held on everything explored.  Exit 1: a `VIOLATION property=<id>
replay=<path>` line was printed.  Exit 2: infrastructure failure (never a VIOLATION).
"""
import argparse
import fcntl
import hashlib
import importlib
import itertools
import json
import os
import random
import re
import subprocess
import sys
import time
import traceback

ROOT = os.path.dirname(os.path.abspath(__file__))
LEAN = os.path.join(ROOT, "lean")
REPO = os.environ.get("BAIZE_REPO", "/repo")
sys.path.insert(0, ROOT)
sys.path.insert(0, REPO)
os.environ.setdefault("BAIZE_VERIF", "1")

ALLOWED_AXIOMS = {"propext", "Classical.choice", "Quot.sound"}
FORBIDDEN = re.compile(
    r"\bsorry\b|\badmit\b|^\s*axiom\s|native_decide|bv_decide|implemented_by|\bunsafe\s|maxHeartbeats\s+0\b"
)
FORBIDDEN_ANYLINE = re.compile(FORBIDDEN.pattern, re.M)


class Infra(Exception):
    pass


def log(*a):
    print(*a, flush=True)


# --------------------------------------------------------------------------- lean side


class Lock:
    def __init__(self, path):
        self.path = path

    def __enter__(self):
        os.makedirs(os.path.dirname(self.path), exist_ok=True)
        self.f = open(self.path, "w")
        fcntl.flock(self.f, fcntl.LOCK_EX)

    def __exit__(self, *a):
        fcntl.flock(self.f, fcntl.LOCK_UN)
        self.f.close()


def lake_lock():
    return Lock(os.path.join(LEAN, ".lake", "verif.lock"))


def run_extract():
    """leg 1: regenerate Gen/*.lean; returns ({generator module: error}, item hashes)"""
    from tools import extract

    try:
        return extract.generate(REPO, os.path.join(LEAN, "BaizeVerif", "Gen"))
    except Exception as exc:  # extraction failure breaks the proof leg, it is not infra
        return {"*": "extract.py failed: %r\n%s" % (exc, traceback.format_exc())}, {}


def lake_build(targets, timeout=3000):
    t0 = time.time()
    try:
        p = subprocess.run(
            ["lake", "build"] + targets,
            cwd=LEAN,
            stdout=subprocess.PIPE,
            stderr=subprocess.STDOUT,
            text=True,
            timeout=timeout,
        )
    except subprocess.TimeoutExpired:
        raise Infra("lake build timed out")
    except FileNotFoundError:
        raise Infra("lake not found")
    return p.returncode == 0, p.stdout, time.time() - t0


def strip_comments(src):
    # remove /- ... -/ (nested) and -- line comments
    out = []
    i, depth, n = 0, 0, len(src)
    while i < n:
        if src.startswith("/-", i):
            depth += 1
            i += 2
        elif depth and src.startswith("-/", i):
            depth -= 1
            i += 2
        elif depth:
            if src[i] == "\n":
                out.append("\n")
            i += 1
        elif src.startswith("--", i):
            while i < n and src[i] != "\n":
                i += 1
        else:
            out.append(src[i])
            i += 1
    return "".join(out)


def forbidden_scan():
    hits = []
    for base, _dirs, files in os.walk(LEAN):
        if ".lake" in base:
            continue
        for fn in files:
            if not fn.endswith(".lean"):
                continue
            path = os.path.join(base, fn)
            raw = open(path, encoding="utf-8").read()
            if not FORBIDDEN_ANYLINE.search(raw):      # nothing to find even before the comments are removed
                continue
            text = strip_comments(raw)
            for ln, line in enumerate(text.split("\n"), 1):
                if FORBIDDEN.search(line):
                    hits.append("%s:%d: %s" % (os.path.relpath(path, LEAN), ln, line.strip()))
    return hits


def audit_axioms(prop, modules, theorems):
    """`#print axioms` for each theorem; returns {theorem: [axioms]} or raises on failure"""
    path = os.path.join(LEAN, ".lake", "audit_%s.lean" % prop)
    with open(path, "w") as f:
        for m in modules:
            f.write("import %s\n" % m)
        for t in theorems:
            f.write("#print axioms %s\n" % t)
    p = subprocess.run(
        ["lake", "env", "lean", path],
        cwd=LEAN,
        stdout=subprocess.PIPE,
        stderr=subprocess.STDOUT,
        text=True,
        timeout=1200,
    )
    out = p.stdout
    res = {}
    # "'Name' depends on axioms: [a, b]"  or "'Name' does not depend on any axioms"
    for m in re.finditer(r"'([^']+)' depends on axioms: \[([^\]]*)\]", out, re.S):
        res[m.group(1)] = [a.strip() for a in m.group(2).replace("\n", " ").split(",") if a.strip()]
    for m in re.finditer(r"'([^']+)' does not depend on any axioms", out):
        res[m.group(1)] = []
    missing = [t for t in theorems if t not in res]
    return res, missing, out


# --------------------------------------------------------------------------- driver


def driver_run(lines):
    exe = os.path.join(LEAN, ".lake", "build", "bin", "driver")
    if not os.path.exists(exe):
        raise Infra("driver executable missing (run setup)")
    data = "".join(l + "\n" for l in lines)
    try:
        p = subprocess.run([exe], input=data, stdout=subprocess.PIPE, stderr=subprocess.PIPE,
                           text=True, timeout=3000)
    except subprocess.TimeoutExpired:
        raise Infra("driver timed out")
    if p.returncode != 0:
        raise Infra("driver crashed: rc=%s stderr=%s" % (p.returncode, p.stderr[-2000:]))
    outs = p.stdout.split("\n")
    if outs and outs[-1] == "":
        outs.pop()
    if len(outs) != len(lines):
        raise Infra("driver returned %d lines for %d ops" % (len(outs), len(lines)))
    return outs


# --------------------------------------------------------------------------- per-op watchdog


class _OpTimeout(BaseException):
    pass


_HANGS = [0]


def run_op(plugin, line):
    """one operation on the real code; a hang of the code under test (default: 120 s for an operation that
    takes milliseconds) becomes the outcome 'hang', which no model output equals"""
    import signal

    limit = int(getattr(plugin, "OP_TIMEOUT", 120))
    if limit <= 0:
        return plugin.impl(line)
    # every hang is already a reportable outcome; after the first few the watchdog shortens so that a tree on
    # which many operations hang still finishes (1st hang: full limit, 2nd-3rd: 20 s, later: 3 s)
    if _HANGS[0] >= 3:
        limit = min(limit, 3)
    elif _HANGS[0] >= 1:
        limit = min(limit, 20)

    # the watchdog (harness/common.py) signals the main thread once the limit has passed and again every 0.5 s
    # until the operation has been left
    from harness.common import WATCHDOG
    e = WATCHDOG.arm(limit, _OpTimeout)
    try:
        try:
            out = plugin.impl(line)
            if isinstance(out, str) and out.startswith("hang"):
                # the plugin's own watchdog fired.  Whatever the abandoned operation left behind (a suspended
                # generator of the code under test whose `finally` blocks, say) is finalised NOW, under this
                # watchdog, and not by a later garbage collection at a point nobody guards
                _HANGS[0] += 1
                import gc
                gc.collect()
            return out
        except _OpTimeout:
            _HANGS[0] += 1
            try:
                import gc
                gc.collect()
            except _OpTimeout:
                pass
            return "hang"
        finally:
            WATCHDOG.disarm(e)
    except _OpTimeout:
        return "hang"


# --------------------------------------------------------------------------- findings


def _describe(plugin, line):
    """the plugin's decoding of an op line for the replay file (scenario labels of `extra` are not op lines)"""
    if not hasattr(plugin, "describe"):
        return None
    try:
        return plugin.describe(line)
    except Exception:  # noqa
        return {"scenario": line}


def load_findings(prop):
    path = os.path.join(ROOT, "known_findings.json")
    if not os.path.exists(path):
        return []
    data = json.load(open(path))
    return [f for f in data.get("findings", []) if f.get("property") == prop]


def match_finding(findings, plugin, line, out, why):
    env = dict(vars(plugin))
    env.update(line=line, args=line.split(" "), out=out, why=why or "")
    for f in findings:
        try:
            if eval(f["match"], env):
                return f
        except Exception:
            continue
    return None


# --------------------------------------------------------------------------- main check


def write_replay(prop, payload):
    os.makedirs(os.path.join(ROOT, "replays"), exist_ok=True)
    h = hashlib.sha1(json.dumps(payload, sort_keys=True, default=str).encode()).hexdigest()[:12]
    rel = "replays/%s-%s.json" % (prop, h)
    with open(os.path.join(ROOT, rel), "w") as f:
        json.dump(payload, f, indent=1, default=str)
    return rel


def check(prop, tier, seed, replay=None):
    t0 = time.time()
    plugin = importlib.import_module("harness.%s" % prop.lower())
    rng = random.Random(seed * 1000003 + int(prop[1:]))
    findings = load_findings(prop)
    violations = []  # (kind, replay payload)
    known_hit = {}
    notes = []

    # ---- leg 1 + 2 (under the shared lake lock)
    proof_ok = True
    proof_msgs = []
    with lake_lock():
        subprocess.run([sys.executable, os.path.join(ROOT, "tools", "mkdriver.py")],
                       stdout=subprocess.DEVNULL, check=False)
        gen_errors, gen_items = run_extract()
        for mod in list(getattr(plugin, "GEN_MODULES", [prop.lower()])) + ["*"]:
            if mod in gen_errors:
                proof_ok = False
                proof_msgs.append("extraction failed (%s): %s" % (mod, gen_errors[mod]))
        build_ok, build_out, build_s = lake_build(list(plugin.LEAN_MODULES) + ["driver"])
        if not build_ok:
            # distinguish: is the driver (models) still buildable?
            proof_ok = False
            errs = [l for l in build_out.split("\n") if "error" in l][:20]
            proof_msgs.append("lake build failed:\n" + "\n".join(errs))
        axioms, missing, audit_out = ({}, list(plugin.THEOREMS), "")
        if build_ok:
            axioms, missing, audit_out = audit_axioms(prop, plugin.LEAN_MODULES, plugin.THEOREMS)
        drv_ok, drv_out, _ = (True, "", 0) if build_ok else lake_build(["driver"])
    bad_tokens = forbidden_scan()
    if bad_tokens:
        proof_ok = False
        proof_msgs.append("forbidden tokens in Lean sources: " + "; ".join(bad_tokens[:10]))
    if missing:
        proof_ok = False
        proof_msgs.append("theorems not found by the audit: %s" % missing)
    bad_axioms = {t: a for t, a in axioms.items() if set(a) - ALLOWED_AXIOMS}
    if bad_axioms:
        proof_ok = False
        proof_msgs.append("theorems depending on non-standard axioms: %s" % bad_axioms)
    obligations = len(plugin.THEOREMS)
    discharged = len([t for t in plugin.THEOREMS if t in axioms and not (set(axioms[t]) - ALLOWED_AXIOMS)])
    if not proof_ok:
        discharged = min(discharged, obligations - 1) if not build_ok else discharged
    if tier == "thorough" and build_ok:
        lc = subprocess.run(["lake", "env", "leanchecker"] + list(plugin.LEAN_MODULES), cwd=LEAN,
                            stdout=subprocess.PIPE, stderr=subprocess.STDOUT, text=True, timeout=3000)
        notes.append("leanchecker rc=%d" % lc.returncode)
        if lc.returncode != 0:
            proof_ok = False
            proof_msgs.append("leanchecker failed: " + lc.stdout[-1500:])

    # ---- leg 3: correspondence + oracle
    boost = not proof_ok
    scenario = None
    if replay:
        payload = json.load(open(replay))
        if payload.get("scenario"):
            # a scenario of the plugin's `extra` (real stacks, real threads): re-run that part, report this one
            scenario = payload["line"]
            gen = iter([])
        else:
            gen = iter(payload.get("lines") or [payload["line"]])
    else:
        gen = iter(plugin.cases(rng, tier))
        if boost and tier != "thorough":
            # the tier's own cases first (so that the cap below never starves a late generator), then the deep ones
            gen = itertools.chain(gen, plugin.cases(rng, "thorough"))
    # a broken proof leg raises a quick run to the thorough generator: the failing-input search.  It stops
    # early once enough failing inputs are in hand, and is capped so that a quick check stays a quick check.
    cap_cases = 200000 if (boost and tier == "quick") else None
    cap_seconds = 300 if (boost and tier == "quick") else None
    t_gen = time.time()
    seen = set()
    lines = []
    impl_out = []
    dist = {}
    nontrivial = set()
    oracle_fail = []
    new_fail = 0
    for l in gen:
        if l in seen:
            continue
        seen.add(l)
        try:
            o = run_op(plugin, l)
        except Exception as exc:  # the adapter itself must not raise: infra
            raise Infra("adapter raised on %r: %r\n%s" % (l, exc, traceback.format_exc()))
        lines.append(l)
        impl_out.append(o)
        label = plugin.classify(l, o)
        dist[label] = dist.get(label, 0) + 1
        if plugin.nontrivial(l, o):
            nontrivial.add(l)
        why = plugin.oracle(l, o)
        if why:
            oracle_fail.append((l, o, why))
            if boost and not match_finding(findings, plugin, l, o, why):
                new_fail += 1
        if _HANGS[0] >= 25 and not replay:
            # 25 operations of the code under test did not return: the verdict does not need more of them, and each
            # one costs a watchdog period
            notes.append("stopped after %d hanging operations (%d cases run)" % (_HANGS[0], len(lines)))
            break
        if boost and not replay:
            if new_fail >= 200:      # failing inputs that no known finding explains
                notes.append("failing-input search stopped after %d failing inputs" % new_fail)
                break
            if cap_cases and len(lines) >= cap_cases:
                notes.append("failing-input search capped at %d cases" % cap_cases)
                break
            if cap_seconds and len(lines) % 500 == 0 and time.time() - t_gen > cap_seconds:
                notes.append("failing-input search capped at %d s (%d cases)" % (cap_seconds, len(lines)))
                break
    model_ok = drv_ok
    model_out = None
    if model_ok:
        model_out = driver_run(lines)
    disagreements = []
    if model_out is not None:
        for idx, l in enumerate(lines):
            if model_out[idx] != impl_out[idx]:
                disagreements.append((l, impl_out[idx], model_out[idx]))

    extra = {}
    extra_lines = set()
    if hasattr(plugin, "extra") and (not replay or scenario):
        extra = plugin.extra(rng, "thorough" if boost else tier) or {}
        for v in extra.get("violations", []):
            if scenario and v["line"] != scenario:
                continue
            oracle_fail.append((v["line"], v.get("out", ""), v["why"]))
            extra_lines.add(v["line"])

    # ---- judge
    for (l, o, why) in oracle_fail:
        f = match_finding(findings, plugin, l, o, why)
        if f:
            known_hit.setdefault(f["id"], (f, l, o, why))
            continue
        violations.append(("oracle", {"property": prop, "kind": "property fails on the implementation",
                                      "line": l, "implementation_output": o, "why": why,
                                      "decoded": _describe(plugin, l), "scenario": l in extra_lines,
                                      "replay_cmd": "./run.py --property %s --replay <this file>" % prop}))
    corr_unexplained = []
    oracle_failed_lines = set(x[0] for x in oracle_fail)
    for (l, o, m) in disagreements:
        # a disagreement on an input where the oracle already judged the implementation
        # wrong is explained by that violation / known finding
        if l in oracle_failed_lines:
            continue
        corr_unexplained.append((l, o, m))
    have_input = [v for v in violations if v[0] == "oracle"]
    if corr_unexplained and have_input:
        # a failing input is in hand: the remaining disagreements are recorded with it, not as a separate
        # no-failing-input-found report
        l, o, m = min(corr_unexplained, key=lambda x: len(x[0]))
        have_input[0][1]["other_disagreements"] = {
            "count": len(corr_unexplained), "shortest": {"line": l, "implementation_output": o, "model_output": m},
            "note": "model and implementation also differ on these inputs, on which the property itself holds"}
    elif corr_unexplained:
        l, o, m = min(corr_unexplained, key=lambda x: len(x[0]))
        violations.append(("correspondence", {
            "property": prop, "kind": "correspondence broken: model and implementation disagree",
            "no_failing_input_found": True,
            "correspondence": getattr(plugin, "CORRESPONDENCE", "model vs implementation"),
            "line": l, "implementation_output": o, "model_output": m,
            "decoded": _describe(plugin, l),
            "disagreements": len(corr_unexplained),
            "searched": "oracle evaluated on %d inputs (incl. every disagreeing one): no property failure" % len(lines)}))
    if not proof_ok and not [v for v in violations if v[0] == "oracle"]:
        violations.append(("proof", {
            "property": prop, "kind": "proof obligation no longer checks",
            "no_failing_input_found": True, "theorems": list(plugin.THEOREMS),
            "messages": proof_msgs,
            "searched": "oracle evaluated on %d inputs at the raised budget: no property failure" % len(lines)}))

    # ---- report
    for fid, (f, l, o, why) in known_hit.items():
        log("KNOWN-FINDING: property=%s %s: %s (e.g. %s)" % (prop, fid, f["what"], why))
    exit_code = 0
    reported = []
    for kind, payload in violations:
        if reported.count(kind) >= 3:
            continue
        rel = write_replay(prop, payload)
        tail = " no-failing-input-found" if payload.get("no_failing_input_found") else ""
        log("VIOLATION property=%s replay=%s%s" % (prop, rel, tail))
        reported.append(kind)
        exit_code = 1

    # ---- evidence
    samples = []
    for idx in list(range(min(3, len(lines)))) + [len(lines) // 2, len(lines) - 1]:
        if 0 <= idx < len(lines):
            samples.append({"op": lines[idx][:300], "implementation": impl_out[idx][:300],
                            "model": (model_out[idx][:300] if model_out else None)})
    thm_samples = [{"theorem": t, "axioms": axioms.get(t)} for t in plugin.THEOREMS]
    ev = {
        "property_id": prop,
        "tier": tier,
        "seed": seed,
        "level": "proof",
        "coverage": {
            "obligations": obligations,
            "discharged": discharged if proof_ok else min(discharged, max(obligations - 1, 0)),
            "checker_cmd": "cd lean && lake build %s && lake env lean .lake/audit_%s.lean  # #print axioms"
                           % (" ".join(plugin.LEAN_MODULES), prop),
            "trusted_base": list(getattr(plugin, "TRUSTED", [])) + [
                "Lean 4.33.0 kernel; allowed axioms propext, Classical.choice, Quot.sound",
                "tools/extract.py (constants regenerated from /repo on this run)",
                "correspondence harness: differential testing of the Lean model against the real code on the inputs below",
            ],
            "theorems": thm_samples,
            "partial": getattr(plugin, "PARTIAL", None),
            "gen_items": gen_items,
            "proof_leg_ok": proof_ok,
            "proof_messages": proof_msgs,
            "build_seconds": round(build_s, 1),
            "evaluations": len(lines),
            "distinct_nontrivial": len(nontrivial),
            "rule": getattr(plugin, "RULE", ""),
            "correspondence": {
                "ops": len(lines),
                "disagreements": len(disagreements),
                "unexplained_disagreements": len(corr_unexplained),
                "input_distribution": dict(sorted(dist.items())),
            },
            "oracle": {"evaluations": len(lines), "failures": len(oracle_fail)},
            "known_findings_hit": sorted(known_hit),
            "extra": {k: v for k, v in extra.items() if k != "violations"},
            "samples": samples,
            "notes": notes,
        },
        "assumptions": list(getattr(plugin, "ASSUMPTIONS", [])),
        "wall_s": round(time.time() - t0, 2),
        "violations": len(violations),
    }
    if not replay:  # a replay run reproduces one stored input; it is not a coverage record
        os.makedirs(os.path.join(ROOT, "evidence"), exist_ok=True)
        with open(os.path.join(ROOT, "evidence", "%s.json" % prop), "w") as f:
            json.dump(ev, f, indent=1, default=str)
    log("%s %s: proofs %d/%d %s; correspondence %d ops, %d disagreements; oracle failures %d (known %d); %.1fs"
        % (prop, tier, ev["coverage"]["discharged"], obligations, "ok" if proof_ok else "BROKEN",
           len(lines), len(disagreements), len(oracle_fail), len(known_hit), time.time() - t0))
    return exit_code


def setup():
    with lake_lock():
        errors, _ = run_extract()
        if errors:
            log("extraction errors: %s" % errors)
        subprocess.run([sys.executable, os.path.join(ROOT, "tools", "mkdriver.py")], check=False)
        ok, out, s = lake_build([])
        log(out[-3000:])
        log("lake build: %s in %.0fs" % ("ok" if ok else "FAILED", s))
        return 0 if ok else 2


def _budget_watchdog(tier):
    """last resort against a check that never returns (a finaliser of the code under test blocking outside every
    per-operation watchdog): an infrastructure failure, exit 2, after a budget far above any normal run"""
    import threading
    import time as _t

    budget = int(os.environ.get("VERIF_BUDGET_S", "0") or 0) or (2700 if tier == "quick" else 4 * 3600)

    def watch():
        _t.sleep(budget)
        sys.stderr.write("INFRASTRUCTURE FAILURE: the check did not finish within %d s\n" % budget)
        sys.stderr.flush()
        os._exit(2)

    threading.Thread(target=watch, daemon=True).start()


def main():
    ap = argparse.ArgumentParser()
    ap.add_argument("--property")
    ap.add_argument("--tier", default=os.environ.get("VERIF_TIER", "quick"))
    ap.add_argument("--replay")
    ap.add_argument("--setup", action="store_true")
    a = ap.parse_args()
    if a.setup:
        sys.exit(setup())
    seed = int(os.environ.get("VERIF_SEED", "0") or 0)
    _budget_watchdog(a.tier)
    try:
        code = check(a.property, a.tier, seed, a.replay)
    except Infra as exc:
        log("INFRASTRUCTURE FAILURE: %s" % exc)
        code = 2
    # leave without joining threads: an operation judged 'hang' may have left a worker thread of the code under
    # test blocked for ever, and the interpreter's normal shutdown would wait for it
    # the plugins' own atexit handlers (worker processes, temp directories) still run - under a watchdog
    import atexit
    import signal

    def _giveup(signum, frame):
        os._exit(code)

    signal.signal(signal.SIGALRM, _giveup)
    signal.setitimer(signal.ITIMER_REAL, 30)
    try:
        atexit._run_exitfuncs()
    except BaseException:  # noqa
        pass
    sys.stdout.flush()
    sys.stderr.flush()
    os._exit(code)


if __name__ == "__main__":
    main()
