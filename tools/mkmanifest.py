#!/usr/bin/env python3
"""Regenerates MANIFEST.json from the table below (kept in one place so it is always valid)."""
import json
import os

ROOT = os.path.dirname(os.path.dirname(os.path.abspath(__file__)))

import ast


def plugin_manifests():
    out = {}
    hd = os.path.join(ROOT, "harness")
    for fn in sorted(os.listdir(hd)):
        if not (fn.startswith("c") and fn[1:3].isdigit() and fn.endswith(".py")):
            continue
        tree = ast.parse(open(os.path.join(hd, fn), encoding="utf-8").read())
        for node in tree.body:
            if isinstance(node, ast.Assign) and isinstance(node.targets[0], ast.Name) \
                    and node.targets[0].id == "MANIFEST":
                out[fn[:-3].upper()] = ast.literal_eval(node.value)
    return out


CHECKS = plugin_manifests()

# properties that are not claimed: id -> reason
NOT_APPLICABLE = {}


def all_property_ids():
    return [json.loads(l)["id"] for l in open(os.path.join(ROOT, "properties.jsonl")) if l.strip()]


def main():
    checks = []
    for pid in sorted(CHECKS):
        c = CHECKS[pid]
        checks.append({
            "property_id": pid,
            "quick_cmd": "./run.py --property %s --tier quick" % pid,
            "thorough_cmd": "./run.py --property %s --tier thorough" % pid,
            "evidence_file": "evidence/%s.json" % pid,
            "replay_cmd_template": "./run.py --property %s --replay {path}" % pid,
            "engine": "lean4-proof+correspondence",
            "level_claimed": {"category": "proof", "text": c["text"], "design_ref": "DESIGN.md §3 " + c["design"]},
            "level_note": c["note"],
            "technique": c["technique"],
        })
    m = {
        "version": 1,
        "setup_cmd": "./run.py --setup",
        "hooks": {
            "guard": "BAIZE_VERIF",
            "enable": "no source hooks exist: the harness substitutes module attributes of the imported baize "
                      "package in-process (BAIZE_VERIF=1 is set by run.py for symmetry only)",
            "baseline_off_cmd": "cd /repo && /venv/bin/python -m pytest -ra -q -p no:cacheprovider --timeout=900 "
                                "--continue-on-collection-errors",
            "source_commits": [],
            "add_only": True,
        },
        "engines": [{
            "name": "lean4-proof+correspondence",
            "path": "run.py",
            "serves_properties": sorted(CHECKS),
            "kind_free_text": "Lean 4 models + theorems (lean/BaizeVerif), constants regenerated from /repo by "
                              "tools/extract.py, compiled Lean driver diffed against the real Python code by "
                              "harness/cXX.py, independent per-property oracles",
        }],
        "checks": checks,
        "not_applicable": [
            {"property_id": pid,
             "reason": NOT_APPLICABLE.get(pid, "not claimed yet: the model, theorems and correspondence for this "
                                               "property are still being built (see DESIGN.md §10)")}
            for pid in all_property_ids() if pid not in CHECKS],
        "notes": "Exit 2 = infrastructure failure (never a VIOLATION line). Genuine defects repaired in /repo are "
                 "listed in known_findings.json under 'fixed'.",
    }
    with open(os.path.join(ROOT, "MANIFEST.json"), "w") as f:
        json.dump(m, f, indent=1)
    print("MANIFEST.json: %d checks" % len(checks))


if __name__ == "__main__":
    main()
