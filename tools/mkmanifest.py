#!/usr/bin/env python3
"""Regenerates MANIFEST.json from the table below (kept in one place so it is always valid)."""
import json
import os

ROOT = os.path.dirname(os.path.dirname(os.path.abspath(__file__)))

CHECKS = {
    "C03": dict(
        technique="Lean 4 proof (induction over the spec list) + differential correspondence of the Lean model with parse_range",
        text="Lean theorems over an executable model of parse_range (canonical form, exact cover, exact 400/416 "
             "characterisation, order independence, for every size and every list of specs); the model is tied to "
             "/repo on every run by regenerated constants and by a differential correspondence (exhaustive small "
             "range sets + random + mutated headers) against the real function; an independent oracle states the "
             "property on the implementation's outputs.",
        note="Trusted: Lean kernel (propext, Classical.choice, Quot.sound only), tools/extract.py, the "
             "correspondence generator; CPython re/int/sorted behave as sampled. Header text is Latin-1.",
        design="C03",
    ),
}

NOT_APPLICABLE = []


def main():
    checks = []
    for pid in sorted(CHECKS):
        c = CHECKS[pid]
        checks.append({
            "property_id": pid,
            "quick_cmd": "./run.py --property %s --tier quick" % pid,
            "thorough_cmd": "./run.py --property %s --tier thorough" % pid,
            "evidence_file": "evidence/%s.json" % pid,
            "replay_cmd_template": "./run.py --property %s --replay {path}" % pid,
            "engine": "lean4-proof+correspondence",
            "level_claimed": {"category": "proof", "text": c["text"], "design_ref": "DESIGN.md §3 " + c["design"]},
            "level_note": c["note"],
            "technique": c["technique"],
        })
    m = {
        "version": 1,
        "setup_cmd": "./run.py --setup",
        "hooks": {
            "guard": "BAIZE_VERIF",
            "enable": "no source hooks exist: the harness substitutes module attributes of the imported baize "
                      "package in-process (BAIZE_VERIF=1 is set by run.py for symmetry only)",
            "baseline_off_cmd": "cd /repo && /venv/bin/python -m pytest -ra -q -p no:cacheprovider --timeout=900 "
                                "--continue-on-collection-errors",
            "source_commits": [],
            "add_only": True,
        },
        "engines": [{
            "name": "lean4-proof+correspondence",
            "path": "run.py",
            "serves_properties": sorted(CHECKS),
            "kind_free_text": "Lean 4 models + theorems (lean/BaizeVerif), constants regenerated from /repo by "
                              "tools/extract.py, compiled Lean driver diffed against the real Python code by "
                              "harness/cXX.py, independent per-property oracles",
        }],
        "checks": checks,
        "not_applicable": NOT_APPLICABLE,
        "notes": "Exit 2 = infrastructure failure (never a VIOLATION line). Genuine defects repaired in /repo are "
                 "listed in known_findings.json under 'fixed'.",
    }
    with open(os.path.join(ROOT, "MANIFEST.json"), "w") as f:
        json.dump(m, f, indent=1)
    print("MANIFEST.json: %d checks" % len(checks))


if __name__ == "__main__":
    main()
