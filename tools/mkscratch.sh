#!/bin/bash
# usage: tools/mkscratch.sh C17   -> /tmp/w/C17/{verif,repo}
set -e
P=$1
mkdir -p /tmp/w/$P
rm -rf /tmp/w/$P/verif
rsync -a --exclude .git --exclude replays --exclude evidence /verif/ /tmp/w/$P/verif/
mkdir -p /tmp/w/$P/verif/{evidence,replays,findings,fixes,notes,corpus}
if [ ! -d /tmp/w/$P/repo ]; then
  git -C /repo worktree add --detach /tmp/w/$P/repo HEAD >/dev/null 2>&1
fi
echo "/tmp/w/$P"
