#!/usr/bin/env python3
"""
Re-runs every recorded seeded change (seeded/<id>/patch.diff) against /repo's current HEAD, one after the other,
with the quick check of the property it breaks (plus any other check recorded as catching it), and records the
result in seeded/<id>/meta.json ("recheck").  /repo is restored after each one; the clean-tree evidence files
are put back at the end.      usage: tools/reseed_all.py [id-prefix ...]
"""
import glob
import json
import os
import shutil
import subprocess
import sys

ROOT = os.path.dirname(os.path.dirname(os.path.abspath(__file__)))
os.chdir(ROOT)
want = sys.argv[1:]


def sh(cmd):
    return subprocess.run(cmd, shell=True, stdout=subprocess.PIPE, stderr=subprocess.STDOUT, text=True)


head = sh("git -C /repo rev-parse --short HEAD").stdout.strip()
if sh("git -C /repo status --porcelain").stdout.strip():
    sys.exit("/repo is not clean")
keep = "/tmp/reseed_ev"
shutil.rmtree(keep, ignore_errors=True)
shutil.copytree("evidence", keep)
try:
    for d in sorted(glob.glob("seeded/*/")):
        sid = os.path.basename(d.rstrip("/"))
        if want and not any(sid.startswith(w) for w in want):
            continue
        meta = json.load(open(d + "meta.json"))
        patch = os.path.abspath(d + "patch.diff")
        r = sh("git -C /repo apply %s" % patch)
        how = "apply"
        if r.returncode != 0:
            r = sh("git -C /repo apply --3way %s" % patch)
            how = "apply --3way"
            if r.returncode != 0 or "with conflicts" in r.stdout:
                sh("git -C /repo reset -q --hard HEAD")
                meta["recheck"] = {"repo_head": head, "applies": False}
                json.dump(meta, open(d + "meta.json", "w"), indent=1)
                print("%s: patch does not apply to %s any more" % (sid, head), flush=True)
                continue
        imp = sh("cd /repo && /venv/bin/python -c 'import baize.wsgi, baize.asgi, baize.multipart_helper'")
        if imp.returncode != 0:
            sh("git -C /repo reset -q --hard HEAD")
            meta["recheck"] = {"repo_head": head, "applies": False,
                               "why": "applies textually but the package no longer imports: " + imp.stdout.strip()[-160:]}
            json.dump(meta, open(d + "meta.json", "w"), indent=1)
            print("%s: stale against %s (package does not import with it)" % (sid, head), flush=True)
            continue
        props = [meta["breaks_property"]] + [p for p in meta.get("caught_by", []) if p != meta["breaks_property"]]
        res = {}
        for p in props:
            out = sh("./run.py --property %s --tier quick" % p)
            v = [l for l in out.stdout.splitlines() if l.startswith("VIOLATION")]
            res[p] = {"exit": out.returncode, "violations": len(v),
                      "with_failing_input": len([l for l in v if "no-failing-input-found" not in l]),
                      "summary": out.stdout.strip().splitlines()[-1][:200] if out.stdout.strip() else ""}
        sh("git -C /repo reset -q --hard HEAD")
        sh("git -C /repo clean -fdq baize")
        meta["recheck"] = {"repo_head": head, "applies": True, "how": how, "checks": res}
        meta["caught_by"] = [p for p in props if res[p]["violations"]]
        json.dump(meta, open(d + "meta.json", "w"), indent=1)
        print("%s %s" % (sid, " ".join("%s:exit=%d,viol=%d,input=%d" % (p, x["exit"], x["violations"], x["with_failing_input"])
                                       for p, x in res.items())), flush=True)
finally:
    sh("git -C /repo reset -q --hard HEAD")
    for f in glob.glob(keep + "/*.json"):
        shutil.copy(f, "evidence/")
    shutil.rmtree(keep, ignore_errors=True)
