#!/usr/bin/env python3
"""prints the prompt for a seeding sub-agent (only the property text and its private worktree; nothing from /verif)"""
import json, sys
pid = sys.argv[1]
extra = sys.argv[2] if len(sys.argv) > 2 else ""
for l in open('/verif/properties.jsonl'):
    p = json.loads(l)
    if p['id'] == pid:
        break
print(f"""Task: seed realistic property-breaking changes into the Python library abersheeran/baize (a small pure-Python WSGI/ASGI toolkit).

Your private git worktree of the repository: /tmp/seed/{pid}  (work only there and in the sibling directory /tmp/seed/out-{pid}, which you create). Do not look at or touch /repo or /verif.

THE PROPERTY ({pid} — {p['title']}):
"{p['statement']}"
Quantifier: {p['quantifier']['text']}.
(Relevant source files: {', '.join(p['anchors']['files'])}.)

Produce TWO independent source changes (two separate patches, different mechanisms / code sites) to the library that each
1. BREAK the property (for some input / operation sequence / history / configuration the stated behaviour no longer holds),
2. still import/compile, and keep the existing unit suite passing exactly as before: `cd /tmp/seed/{pid} && /venv/bin/python -m pytest -q -p no:cacheprovider --timeout=900` must report the same result as on the untouched worktree (77 passed, 99 failed — the 99 fail for an unrelated reason: the installed httpx has no `Client(app=...)`; the set of passing tests must not change),
3. look like something a maintainer could plausibly commit (a "simplification", "optimisation", refactor, off-by-one, dropped special case, reordered statements, one-sided edit of a wsgi/asgi twin, changed constant/regex/table ...) — not sabotage that ordinary use would expose at once. Prefer changes that need something specific to manifest: an unusual input, a particular multi-step sequence of operations, a particular configuration or interface, a boundary value, or two cooperating sites that each look fine alone. {extra}

For each change deliver inside /tmp/seed/out-{pid}/:
* change1.diff, change2.diff — `git diff` of the library change alone against the worktree's HEAD (only files under baize/; do not edit tests);
* demo1.py, demo2.py — a small standalone program, run as `PYTHONPATH=/tmp/seed/{pid} /venv/bin/python demoN.py`, that exits 0 and prints OK on the unchanged library and exits 1 printing what is wrong with the change applied (it demonstrates the property violation on the real code);
* README.md — for each change: what it does, why it breaks the property, what it needs in order to manifest, and the exact commands you ran (unit suite before/after, demo before/after).

Leave the worktree clean (`git checkout -- .`) when done. Python is /venv/bin/python (3.12); no network. Verify everything you claim by running it. Final message: a 5-line summary of the two changes.""")
