#!/usr/bin/env python3
"""
tools/confirm_seed.py for a whole batch, several at a time, without touching /repo or /verif: every slot has its own
copy of /verif and its own worktree of /repo under /tmp/cs/<slot>/ (checks are pointed at the worktree with
BAIZE_REPO).  Entries of one property go through one slot, and only the check of the property the change breaks is
run (use confirm_seed.py for secondary checks).

  batch file: one JSON list of [PROP, out-dir, n, "needs", id]         usage: tools/confirm_parallel.py batch.json [slots]
"""
import json
import os
import shutil
import subprocess
import sys
import threading

ROOT = os.path.dirname(os.path.dirname(os.path.abspath(__file__)))
batch = json.load(open(sys.argv[1]))
slots = int(sys.argv[2]) if len(sys.argv) > 2 else 5
BASE = "/tmp/cs"
lock = threading.Lock()


def sh(cmd, **kw):
    return subprocess.run(cmd, shell=True, stdout=subprocess.PIPE, stderr=subprocess.STDOUT, text=True, **kw)


props = sorted({e[0] for e in batch})
load = [0] * slots
assign = {}
for p in sorted(props, key=lambda p: -len([1 for e in batch if e[0] == p])):
    i = load.index(min(load))
    assign[p] = i
    load[i] += len([1 for e in batch if e[0] == p])


def worker(i):
    mine = [e for e in batch if assign[e[0]] == i]
    if not mine:
        return
    base = "%s/%d" % (BASE, i)
    sh("git -C /repo worktree remove --force %s/repo" % base)
    shutil.rmtree(base, ignore_errors=True)
    os.makedirs(base)
    sh("rsync -a --exclude .git --exclude replays --exclude seeded %s/ %s/verif/" % (ROOT, base))
    os.makedirs(base + "/verif/replays", exist_ok=True)
    sh("git -C /repo worktree add --detach %s/repo HEAD" % base)
    repo, verif = base + "/repo", base + "/verif"
    env = dict(os.environ, BAIZE_REPO=repo, PYTHONPATH=repo)
    for prop, outdir, n, needs, sid in mine:
        diff = os.path.join(outdir, "change%s.diff" % n)
        demo = os.path.join(outdir, "demo%s.py" % n)
        dest = os.path.join(ROOT, "seeded", sid)
        if not (os.path.exists(diff) and os.path.exists(demo)):
            with lock:
                print("%s: %s or %s missing" % (sid, diff, demo), flush=True)
            continue
        os.makedirs(dest, exist_ok=True)
        meta = {"id": sid, "breaks_property": prop, "needs_to_manifest": needs, "ran": []}
        r = sh("/venv/bin/python %s" % demo, env=env, timeout=900)
        meta["ran"].append({"cmd": "demo on clean tree", "exit": r.returncode, "tail": r.stdout[-200:]})
        clean_ok = r.returncode == 0
        applied = sh("git -C %s apply %s" % (repo, diff)).returncode == 0
        r = sh("cd %s && /venv/bin/python -m pytest -q -p no:cacheprovider --timeout=900 2>&1 | tail -1" % repo)
        meta["ran"].append({"cmd": "unit suite with the change", "tail": r.stdout.strip()[-120:]})
        suite_ok = "77 passed" in r.stdout
        try:
            r = sh("/venv/bin/python %s" % demo, env=env, timeout=900)
            rc, tail = r.returncode, r.stdout[-300:]
        except subprocess.TimeoutExpired:
            rc, tail = 124, "demo timed out"
        meta["ran"].append({"cmd": "demo with the change", "exit": rc, "tail": tail})
        meta["confirmed"] = bool(clean_ok and applied and suite_ok and rc != 0)
        out = sh("cd %s && ./run.py --property %s --tier quick" % (verif, prop), env=env)
        lines = [l for l in out.stdout.split("\n") if l.startswith("VIOLATION")]
        meta["checks_run_against_it"] = {prop: {"exit": out.returncode, "violation_lines": lines[:3],
                                                "summary": out.stdout.strip().split("\n")[-1][:300]}}
        meta["caught_by"] = [prop] if (out.returncode == 1 and lines) else []
        sh("git -C %s reset -q --hard HEAD" % repo)
        sh("git -C %s clean -fdq baize" % repo)
        shutil.copy(diff, os.path.join(dest, "patch.diff"))
        shutil.copy(demo, os.path.join(dest, "demo.py"))
        readme = os.path.join(outdir, "README.md")
        if os.path.exists(readme):
            shutil.copy(readme, os.path.join(dest, "README-from-seeder.md"))
        how = "none" if not lines else ("input" if any("no-failing" not in v for v in lines) else "NOINPUT")
        with lock:
            json.dump(meta, open(os.path.join(dest, "meta.json"), "w"), indent=1)
            print("%s confirmed=%s %s:%s | %s" % (sid, meta["confirmed"], prop, how,
                                                  meta["checks_run_against_it"][prop]["summary"][:120]), flush=True)
    sh("git -C /repo worktree remove --force %s" % repo)
    shutil.rmtree(base, ignore_errors=True)


threads = [threading.Thread(target=worker, args=(i,)) for i in range(slots)]
for t in threads:
    t.start()
for t in threads:
    t.join()
sh("git -C /repo worktree prune")
