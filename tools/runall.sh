#!/bin/bash
# runs every claimed check (tier $1, default quick) on the current tree, 6 at a time; prints one line per check
TIER=${1:-quick}
cd "$(dirname "$0")/.."
IDS=$(python3 -c "import json;print(' '.join(c['property_id'] for c in json.load(open('MANIFEST.json'))['checks']))")
./run.py --setup >/dev/null 2>&1
printf "%s\n" $IDS | xargs -P 6 -I{} sh -c "./run.py --property {} --tier $TIER > /tmp/runall_{}.log 2>&1; echo \"{} exit=\$? \$(grep -c '^VIOLATION' /tmp/runall_{}.log) violations; \$(tail -1 /tmp/runall_{}.log)\""
