#!/usr/bin/env python3
"""prompt for a FURTHER seeding round of a property: tells the seeder what the earlier changes needed (so that it
finds other mechanisms) and writes into /tmp/seed/out<round>-<PROP>.   usage: tools/seedprompt2.py C05 2"""
import glob
import json
import subprocess
import sys

pid, rnd = sys.argv[1], sys.argv[2]
earlier = []
for mp in sorted(glob.glob("/verif/seeded/%s-*/meta.json" % pid)):
    earlier.append(json.load(open(mp))["needs_to_manifest"])
extra = ("%d changes have already been made by someone else and must NOT be repeated or varied; find different "
         "mechanisms and different code sites. The earlier ones needed, to manifest: %s. Favour changes of these kinds "
         "this time: two cooperating edits that each look harmless alone; a fault or exception at a particular point of "
         "a multi-step interaction; a dependence on configuration (charset, limits, interface, options); an "
         "error-handling or cleanup path; an interaction between two features." % (
             len(earlier), "; ".join("(%d) %s" % (i + 1, e) for i, e in enumerate(earlier))))
text = subprocess.run([sys.executable, "/verif/tools/seedprompt.py", pid, extra], stdout=subprocess.PIPE, text=True).stdout
text = text.replace("/tmp/seed/out-%s" % pid, "/tmp/seed/out%s-%s" % (rnd, pid))
print(text)
