#!/bin/bash
# Re-runs every recorded seeded change (seeded/<id>/patch.diff) against /repo, one after the other, and
# reports whether the property's quick check still catches it.  /repo is restored after each one; the
# clean-tree evidence files are kept.
cd "$(dirname "$0")/.."
mkdir -p /tmp/reseed_ev && cp evidence/*.json /tmp/reseed_ev/
for d in seeded/*/; do
  id=$(basename $d)
  prop=$(python3 -c "import json;print(json.load(open('$d/meta.json'))['breaks_property'])")
  git -C /repo apply $d/patch.diff || { echo "$id: patch does not apply any more"; continue; }
  out=$(./run.py --property $prop --tier quick 2>&1)
  rc=$?
  git -C /repo checkout -- .
  n=$(echo "$out" | grep -c '^VIOLATION')
  concrete=$(echo "$out" | grep '^VIOLATION' | grep -vc 'no-failing-input-found')
  echo "$id prop=$prop exit=$rc violations=$n with-failing-input=$concrete | $(echo "$out" | tail -1 | cut -c1-140)"
done
cp /tmp/reseed_ev/*.json evidence/
