#!/usr/bin/env python3
"""
Confirms a seeded change delivered by a seeding sub-agent and records it under seeded/<id>/:
  tools/confirm_seed.py <PROPERTY> <out-dir> <n> "<needs>"
Steps (all re-run here, nothing is taken on trust):
  1. scratch worktree of /repo HEAD; demo passes (exit 0) on the clean tree
  2. apply the diff; unit suite still 77 passed; demo fails (exit != 0)
  3. apply the diff to /repo, run the property's quick check (expects VIOLATION), undo with git checkout
"""
import json
import os
import shutil
import subprocess
import sys

prop, outdir, n, needs = sys.argv[1], sys.argv[2], sys.argv[3], sys.argv[4]
checks = sys.argv[5].split(",") if len(sys.argv) > 5 else [prop]
diff = os.path.join(outdir, "change%s.diff" % n)
demo = os.path.join(outdir, "demo%s.py" % n)
sid = sys.argv[6] if len(sys.argv) > 6 else "%s-%s" % (prop, n)   # optional explicit id (second-round seeds)
dest = os.path.join("/verif/seeded", sid)
os.makedirs(dest, exist_ok=True)
wt = "/tmp/confirm_%s" % sid


def sh(cmd, **kw):
    return subprocess.run(cmd, shell=True, stdout=subprocess.PIPE, stderr=subprocess.STDOUT, text=True, **kw)


sh("git -C /repo worktree remove --force %s" % wt)
sh("git -C /repo worktree add --detach %s HEAD" % wt)
meta = {"id": sid, "breaks_property": prop, "needs_to_manifest": needs, "ran": []}
try:
    r = sh("PYTHONPATH=%s /venv/bin/python %s" % (wt, demo))
    meta["ran"].append({"cmd": "demo on clean tree", "exit": r.returncode, "tail": r.stdout[-200:]})
    clean_ok = r.returncode == 0
    r = sh("git -C %s apply %s" % (wt, diff))
    applied = r.returncode == 0
    r = sh("cd %s && /venv/bin/python -m pytest -q -p no:cacheprovider --timeout=900 2>&1 | tail -1" % wt)
    meta["ran"].append({"cmd": "unit suite with the change", "tail": r.stdout.strip()[-120:]})
    suite_ok = "77 passed" in r.stdout
    r = sh("PYTHONPATH=%s /venv/bin/python %s" % (wt, demo))
    meta["ran"].append({"cmd": "demo with the change", "exit": r.returncode, "tail": r.stdout[-300:]})
    demo_fails = r.returncode != 0
finally:
    sh("git -C /repo worktree remove --force %s" % wt)
meta["confirmed"] = bool(clean_ok and applied and suite_ok and demo_fails)
detected = {}
# the checks rewrite evidence/<id>.json on every run: keep the clean-tree evidence
saved = {}
for c in checks:
    ev = "/verif/evidence/%s.json" % c
    if os.path.exists(ev):
        saved[c] = open(ev).read()
r = sh("git -C /repo apply %s" % diff)
try:
    for c in checks:
        r = sh("cd /verif && ./run.py --property %s --tier quick" % c, timeout=3000)
        lines = [l for l in r.stdout.split("\n") if l.startswith("VIOLATION")]
        detected[c] = {"exit": r.returncode, "violation_lines": lines[:3], "summary": r.stdout.strip().split("\n")[-1][:300]}
finally:
    sh("git -C /repo checkout -- .")
    for c, text in saved.items():
        open("/verif/evidence/%s.json" % c, "w").write(text)
meta["checks_run_against_it"] = detected
meta["caught_by"] = [c for c, d in detected.items() if d["exit"] == 1 and d["violation_lines"]]
shutil.copy(diff, os.path.join(dest, "patch.diff"))
shutil.copy(demo, os.path.join(dest, "demo.py"))
readme = os.path.join(outdir, "README.md")
if os.path.exists(readme):
    shutil.copy(readme, os.path.join(dest, "README-from-seeder.md"))
json.dump(meta, open(os.path.join(dest, "meta.json"), "w"), indent=1)
print(sid, "confirmed=%s" % meta["confirmed"], "caught_by=%s" % meta["caught_by"])
for c, d in detected.items():
    print("  ", c, d["summary"])
