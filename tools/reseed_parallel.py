#!/usr/bin/env python3
"""
Re-runs every recorded seeded change against the CURRENT /repo HEAD and the CURRENT checks, several at a time, without
touching /repo or /verif: each slot has its own copy of /verif (build output included) and its own worktree of
/repo under /tmp/rs/<slot>/, the check is pointed at the worktree with BAIZE_REPO.  Only the check of the property
the change breaks is run (all seeds of one property go through the same slot, so a check never runs twice at once).
Results go to seeded/<id>/meta.json ("recheck").       usage: tools/reseed_parallel.py [slots] [id-prefix ...]
"""
import glob
import json
import os
import shutil
import subprocess
import sys
import threading

ROOT = os.path.dirname(os.path.dirname(os.path.abspath(__file__)))
args = sys.argv[1:]
slots = int(args.pop(0)) if args and args[0].isdigit() else 5
want = args
BASE = "/tmp/rs"


def sh(cmd, **kw):
    return subprocess.run(cmd, shell=True, stdout=subprocess.PIPE, stderr=subprocess.STDOUT, text=True, **kw)


head = sh("git -C /repo rev-parse --short HEAD").stdout.strip()
seeds = []
for d in sorted(glob.glob(os.path.join(ROOT, "seeded", "*", ""))):
    sid = os.path.basename(d.rstrip("/"))
    if want and not any(sid.startswith(w) for w in want):
        continue
    seeds.append((sid, json.load(open(d + "meta.json"))["breaks_property"]))
props = sorted({p for _, p in seeds})
# longest-processing-time first over properties (rough weights: seeds per property)
load = [0] * slots
assign = {}
for p in sorted(props, key=lambda p: -len([1 for _, q in seeds if q == p])):
    i = load.index(min(load))
    assign[p] = i
    load[i] += len([1 for _, q in seeds if q == p])
lock = threading.Lock()


def prepare(i):
    base = "%s/%d" % (BASE, i)
    sh("git -C /repo worktree remove --force %s/repo" % base)
    shutil.rmtree(base, ignore_errors=True)
    os.makedirs(base)
    sh("rsync -a --exclude .git --exclude replays --exclude seeded %s/ %s/verif/" % (ROOT, base))
    os.makedirs(base + "/verif/replays", exist_ok=True)
    r = sh("git -C /repo worktree add --detach %s/repo HEAD" % base)
    if r.returncode != 0:
        raise SystemExit(r.stdout)
    return base


def worker(i):
    mine = [(sid, p) for sid, p in seeds if assign[p] == i]
    if not mine:
        return
    base = prepare(i)
    repo, verif = base + "/repo", base + "/verif"
    env = dict(os.environ, BAIZE_REPO=repo, PYTHONPATH=repo)
    for sid, p in mine:
        mpath = os.path.join(ROOT, "seeded", sid, "meta.json")
        meta = json.load(open(mpath))
        patch = os.path.join(ROOT, "seeded", sid, "patch.diff")
        r = sh("git -C %s apply %s" % (repo, patch))
        how = "apply"
        if r.returncode != 0:
            r = sh("git -C %s apply --3way %s" % (repo, patch))
            how = "apply --3way"
        ok = r.returncode == 0 and "with conflicts" not in r.stdout
        if ok:
            imp = sh("cd %s && /venv/bin/python -c 'import baize.wsgi, baize.asgi, baize.multipart_helper'" % repo, env=env)
            ok = imp.returncode == 0
        if not ok:
            sh("git -C %s reset -q --hard HEAD" % repo)
            meta["recheck"] = {"repo_head": head, "applies": False}
            with lock:
                json.dump(meta, open(mpath, "w"), indent=1)
                print("%s: patch does not apply to %s any more" % (sid, head), flush=True)
            continue
        out = sh("cd %s && ./run.py --property %s --tier quick" % (verif, p), env=env)
        v = [l for l in out.stdout.splitlines() if l.startswith("VIOLATION")]
        res = {"exit": out.returncode, "violations": len(v),
               "with_failing_input": len([l for l in v if "no-failing-input-found" not in l]),
               "summary": out.stdout.strip().splitlines()[-1][:200] if out.stdout.strip() else ""}
        sh("git -C %s reset -q --hard HEAD" % repo)
        sh("git -C %s clean -fdq baize" % repo)
        meta["recheck"] = {"repo_head": head, "applies": True, "how": how, "checks": {p: res}, "primary_only": True}
        others = [c for c in meta.get("caught_by", []) if c != p]
        meta["caught_by"] = ([p] if res["violations"] else []) + others
        with lock:
            json.dump(meta, open(mpath, "w"), indent=1)
            print("%s %s:exit=%d,viol=%d,input=%d" % (sid, p, res["exit"], res["violations"], res["with_failing_input"]),
                  flush=True)
    sh("git -C /repo worktree remove --force %s" % repo)
    shutil.rmtree(base, ignore_errors=True)


threads = [threading.Thread(target=worker, args=(i,)) for i in range(slots)]
for t in threads:
    t.start()
for t in threads:
    t.join()
sh("git -C /repo worktree prune")
