#!/usr/bin/env python3
"""Merges the per-property fragments findings/*.json into known_findings.json (the committed
known-findings file read by run.py; it is never written at check time)."""
import json
import os

ROOT = os.path.dirname(os.path.dirname(os.path.abspath(__file__)))


def main():
    out = {"findings": [], "fixed": []}
    d = os.path.join(ROOT, "findings")
    for fn in sorted(os.listdir(d)):
        if fn.endswith(".json"):
            frag = json.load(open(os.path.join(d, fn)))
            out["findings"] += frag.get("findings", [])
            out["fixed"] += frag.get("fixed", [])
    with open(os.path.join(ROOT, "known_findings.json"), "w") as f:
        json.dump(out, f, indent=1, ensure_ascii=False)
    print("known_findings.json: %d findings, %d fixed" % (len(out["findings"]), len(out["fixed"])))


if __name__ == "__main__":
    main()
