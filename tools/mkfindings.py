#!/usr/bin/env python3
"""Merges the per-property fragments findings/*.json into known_findings.json (the committed
known-findings file read by run.py; it is never written at check time)."""
import json
import os

ROOT = os.path.dirname(os.path.dirname(os.path.abspath(__file__)))


def commit_of_patch(patch_rel):
    """hash of the /repo commit whose subject equals the patch's Subject line"""
    import re
    import subprocess

    path = os.path.join(ROOT, patch_rel)
    if not os.path.exists(path):
        return None
    text = open(path, encoding="utf-8", errors="replace").read()
    m = re.search(r"^Subject: (?:\[PATCH[^\]]*\] )?(.*(?:\n .*)*)", text, re.M)
    if not m:
        return None
    subject = " ".join(x.strip() for x in m.group(1).split("\n"))
    log = subprocess.run(["git", "-C", "/repo", "log", "--format=%h %s"], stdout=subprocess.PIPE, text=True).stdout
    for line in log.split("\n"):
        h, _, subj = line.partition(" ")
        if subj.strip() == subject:
            return h
    return None


def with_hash(entry):
    """`fixed: property=Cxx fixes/<patch> ...` -> `fixed: property=Cxx <commit> (fixes/<patch>) ...`"""
    import re

    m = re.match(r"(fixed: property=\S+ )(fixes/\S+\.patch)(.*)", entry, re.S)
    if not m:
        return entry
    h = commit_of_patch(m.group(2))
    return "%s%s (%s)%s" % (m.group(1), h, m.group(2), m.group(3)) if h else entry


def main():
    out = {"findings": [], "fixed": []}
    d = os.path.join(ROOT, "findings")
    for fn in sorted(os.listdir(d)):
        if fn.endswith(".json"):
            frag = json.load(open(os.path.join(d, fn)))
            out["findings"] += frag.get("findings", [])
            out["fixed"] += [with_hash(e) for e in frag.get("fixed", [])]
    with open(os.path.join(ROOT, "known_findings.json"), "w") as f:
        json.dump(out, f, indent=1, ensure_ascii=False)
    print("known_findings.json: %d findings, %d fixed" % (len(out["findings"]), len(out["fixed"])))


if __name__ == "__main__":
    main()
