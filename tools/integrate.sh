#!/bin/bash
# usage: tools/integrate.sh C17 [C16 ...]  copies an agent's deliverables from /tmp/w/<first>/verif into /verif
set -e
shopt -s nullglob
W=/tmp/w/$1/verif
for P in "$@"; do
  p=$(echo $P | tr 'A-Z' 'a-z')
  for f in harness/$p.py tools/gen/$p.py lean/BaizeVerif/Props/$P.lean findings/$P.json notes/$P.md; do
    [ -f $W/$f ] && mkdir -p /verif/$(dirname $f) && cp $W/$f /verif/$f && echo "copied $f"
  done
  [ -d $W/corpus/$P ] && mkdir -p /verif/corpus/$P && cp -r $W/corpus/$P/. /verif/corpus/$P/ && echo "copied corpus/$P"
  for f in $W/fixes/$P-*; do cp $f /verif/fixes/ && echo "copied $f"; done
done
# new model / lemma files (never overwrite existing ones silently: report)
for d in Model Lemmas; do
  [ -d $W/lean/BaizeVerif/$d ] || continue
  for f in $W/lean/BaizeVerif/$d/*.lean; do
    b=$(basename $f)
    if [ -f /verif/lean/BaizeVerif/$d/$b ] && ! cmp -s $f /verif/lean/BaizeVerif/$d/$b; then
      echo "DIFFERS (not copied): lean/BaizeVerif/$d/$b"
    else
      mkdir -p /verif/lean/BaizeVerif/$d && cp $f /verif/lean/BaizeVerif/$d/$b
    fi
  done
done
