#!/usr/bin/env python3
"""refuses (exit 1) when a committed-to-be evidence file is not the record of a clean run on the unchanged tree
(installed as .git/hooks/pre-commit in this working copy: evidence written while a seeded change was applied to
/repo must never be committed)"""
import glob
import json
import os
import sys

root = os.path.dirname(os.path.dirname(os.path.abspath(__file__)))
bad = []
for f in sorted(glob.glob(os.path.join(root, "evidence", "*.json"))):
    d = json.load(open(f))
    c = d.get("coverage", {})
    if c.get("obligations") != c.get("discharged") or d.get("violations"):
        bad.append("%s: obligations=%s discharged=%s violations=%s" % (os.path.basename(f), c.get("obligations"),
                                                                       c.get("discharged"), d.get("violations")))
if bad:
    sys.stderr.write("evidence files that are not clean-tree records:\n  " + "\n  ".join(bad) + "\n")
    sys.exit(1)
