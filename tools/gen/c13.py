"""C13: data of the response header mapping (MutableHeaders), of iri_to_uri and of RedirectResponse."""
import ast

from tools.extract import ExtractError, Gen, const, cps, find_class, find_func, lean_str, parse


def doc(s):
    """text safe inside a Lean doc comment"""
    return s.replace("-/", "- /").replace("/-", "/ -")


def strlist(xs):
    return "[" + ", ".join(lean_str(x) for x in xs) + "]"


def is_self_item(node, key_name="key"):
    """`self[key]`"""
    return (isinstance(node, ast.Subscript) and isinstance(node.value, ast.Name) and node.value.id == "self"
            and isinstance(node.slice, ast.Name) and node.slice.id == key_name)


def gen_headers(repo):
    """C13: control set of MutableHeaders.__setitem__, shape of append, iri_to_uri safe set, RedirectResponse"""
    g = Gen("Headers", "baize/datastructures.py (Headers, MutableHeaders), baize/responses.py (iri_to_uri, "
                       "list_headers), baize/{wsgi,asgi}/responses.py (RedirectResponse)")
    tree = parse(repo, "baize/datastructures.py")
    mh = find_class(tree, "MutableHeaders")
    methods = [n.name for n in mh.body if isinstance(n, (ast.FunctionDef, ast.AsyncFunctionDef))]
    g.add("mutableHeadersMethods", "List String", strlist(methods),
          "methods MutableHeaders defines itself (everything else is the collections.abc mixin)", methods)
    bases = [ast.unparse(b) for b in mh.bases]
    g.add("mutableHeadersBases", "List String", strlist(bases), "base classes of MutableHeaders", bases)

    # ---- __setitem__: the two control-character tests, in order, then the store
    si = find_func(mh, "__setitem__")
    checks = []  # (variable, [chars], exception)
    store = None
    for stmt in si.body:
        if isinstance(stmt, ast.If):
            t = stmt.test
            vals = t.values if isinstance(t, ast.BoolOp) and isinstance(t.op, ast.Or) else [t]
            var = None
            chars = []
            for v in vals:
                if not (isinstance(v, ast.Compare) and len(v.ops) == 1 and isinstance(v.ops[0], ast.In)
                        and isinstance(v.comparators[0], ast.Name)):
                    raise ExtractError("__setitem__: expected `\"<c>\" in <name> or ...`")
                if var not in (None, v.comparators[0].id):
                    raise ExtractError("__setitem__: one test mixes key and value")
                var = v.comparators[0].id
                chars.append(const(v.left, str))
            if not (len(stmt.body) == 1 and isinstance(stmt.body[0], ast.Raise) and not stmt.orelse):
                raise ExtractError("__setitem__: the control test does not raise")
            exc = stmt.body[0].exc
            exc_name = exc.func.id if isinstance(exc, ast.Call) and isinstance(exc.func, ast.Name) else ast.unparse(exc)
            checks.append((var, chars, exc_name))
        elif isinstance(stmt, ast.Assign):
            store = stmt
            if len(checks) < 2:
                raise ExtractError("__setitem__: the store precedes a control test")
    if [c[0] for c in checks] != ["key", "value"]:
        raise ExtractError("__setitem__: expected a key test followed by a value test, got %s" % [c[0] for c in checks])
    if store is None:
        raise ExtractError("__setitem__: store not found")
    tgt = store.targets[0]
    lowered = (isinstance(tgt, ast.Subscript) and isinstance(tgt.slice, ast.Call)
               and isinstance(tgt.slice.func, ast.Attribute) and tgt.slice.func.attr == "lower"
               and isinstance(tgt.slice.func.value, ast.Name) and tgt.slice.func.value.id == "key")
    for (var, chars, exc_name), nm in zip(checks, ("keyControl", "valueControl")):
        flat = "".join(chars)
        if any(len(c) != 1 for c in chars):
            raise ExtractError("__setitem__: multi-character control literal")
        g.natlist(nm, cps(flat), doc("characters refused in the %s by __setitem__: %r" % (var, chars)))
    g.string("controlException", checks[0][2] if checks[0][2] == checks[1][2] else "mixed",
             "exception class raised by both tests")
    g.bool("storeLowercasesKey", lowered, "the store is self._dict[key.lower()] = value")

    # ---- __delitem__
    di = find_func(mh, "__delitem__")
    dl = [n for n in ast.walk(di) if isinstance(n, ast.Delete)]
    ok = (len(dl) == 1 and isinstance(dl[0].targets[0], ast.Subscript)
          and ast.unparse(dl[0].targets[0]) == "self._dict[key.lower()]")
    g.bool("delLowercasesKey", ok, "__delitem__ is `del self._dict[key.lower()]`")

    # ---- append: must go through self[key] = ... in both branches
    ap = find_func(mh, "append")
    ifs = [n for n in ap.body if isinstance(n, ast.If)]
    via = True
    joiner = None
    if len(ifs) != 1 or len(ap.body) != 1:
        raise ExtractError("append: expected a single if/else")
    iff = ifs[0]
    t = iff.test
    if not (isinstance(t, ast.Compare) and isinstance(t.ops[0], ast.In) and isinstance(t.left, ast.Name)
            and t.left.id == "key" and isinstance(t.comparators[0], ast.Name) and t.comparators[0].id == "self"):
        raise ExtractError("append: expected `if key in self`")
    for branch in (iff.body, iff.orelse):
        if not (len(branch) == 1 and isinstance(branch[0], ast.Assign)):
            raise ExtractError("append: each branch must be one assignment")
        if not is_self_item(branch[0].targets[0]):
            via = False
    v = iff.body[0].value
    if isinstance(v, ast.JoinedStr) and len(v.values) == 3 and isinstance(v.values[1], ast.Constant) \
            and isinstance(v.values[0], ast.FormattedValue) and is_self_item(v.values[0].value) \
            and isinstance(v.values[2], ast.FormattedValue) and isinstance(v.values[2].value, ast.Name) \
            and v.values[2].value.id == "value":
        joiner = v.values[1].value
    else:
        raise ExtractError("append: expected f\"{self[key]}<sep>{value}\"")
    v2 = iff.orelse[0].value
    if not (isinstance(v2, ast.Name) and v2.id == "value"):
        raise ExtractError("append: the else branch does not store `value`")
    if any(isinstance(n, ast.Attribute) and n.attr == "_dict" for n in ast.walk(ap)):
        via = False
    g.bool("appendViaSetitem", via, "both branches of append assign through self[key] (so through __setitem__)")
    g.natlist("appendJoiner", cps(joiner), doc("separator used by append for an existing key: %r" % joiner))

    # ---- Headers.__init__ joiner (the constructor is NOT a mutating operation; recorded for the model)
    hi = find_func(find_class(tree, "Headers"), "__init__")
    cj = None
    for node in ast.walk(hi):
        if isinstance(node, ast.JoinedStr) and len(node.values) == 3 and isinstance(node.values[1], ast.Constant):
            cj = node.values[1].value
    if cj is None:
        raise ExtractError("Headers.__init__: duplicate joiner not found")
    g.natlist("initJoiner", cps(cj), doc("separator used by Headers.__init__ for duplicate keys: %r" % cj))

    # ---- iri_to_uri
    rtree = parse(repo, "baize/responses.py")
    iri = find_func(rtree, "iri_to_uri")
    safe = None
    fn_name = None
    for node in ast.walk(iri):
        if isinstance(node, ast.Return) and isinstance(node.value, ast.Call):
            fn_name = ast.unparse(node.value.func)
            for k in node.value.keywords:
                if k.arg == "safe":
                    safe = const(k.value, str)
            if len(node.value.args) > 1:
                safe = const(node.value.args[1], str)
    if safe is None or fn_name is None:
        raise ExtractError("iri_to_uri: return quote(iri, safe=<literal>) not found")
    g.string("iriFunction", fn_name, "function iri_to_uri delegates to")
    g.natlist("iriSafe", cps(safe), doc("safe= string of iri_to_uri: %r" % safe))
    # the always-safe set of urllib.parse.quote, taken from the running interpreter (trusted, recorded)
    import urllib.parse as up

    g.natlist("urlAlwaysSafe", sorted(up._ALWAYS_SAFE), "urllib.parse._ALWAYS_SAFE of the running interpreter")

    # ---- list_headers: the cookie header name in both branches
    lhs = [n for n in find_class(rtree, "BaseResponse").body
           if isinstance(n, ast.FunctionDef) and n.name == "list_headers"]
    if not lhs:
        raise ExtractError("list_headers not found")
    lh = lhs[-1]  # the earlier ones are @overload stubs
    names = set()
    for node in ast.walk(lh):
        if isinstance(node, ast.Tuple) and len(node.elts) == 2 and isinstance(node.elts[0], ast.Constant):
            nm = node.elts[0].value
            names.add(nm.decode("latin-1") if isinstance(nm, bytes) else nm)
    if len(names) != 1:
        raise ExtractError("list_headers: expected one cookie header name, got %s" % sorted(names))
    g.natlist("setCookieName", cps(names.pop()), "header name of the cookie lines in list_headers (both branches)")

    # ---- RedirectResponse (both interfaces)
    for iface in ("wsgi", "asgi"):
        t2 = parse(repo, "baize/%s/responses.py" % iface)
        init = find_func(find_class(t2, "RedirectResponse"), "__init__")
        name = None
        escaped = False
        for node in ast.walk(init):
            if isinstance(node, ast.Assign) and isinstance(node.targets[0], ast.Subscript) \
                    and ast.unparse(node.targets[0].value) == "self.headers":
                name = const(node.targets[0].slice, str)
                val = node.value
                escaped = (isinstance(val, ast.Call) and isinstance(val.func, ast.Name)
                           and val.func.id == "iri_to_uri")
        if name is None:
            raise ExtractError("%s RedirectResponse: self.headers[<literal>] = ... not found" % iface)
        g.natlist("redirectHeader_" + iface, cps(name), doc("header set by the %s RedirectResponse: %r" % (iface, name)))
        g.bool("redirectEscapes_" + iface, escaped, "the value is iri_to_uri(...) and stored through self.headers[...]")
        call = find_func(find_class(t2, "Response"), "__call__")
        cl = None
        for node in ast.walk(call):
            if isinstance(node, ast.Assign) and isinstance(node.targets[0], ast.Subscript) \
                    and ast.unparse(node.targets[0].value) == "self.headers":
                cl = (const(node.targets[0].slice, str), const(node.value, str))
        if cl is None:
            raise ExtractError("%s Response.__call__: self.headers[...] = <literal> not found" % iface)
        g.natlist("emptyBodyHeader_" + iface, cps(cl[0]), doc("header set by the %s Response.__call__: %r" % (iface, cl[0])))
        g.natlist("emptyBodyValue_" + iface, cps(cl[1]), doc("its value: %r" % cl[1]))
    return g


GENERATORS = [gen_headers]
