"""C20: data of the middleware relay (both interfaces), of the folding Headers mapping and of the status line table"""
import ast

from tools.extract import ExtractError, Gen, const, cps, find_assign, find_class, find_func, lean_natlist, parse


def _int_expr(node):
    """value of a constant integer expression built from literals, * and +"""
    if isinstance(node, ast.Constant) and isinstance(node.value, int):
        return node.value
    if isinstance(node, ast.BinOp) and isinstance(node.op, (ast.Mult, ast.Add)):
        a, b = _int_expr(node.left), _int_expr(node.right)
        return a * b if isinstance(node.op, ast.Mult) else a + b
    raise ExtractError("not a constant integer expression: %s" % ast.dump(node)[:80])


def _fold_separator(repo):
    """Headers.__init__: `store[key] = f"{store[key]}<sep>{value}"` and `key = key.lower()`"""
    init = find_func(find_class(parse(repo, "baize/datastructures.py"), "Headers"), "__init__")
    sep = None
    lowered = False
    for node in ast.walk(init):
        if isinstance(node, ast.JoinedStr):
            v = node.values
            if (len(v) == 3 and isinstance(v[0], ast.FormattedValue) and isinstance(v[1], ast.Constant)
                    and isinstance(v[2], ast.FormattedValue) and ast.unparse(v[0].value) == "store[key]"
                    and ast.unparse(v[2].value) == "value"):
                sep = v[1].value
        if isinstance(node, ast.Assign) and ast.unparse(node) == "key = key.lower()":
            lowered = True
    if sep is None:
        raise ExtractError('Headers.__init__: f"{store[key]}<sep>{value}" not found')
    if not lowered:
        raise ExtractError("Headers.__init__: `key = key.lower()` not found")
    return sep


def _status_parse(fn):
    """`status_code = int(status.split(<sep>)[<idx>])` inside the capturing start_response"""
    for node in ast.walk(fn):
        if (isinstance(node, ast.Assign) and len(node.targets) == 1 and isinstance(node.targets[0], ast.Name)
                and node.targets[0].id == "status_code" and isinstance(node.value, ast.Call)
                and isinstance(node.value.func, ast.Name) and node.value.func.id == "int"
                and len(node.value.args) == 1 and isinstance(node.value.args[0], ast.Subscript)):
            sub = node.value.args[0]
            call = sub.value
            if (isinstance(call, ast.Call) and isinstance(call.func, ast.Attribute) and call.func.attr == "split"
                    and isinstance(call.func.value, ast.Name) and call.func.value.id == "status"
                    and len(call.args) == 1):
                sep = const(call.args[0], str)
                if len(sep) != 1:
                    raise ExtractError("status.split(%r): the model is written for a one-character separator" % sep)
                return ord(sep), const(sub.slice, int)
    raise ExtractError("wsgi from_app: `status_code = int(status.split(<sep>)[<i>])` not found")


def _default_status(fn):
    for st in fn.body:
        if (isinstance(st, ast.Assign) and len(st.targets) == 1 and isinstance(st.targets[0], ast.Name)
                and st.targets[0].id == "status_code"):
            return const(st.value, int)
    raise ExtractError("from_app: initial `status_code = <int>` not found")


def _relayed_types(fn):
    """the message types the ASGI capture `send` reacts to, in source order"""
    out = []
    for node in ast.walk(fn):
        if (isinstance(node, ast.Compare) and len(node.ops) == 1 and isinstance(node.ops[0], ast.Eq)
                and ast.unparse(node.left) in ("message['type']", 'message["type"]')):
            out.append(const(node.comparators[0], str))
    if not out:
        raise ExtractError("asgi from_app: no `message['type'] == <literal>` tests found")
    return out


def _reread_size(cls):
    fn = find_func(cls, "__anext__")
    for node in ast.walk(fn):
        if isinstance(node, ast.Call) and any(ast.unparse(a) == "self._buffer.read" for a in node.args):
            idx = [ast.unparse(a) for a in node.args].index("self._buffer.read")
            if idx + 1 < len(node.args):
                return _int_expr(node.args[idx + 1])
        if isinstance(node, ast.Call) and ast.unparse(node.func) == "self._buffer.read" and node.args:
            return _int_expr(node.args[0])
    raise ExtractError("CachedStream.__anext__: size handed to self._buffer.read not found")


def _status_table(repo):
    """StatusStringMapping: fallback f"{status}<suffix>" from the source; the HTTPStatus table itself is taken
    from the running interpreter (trusted, recorded), rendered by the expression shape found in the source"""
    node = find_assign(parse(repo, "baize/wsgi/responses.py"), "StatusStringMapping")
    if not (isinstance(node, ast.Call) and len(node.args) == 2 and isinstance(node.args[0], ast.Lambda)
            and isinstance(node.args[1], ast.DictComp)):
        raise ExtractError("StatusStringMapping is not defaultdict(lambda ..., {dict comprehension})")
    lam = node.args[0].body
    if not (isinstance(lam, ast.JoinedStr) and len(lam.values) == 2 and isinstance(lam.values[0], ast.FormattedValue)
            and isinstance(lam.values[1], ast.Constant) and ast.unparse(lam.values[0].value) == "status"):
        raise ExtractError('StatusStringMapping fallback is not f"{status}<suffix>"')
    suffix = lam.values[1].value
    comp = node.args[1]
    if not (ast.unparse(comp.key) == "int(status)" and ast.unparse(comp.value) in
            ("f'{status} {status.phrase}'", 'f"{status} {status.phrase}"')
            and len(comp.generators) == 1 and ast.unparse(comp.generators[0].iter) == "HTTPStatus"):
        raise ExtractError("StatusStringMapping table is not {int(status): f'{status} {status.phrase}' for status in HTTPStatus}")
    from http import HTTPStatus

    table = sorted({int(status): f"{status} {status.phrase}" for status in HTTPStatus}.items())
    return suffix, table


def gen_middleware(repo):
    """C20: folding separator, status parsing expression, default status, relayed message types, re-read size,
    status line table"""
    g = Gen("Middleware", "baize/datastructures.py: Headers; baize/wsgi/middleware.py, baize/asgi/middleware.py: "
                          "NextResponse.from_app, CachedStream; baize/wsgi/responses.py: StatusStringMapping")
    sep = _fold_separator(repo)
    g.natlist("foldSep", cps(sep), "Headers.__init__ joins the values of a repeated name with %r" % sep)

    wtree = parse(repo, "baize/wsgi/middleware.py")
    wfrom = find_func(find_class(wtree, "NextResponse"), "from_app")
    ch, idx = _status_parse(wfrom)
    g.nat("statusSplitChar", ch, "status.split(%r)" % chr(ch))
    g.nat("statusSplitIndex", idx, "...[%d] is handed to int()" % idx)
    g.nat("wsgiDefaultStatus", _default_status(wfrom), "status of a WSGI application that never called start_response")

    atree = parse(repo, "baize/asgi/middleware.py")
    afrom = find_func(find_class(atree, "NextResponse"), "from_app")
    g.nat("asgiDefaultStatus", _default_status(afrom), "status of an ASGI application that never sent a start event")
    types = _relayed_types(afrom)
    g.add("relayedTypes", "List String", "[" + ", ".join('"%s"' % t for t in types) + "]",
          "message types the capturing send() reacts to %r" % (types,), types)
    g.nat("rereadSize", _reread_size(find_class(atree, "CachedStream")),
          "CachedStream.__anext__ re-reads the spooled buffer in pieces of this size")

    suffix, table = _status_table(repo)
    g.natlist("unknownSuffix", cps(suffix), 'StatusStringMapping fallback f"{status}%s"' % suffix)
    g.add("statusTable", "List (Nat × List Nat)",
          "[" + ",\n  ".join("(%d, %s)" % (c, lean_natlist(cps(t))) for c, t in table) + "]",
          "StatusStringMapping over http.HTTPStatus of the running interpreter (%d entries)" % len(table), table)
    return g


GENERATORS = [gen_middleware]
