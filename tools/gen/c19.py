"""C19: data of build_bytes_from_sse and of SendEventResponse (both interfaces)"""
import ast

from tools.extract import ExtractError, Gen, const, cps, find_assign, find_class, find_func, lean_natlist, parse


def _pairs(values):
    return "[" + ", ".join("(%s, %s)" % (lean_natlist(cps(k)), lean_natlist(cps(v))) for k, v in values) + "]"


def _ping_and_headers(repo, rel, handler_exc):
    """the bytes yielded in the time-out handler of SendEventResponse.render_stream, the
    class attribute required_headers, and the `headers[K] += f"<lit>{charset}"` statement of __init__"""
    tree = parse(repo, rel)
    cls = find_class(tree, "SendEventResponse")
    fn = find_func(cls, "render_stream")
    pings = []
    for node in ast.walk(fn):
        if isinstance(node, ast.ExceptHandler) and node.type is not None:
            name = ast.unparse(node.type)
            if name.split(".")[-1] in handler_exc:
                for st in node.body:
                    if isinstance(st, ast.Expr) and isinstance(st.value, ast.Yield) and st.value.value is not None:
                        pings.append(const(st.value.value, bytes))
    if len(pings) != 1:
        raise ExtractError("%s: expected exactly one `yield <bytes>` in the time-out handler, found %d"
                           % (rel, len(pings)))
    req = None
    for st in cls.body:
        if isinstance(st, ast.Assign) and any(isinstance(t, ast.Name) and t.id == "required_headers" for t in st.targets):
            req = st.value
    if not isinstance(req, ast.Dict):
        raise ExtractError("%s: required_headers is not a dict literal" % rel)
    headers = [(const(k, str), const(v, str)) for k, v in zip(req.keys, req.values)]
    init = find_func(cls, "__init__")
    suffix = None
    for node in ast.walk(init):
        if isinstance(node, ast.AugAssign) and isinstance(node.op, ast.Add) and isinstance(node.target, ast.Subscript):
            key = const(node.target.slice, str)
            v = node.value
            if (isinstance(v, ast.JoinedStr) and len(v.values) == 2 and isinstance(v.values[0], ast.Constant)
                    and isinstance(v.values[1], ast.FormattedValue) and isinstance(v.values[1].value, ast.Name)
                    and v.values[1].value.id == "charset"):
                suffix = (key, v.values[0].value)
    if suffix is None:
        raise ExtractError('%s: `headers[<key>] += f"<literal>{charset}"` not found in __init__' % rel)
    return pings[0], headers, suffix


def _splitter(tree, fn):
    """which line splitter feeds the data lines: 'str.splitlines' or 're.split:<pattern>'"""
    comp = None
    for node in ast.walk(fn):
        if isinstance(node, (ast.GeneratorExp, ast.ListComp)):
            for v in ast.walk(node.elt):
                if isinstance(v, ast.JoinedStr):
                    comp = node
    if comp is None or len(comp.generators) != 1:
        raise ExtractError("build_bytes_from_sse: comprehension producing the data lines not found")
    it = comp.generators[0].iter
    if not isinstance(it, ast.Call):
        raise ExtractError("build_bytes_from_sse: data lines do not come from a call")
    if isinstance(it.func, ast.Attribute):
        if it.func.attr == "splitlines" and not it.args and not it.keywords:
            return "str.splitlines"
        raise ExtractError("build_bytes_from_sse: unknown splitter method .%s" % it.func.attr)
    if not isinstance(it.func, ast.Name):
        raise ExtractError("build_bytes_from_sse: unknown splitter expression")
    helper = find_func(tree, it.func.id)
    for node in ast.walk(helper):
        if (isinstance(node, ast.Call) and isinstance(node.func, ast.Attribute) and node.func.attr == "split"
                and isinstance(node.func.value, ast.Name)):
            rx = find_assign(tree, node.func.value.id)
            if (isinstance(rx, ast.Call) and ast.unparse(rx.func) in ("re.compile", "compile") and rx.args):
                return "re.split:" + const(rx.args[0], str)
    raise ExtractError("%s: no <compiled regex>.split(...) found" % it.func.id)


def gen_sse(repo):
    """C19: field/data line formats, joiner, terminator, splitter, ping bytes and required headers"""
    g = Gen("SSE", "baize/responses.py: build_bytes_from_sse; baize/{wsgi,asgi}/responses.py: SendEventResponse; "
                   "baize/typing.py: ServerSentEvent")
    tree = parse(repo, "baize/responses.py")
    fn = find_func(tree, "build_bytes_from_sse")
    field_sep = None
    data_prefix = None
    for node in ast.walk(fn):
        if not isinstance(node, ast.JoinedStr):
            continue
        v = node.values
        if (len(v) == 3 and isinstance(v[0], ast.FormattedValue) and isinstance(v[1], ast.Constant)
                and isinstance(v[2], ast.FormattedValue)):
            if any(x.conversion != -1 or x.format_spec is not None for x in (v[0], v[2])):
                raise ExtractError("build_bytes_from_sse: field f-string uses a conversion / format spec")
            field_sep = v[1].value
        elif len(v) == 2 and isinstance(v[0], ast.Constant) and isinstance(v[1], ast.FormattedValue):
            if v[1].conversion != -1 or v[1].format_spec is not None:
                raise ExtractError("build_bytes_from_sse: data f-string uses a conversion / format spec")
            data_prefix = v[0].value
    if field_sep is None:
        raise ExtractError('build_bytes_from_sse: f"{k}<sep>{v}" not found')
    if data_prefix is None:
        raise ExtractError('build_bytes_from_sse: f"<prefix>{line}" not found')
    joiner = None
    terminator = None
    for node in ast.walk(fn):
        if (isinstance(node, ast.Call) and isinstance(node.func, ast.Attribute) and node.func.attr == "join"
                and isinstance(node.func.value, ast.Constant) and isinstance(node.func.value.value, bytes)):
            joiner = node.func.value.value
            # chain(<fields>, <data>, <terminator tuple>): the order of the three is part of the shape
            if (len(node.args) == 1 and isinstance(node.args[0], ast.Call)
                    and ast.unparse(node.args[0].func).split(".")[-1] == "chain" and len(node.args[0].args) == 3):
                a, b, c = node.args[0].args
                if not (isinstance(b, ast.Name) and b.id == "data"):
                    raise ExtractError("build_bytes_from_sse: second argument of chain(...) is not `data`")
                if any(isinstance(x, ast.Name) and x.id == "data" for x in ast.walk(a)):
                    raise ExtractError("build_bytes_from_sse: first argument of chain(...) mentions `data`")
                if isinstance(c, ast.Tuple):
                    terminator = [const(e, bytes) for e in c.elts]
    if joiner is None:
        raise ExtractError('build_bytes_from_sse: b"<joiner>".join(...) not found')
    if terminator is None:
        raise ExtractError("build_bytes_from_sse: chain(<fields>, data, (<terminator tuple>)) not found")
    g.natlist("fieldSep", cps(field_sep), 'separator of f"{k}%s{v}"' % field_sep)
    g.natlist("dataPrefix", cps(data_prefix), "prefix of every data line (%r)" % data_prefix)
    g.natlist("joiner", cps(joiner), "bytes joining the lines (%r)" % joiner)
    g.add("terminator", "List (List Nat)", "[" + ", ".join(lean_natlist(cps(t)) for t in terminator) + "]",
          "items chained after the data lines %r" % (terminator,), terminator)
    g.string("splitter", _splitter(tree, fn), "line splitter applied to `data`")

    td = find_assign(parse(repo, "baize/typing.py"), "ServerSentEvent")
    if not (isinstance(td, ast.Call) and len(td.args) >= 2 and isinstance(td.args[1], ast.Dict)):
        raise ExtractError("typing.ServerSentEvent is not TypedDict(name, {...})")
    keys = [const(k, str) for k in td.args[1].keys]
    g.add("eventKeys", "List (List Nat)", "[" + ", ".join(lean_natlist(cps(k)) for k in keys) + "]",
          "keys of typing.ServerSentEvent %r" % (keys,), keys)

    wping, wreq, wsuf = _ping_and_headers(repo, "baize/wsgi/responses.py", ("Empty",))
    aping, areq, asuf = _ping_and_headers(repo, "baize/asgi/responses.py", ("TimeoutError",))
    g.natlist("wsgiPing", cps(wping), "WSGI keep-alive chunk %r" % wping)
    g.natlist("asgiPing", cps(aping), "ASGI keep-alive chunk %r" % aping)
    g.add("wsgiRequiredHeaders", "List (List Nat × List Nat)", _pairs(wreq),
          "WSGI SendEventResponse.required_headers %r" % (wreq,), wreq)
    g.add("asgiRequiredHeaders", "List (List Nat × List Nat)", _pairs(areq),
          "ASGI SendEventResponse.required_headers %r" % (areq,), areq)
    g.add("wsgiCharsetSuffix", "List Nat × List Nat", "(%s, %s)" % (lean_natlist(cps(wsuf[0])), lean_natlist(cps(wsuf[1]))),
          "WSGI: headers[%r] += %r + charset" % wsuf, wsuf)
    g.add("asgiCharsetSuffix", "List Nat × List Nat", "(%s, %s)" % (lean_natlist(cps(asuf[0])), lean_natlist(cps(asuf[1]))),
          "ASGI: headers[%r] += %r + charset" % asuf, asuf)
    return g


GENERATORS = [gen_sse]
