"""C06: shape data of the streaming responses (queue sizes, order of the closing statements, ping bytes)"""
import ast

from tools.extract import ExtractError, Gen, const, cps, find_class, find_func, parse


def _calls(node):
    """attribute names of the method calls inside `node`, in source order (`get`, `cancel`, ...);
    receiver and local variable names are dropped so that a renaming does not alarm"""
    out = []
    for sub in ast.walk(node):
        if isinstance(sub, ast.Call):
            f = sub.func
            if isinstance(f, ast.Attribute):
                out.append((sub.lineno, sub.col_offset, f.attr))
            elif isinstance(f, ast.Name) and f.id not in ("hasattr", "iter", "next"):
                out.append((sub.lineno, sub.col_offset, f.id))
    return [c for _, _, c in sorted(out)]


def _stmt_tags(stmts):
    """a small, stable description of a statement list: the method calls made (by attribute name),
    `flag` for `<name> = True`, `while[...]` / `if[...]` for nesting.  This is the shape the
    model's program counters were written for."""
    tags = []
    for st in stmts:
        if isinstance(st, ast.Assign):
            if isinstance(st.value, ast.Constant) and st.value.value is True:
                tags.append("flag")
            else:
                tags.extend(_calls(st.value))
        elif isinstance(st, ast.While):
            tags.append("while(%s)[%s]" % (",".join(_calls(st.test)), ";".join(_stmt_tags(st.body))))
        elif isinstance(st, ast.If):
            inner = _stmt_tags(st.body) + _stmt_tags(st.orelse)
            tags.append("if(%s)[%s]" % (",".join(_calls(st.test)), ";".join(inner)))
        elif isinstance(st, ast.Expr):
            if isinstance(st.value, (ast.Yield, ast.YieldFrom)):
                tags.append("yield")
            else:
                tags.extend(_calls(st.value))
        elif isinstance(st, ast.Raise):
            tags.append("raise")
        elif isinstance(st, ast.Break):
            tags.append("break")
        elif isinstance(st, ast.Try):
            tags.append("try[%s]finally[%s]" % (";".join(_stmt_tags(st.body)), ";".join(_stmt_tags(st.finalbody))))
        elif isinstance(st, ast.Return):
            tags.append("return")
        elif isinstance(st, (ast.AsyncFor, ast.For)):
            tags.append("for[%s]" % ";".join(_stmt_tags(st.body)))
        elif isinstance(st, ast.Pass):
            pass
        else:
            tags.append(type(st).__name__)
    return [t for t in tags if t not in ("if()[]",)]


def _outer_try(fn):
    """the try/finally of the response generator itself (not the one inside the nested `push`)"""
    for st in fn.body:
        if isinstance(st, ast.Try) and st.finalbody:
            return st
    raise ExtractError("%s: top-level try/finally not found" % fn.name)


def _queue_maxsize(fn):
    for node in ast.walk(fn):
        if isinstance(node, ast.Call) and isinstance(node.func, ast.Attribute) and node.func.attr == "Queue":
            for kw in node.keywords:
                if kw.arg == "maxsize":
                    return const(kw.value, int)
            if node.args:
                return const(node.args[0], int)
            return 0
    raise ExtractError("%s: Queue(...) construction not found" % fn.name)


def _ping(fn):
    """bytes literal yielded in the timeout handler"""
    tr = _outer_try(fn)
    for node in ast.walk(tr):
        if isinstance(node, ast.ExceptHandler):
            for sub in ast.walk(node):
                if isinstance(sub, ast.Yield) and isinstance(sub.value, ast.Constant) and isinstance(sub.value.value, bytes):
                    return sub.value.value
    raise ExtractError("%s: ping literal not found" % fn.name)


def _push(fn):
    for node in fn.body:
        if isinstance(node, (ast.FunctionDef, ast.AsyncFunctionDef)) and node.name == "push":
            for st in node.body:
                if isinstance(st, ast.Try):
                    return st
    raise ExtractError("%s: nested push() with try/finally not found" % fn.name)


def gen_stream(repo):
    """C06: queue sizes, closing order and ping bytes of the streaming responses"""
    g = Gen("Stream", "baize/wsgi/responses.py, baize/asgi/responses.py: streaming responses")
    for side in ("wsgi", "asgi"):
        tree = parse(repo, "baize/%s/responses.py" % side)
        fn = find_func(find_class(tree, "SendEventResponse"), "render_stream")
        g.nat(side + "QueueMaxsize", _queue_maxsize(fn), "maxsize of the relay queue (%s SendEventResponse)" % side)
        g.natlist(side + "Ping", cps(_ping(fn)), "bytes yielded when the ping timer fires (%s)" % side)
        tr = _outer_try(fn)
        g.add(side + "ConsumerFinally", "List String",
              "[" + ", ".join('"%s"' % t.replace("\\", "\\\\").replace('"', '\\"') for t in _stmt_tags(tr.finalbody)) + "]",
              "statements of the consumer's finally block, in order (%s)" % side, _stmt_tags(tr.finalbody))
        ptry = _push(fn)
        g.add(side + "RelayFinally", "List String",
              "[" + ", ".join('"%s"' % t.replace("\\", "\\\\").replace('"', '\\"') for t in _stmt_tags(ptry.finalbody)) + "]",
              "statements of the relay's finally block, in order (%s)" % side, _stmt_tags(ptry.finalbody))
    tree = parse(repo, "baize/asgi/responses.py")
    call = find_func(find_class(tree, "StreamingResponse"), "__call__")
    tr = None
    for st in call.body:
        if isinstance(st, ast.Try):
            tr = st
    if tr is None:
        raise ExtractError("asgi StreamingResponse.__call__: try statement not found")
    tags = _stmt_tags(tr.finalbody)
    g.add("asgiCallFinally", "List String",
          "[" + ", ".join('"%s"' % t.replace("\\", "\\\\").replace('"', '\\"') for t in tags) + "]",
          "statements of the finally block of the ASGI streaming loop, in order", tags)
    rs = find_func(find_class(tree, "StreamResponse"), "render_stream")
    tr = _outer_try(rs)
    tags = _stmt_tags(tr.finalbody)
    g.add("asgiStreamFinally", "List String",
          "[" + ", ".join('"%s"' % t.replace("\\", "\\\\").replace('"', '\\"') for t in tags) + "]",
          "statements of the finally block of the ASGI StreamResponse.render_stream", tags)
    return g


GENERATORS = [gen_stream]
