"""C12: exception flow of the anchored functions — what is caught where, generated from the source

For every anchored function (table ANCHORS) the generator walks the statement tree with `ast`, keeping the stack
of enclosing `try` statements, and records every *site*: a call of a standard-library function that can raise
on client-controlled data (`int`, `.decode(cs)`, `.encode("latin-1")`, `json.loads`, `parsedate_to_datetime`,
`.timestamp()`, `urlsplit`, `parse_qsl`, `os.stat`, `Decimal`, `uuid.UUID`, `date`, `quote`, `re.compile`,
`_unquote`, a two-target unpacking of `split(sep, 1)`, a subscript of a dict literal / of the environ, `x[-1]`),
every call of another anchored function (`call:<name>`), and every explicit `raise X(...)`.  Per site it emits
the *handler chain*: innermost `try` first, each level the list of its `except` clauses in source order as
`(classes, action, status, names)` with action one of

    "value"    the handler swallows the error (returns a value / falls through / pass)
    "raise"    the handler raises `names[0]` (an HTTPException subclass) with HTTP status `status`
    "reraise"  bare `raise`
    "errno"    `if exc.errno == errno.X [or in (...)]: <value>` followed by `raise`  (names = the errno names)

Lean names:  <function id>_<kind>_<n> : Chain                     n-th site of that kind in the function
             <function id>_raise_<n> : class × status × message × Chain
                                                                 n-th explicit raise outside handler bodies (the
                                                                 final raise of a handler body is that handler's
                                                                 action, not a site)
             allSites : List String                              every site, `<name>=<kind>`, in source order per
                                                                 function — pinned by Props/C12 `source_pinned`
plus `ancestors` (the subclass relation of every exception class mentioned, from the running interpreter for
built-in / stdlib classes and from baize/exceptions.py for baize's own), `httpStatus` (class -> default status
code, from baize/exceptions.py) and `raisedStatuses` (every status code given to a raised exception).
A handler whose shape is not one of the four above is an extraction error (the proof leg breaks).
"""
import ast
import builtins
import re

from tools.extract import ExtractError, Gen, find_class, find_func, lean_str, parse

# function id -> (file, class or None, function)
ANCHORS = [
    ("mixin_accepted_types", "baize/requests.py", "MoreInfoFromHeaderMixin", "accepted_types"),
    ("mixin_accepts", "baize/requests.py", "MoreInfoFromHeaderMixin", "accepts"),
    ("mixin_content_type", "baize/requests.py", "MoreInfoFromHeaderMixin", "content_type"),
    ("mixin_content_length", "baize/requests.py", "MoreInfoFromHeaderMixin", "content_length"),
    ("mixin_cookies", "baize/requests.py", "MoreInfoFromHeaderMixin", "cookies"),
    ("mixin_date", "baize/requests.py", "MoreInfoFromHeaderMixin", "date"),
    ("mixin_referrer", "baize/requests.py", "MoreInfoFromHeaderMixin", "referrer"),
    ("utils_parse_header", "baize/utils.py", None, "parse_header"),
    ("utils_parseparam", "baize/utils.py", None, "_parseparam"),
    ("ds_MediaType_init", "baize/datastructures.py", "MediaType", "__init__"),
    ("ds_MediaType_match", "baize/datastructures.py", "MediaType", "match"),
    ("ds_ContentType_init", "baize/datastructures.py", "ContentType", "__init__"),
    ("ds_URL_init", "baize/datastructures.py", "URL", "__init__"),
    ("ds_URL_build_url", "baize/datastructures.py", "URL", "_build_url"),
    ("ds_URL_replace", "baize/datastructures.py", "URL", "replace"),
    ("ds_QueryParams_init", "baize/datastructures.py", "QueryParams", "__init__"),
    ("ds_Headers_init", "baize/datastructures.py", "Headers", "__init__"),
    ("mp_decoder_init", "baize/multipart.py", "MultipartDecoder", "__init__"),
    ("mp_next_event", "baize/multipart.py", "MultipartDecoder", "next_event"),
    ("mp_parse_headers", "baize/multipart.py", "MultipartDecoder", "_parse_headers"),
    ("mp_safe_decode", "baize/multipart.py", None, "safe_decode"),
    ("mph_parse_stream", "baize/multipart_helper.py", None, "parse_stream"),
    ("mph_parse_async_stream", "baize/multipart_helper.py", None, "parse_async_stream"),
    ("resp_parse_range", "baize/responses.py", "FileResponseMixin", "parse_range"),
    ("resp_judge_if_range", "baize/responses.py", "FileResponseMixin", "judge_if_range"),
    ("resp_iri_to_uri", "baize/responses.py", None, "iri_to_uri"),
    ("routing_int_to_python", "baize/routing.py", "IntegerConvertor", "to_python"),
    ("routing_decimal_to_python", "baize/routing.py", "DecimalConvertor", "to_python"),
    ("routing_uuid_to_python", "baize/routing.py", "UUIDConvertor", "to_python"),
    ("routing_date_to_python", "baize/routing.py", "DateConvertor", "to_python"),
    ("routing_matches", "baize/routing.py", "Route", "matches"),
    ("routing_router_search", "baize/routing.py", "BaseRouter", "search"),
    ("routing_subpaths_search", "baize/routing.py", "BaseSubpaths", "search"),
    ("routing_hosts_search", "baize/routing.py", "BaseHosts", "search"),
    ("static_ensure_absolute_path", "baize/staticfiles.py", "BaseFiles", "ensure_absolute_path"),
    ("static_check_path_is_file", "baize/staticfiles.py", "BaseFiles", "check_path_is_file"),
    ("static_if_none_match", "baize/staticfiles.py", "BaseFiles", "if_none_match"),
    ("static_if_modified_since", "baize/staticfiles.py", "BaseFiles", "if_modified_since"),
]
for _i in ("wsgi", "asgi"):
    ANCHORS += [
        (_i + "_conn_client", "baize/%s/requests.py" % _i, "HTTPConnection", "client"),
        (_i + "_conn_url", "baize/%s/requests.py" % _i, "HTTPConnection", "url"),
        (_i + "_conn_query_params", "baize/%s/requests.py" % _i, "HTTPConnection", "query_params"),
        (_i + "_conn_headers", "baize/%s/requests.py" % _i, "HTTPConnection", "headers"),
        (_i + "_req_stream", "baize/%s/requests.py" % _i, "Request", "stream"),
        (_i + "_req_body", "baize/%s/requests.py" % _i, "Request", "body"),
        (_i + "_req_json", "baize/%s/requests.py" % _i, "Request", "json"),
        (_i + "_req_parse_multipart", "baize/%s/requests.py" % _i, "Request", "_parse_multipart"),
        (_i + "_req_form", "baize/%s/requests.py" % _i, "Request", "form"),
        (_i + "_file_call", "baize/%s/responses.py" % _i, "FileResponse", "__call__"),
        (_i + "_redirect_init", "baize/%s/responses.py" % _i, "RedirectResponse", "__init__"),
        (_i + "_router_call", "baize/%s/routing.py" % _i, "Router", "__call__"),
        (_i + "_subpaths_call", "baize/%s/routing.py" % _i, "Subpaths", "__call__"),
        (_i + "_hosts_call", "baize/%s/routing.py" % _i, "Hosts", "__call__"),
        (_i + "_files_file_response", "baize/%s/staticfiles.py" % _i, "Files", "file_response"),
        (_i + "_files_call", "baize/%s/staticfiles.py" % _i, "Files", "__call__"),
        (_i + "_pages_call", "baize/%s/staticfiles.py" % _i, "Pages", "__call__"),
        (_i + "_pages_ensure_absolute_path", "baize/%s/staticfiles.py" % _i, "Pages", "ensure_absolute_path"),
    ]
ANCHORS.append(("wsgi_files_request_path", "baize/wsgi/staticfiles.py", "Files", "request_path"))

# plain-name callees: name -> kind
NAME_CALLS = {
    "int": "int", "parsedate_to_datetime": "parsedate", "urlsplit": "urlsplit", "parse_qsl": "parseQsl",
    "Decimal": "decimal", "date": "dateCtor", "quote": "quote", "URL": "call:URL", "QueryParams": "call:QueryParams",
    "safe_decode": "call:safe_decode", "parse_multipart": "call:parse_multipart", "parse_header": "call:parse_header",
    "MediaType": "call:MediaType", "ContentType": "call:ContentType", "Headers": "call:Headers",
    "iri_to_uri": "call:iri_to_uri", "FileResponse": "call:FileResponse", "RedirectResponse": "call:RedirectResponse",
    "MultipartDecoder": "call:MultipartDecoder", "_parseparam": "call:parseparam",
}
# attribute callees: (receiver name or None for any, attribute) -> kind
ATTR_CALLS = {
    ("json", "loads"): "jsonLoads", ("os", "stat"): "osStat", ("uuid", "UUID"): "uuid", ("re", "compile"): "reCompile",
    ("http_cookies", "_unquote"): "cookieUnquote",
    (None, "timestamp"): "timestamp", (None, "to_python"): "call:to_python", (None, "parse_range"): "call:parse_range",
    (None, "check_path_is_file"): "call:check_path_is_file", (None, "if_modified_since"): "call:if_modified_since",
    (None, "if_none_match"): "call:if_none_match", (None, "_parse_headers"): "call:parse_headers",
    (None, "next_event"): "call:next_event", (None, "stream"): "call:stream",
    (None, "_parse_multipart"): "call:req_parse_multipart", (None, "search"): "call:search",
    (None, "matches"): "call:matches", (None, "replace"): None,  # decided below (str.replace vs URL.replace)
    (None, "_build_url"): "call:build_url", (None, "ensure_absolute_path"): "call:ensure_absolute_path",
    (None, "request_path"): "call:request_path", (None, "file_response"): "call:file_response",
    (None, "judge_if_range"): "call:judge_if_range", (None, "match"): "call:MediaType_match",
    (("os", "path"), "abspath"): "osPath", (("os", "path"), "relpath"): "osPath", (("os", "path"), "join"): "osPath",
}
# keyword arguments each standard-library call is declared with (anything else changes what it can raise)
STD_KEYWORDS = {"parseQsl": ["keep_blank_values"], "quote": ["safe"]}
URL_COMPONENTS = {"scheme", "netloc", "path", "query", "fragment", "username", "password", "hostname", "port"}
SELF_ATTRS = {"body": "call:body"}           # `self.body` (a cached property that runs code)
LENIENT_ERRORS = ("replace", "ignore", "surrogateescape", "surrogatepass", "backslashreplace")


def _const_str(node):
    return node.value if isinstance(node, ast.Constant) and isinstance(node.value, str) else None


def _codec_kind(call, verb):
    """classify `.decode(...)` / `.encode(...)` by its literal arguments"""
    enc = None
    errors = None
    if call.args:
        enc = _const_str(call.args[0])
        if enc is None:
            enc = "?"
        if len(call.args) > 1:
            errors = _const_str(call.args[1]) or "?"
    for kw in call.keywords:
        if kw.arg == "encoding":
            enc = _const_str(kw.value) or "?"
        if kw.arg == "errors":
            errors = _const_str(kw.value) or "?"
    if enc is None:
        enc = "utf-8"
    norm = enc.lower().replace("-", "").replace("_", "")
    if verb == "decode":
        if enc == "?":
            return "decodeCharset"
        if norm in ("latin1", "iso88591"):
            return "decodeLatin1"
        if errors in LENIENT_ERRORS:
            return "decodeLenient"
        return "decodeStrict_" + norm
    if enc == "?":
        return "encodeCharset"
    if errors in LENIENT_ERRORS:
        return "encodeLenient"
    return "encode_" + norm


def _exc_names(node):
    if node is None:
        return ["BaseException"]
    elts = node.elts if isinstance(node, ast.Tuple) else [node]
    out = []
    for e in elts:
        if isinstance(e, ast.Name):
            out.append(e.id)
        elif isinstance(e, ast.Attribute):
            out.append(e.attr)          # json.JSONDecodeError -> JSONDecodeError
        else:
            raise ExtractError("unsupported exception class expression %s" % ast.dump(e)[:60])
    return out


class Flow:
    def __init__(self, statuses):
        self.statuses = statuses
        self.sites = []      # (lineno, col, kind, chain)
        self.classes = set()

    # ---- handlers -----------------------------------------------------------------------------------------
    def raise_target(self, node):
        """(class, status) of `raise X(...)` / `raise X`; None for a bare raise"""
        exc = node.exc
        if exc is None:
            return None
        call = exc if isinstance(exc, ast.Call) else None
        f = call.func if call else exc
        name = f.id if isinstance(f, ast.Name) else (f.attr if isinstance(f, ast.Attribute) else None)
        if name is None:
            raise ExtractError("unsupported raise expression %s" % ast.dump(exc)[:60])
        status = self.statuses.get(name, 0)
        if call is not None and name == "HTTPException":
            if call.args and isinstance(call.args[0], ast.Constant) and isinstance(call.args[0].value, int):
                status = call.args[0].value
            for kw in call.keywords:
                if kw.arg == "status_code" and isinstance(kw.value, ast.Constant):
                    status = kw.value.value
        self.classes.add(name)
        return name, status

    def handler(self, h):
        classes = _exc_names(h.type)
        self.classes.update(classes)
        body = [s for s in h.body if not (isinstance(s, ast.Expr) and isinstance(s.value, ast.Constant))]
        last = body[-1] if body else None
        if isinstance(last, ast.Raise):
            tgt = self.raise_target(last)
            if tgt is not None:
                return (classes, "raise", tgt[1], [tgt[0]])
            # bare raise, possibly guarded by an errno test
            if len(body) == 1:
                return (classes, "reraise", 0, [])
            if len(body) == 2 and isinstance(body[0], ast.If) and h.name and not body[0].orelse:
                t = body[0].test
                if (isinstance(t, ast.Compare) and isinstance(t.left, ast.Attribute) and t.left.attr == "errno"
                        and isinstance(t.left.value, ast.Name) and t.left.value.id == h.name and len(t.ops) == 1
                        and isinstance(t.ops[0], (ast.Eq, ast.In))):
                    c = t.comparators[0]
                    elts = c.elts if isinstance(c, (ast.Tuple, ast.List, ast.Set)) else [c]
                    names = []
                    for e in elts:
                        if isinstance(e, ast.Attribute) and isinstance(e.value, ast.Name) and e.value.id == "errno":
                            names.append(e.attr)
                        else:
                            raise ExtractError("unsupported errno operand")
                    inner = body[0].body
                    if inner and isinstance(inner[-1], ast.Return):
                        return (classes, "errno", 0, names)
            raise ExtractError("unsupported handler ending in a bare raise (%s)" % classes)
        for s in body:
            for n in ast.walk(s):
                if isinstance(n, ast.Raise):
                    raise ExtractError("handler for %s raises conditionally" % classes)
        return (classes, "value", 0, [])

    # ---- sites --------------------------------------------------------------------------------------------
    def add(self, node, kind, chain):
        self.sites.append((node.lineno, node.col_offset, kind, [list(l) for l in chain]))

    def expr(self, node, chain):
        for n in ast.walk(node):
            if isinstance(n, ast.Call):
                f = n.func
                kind = None
                if isinstance(f, ast.Name):
                    kind = NAME_CALLS.get(f.id)
                elif isinstance(f, ast.Attribute):
                    recv = f.value
                    rname = recv.id if isinstance(recv, ast.Name) else None
                    if isinstance(recv, ast.Attribute) and isinstance(recv.value, ast.Name):
                        rname = (recv.value.id, recv.attr)
                    if f.attr in ("decode", "encode"):
                        kind = _codec_kind(n, f.attr)
                    elif (rname, f.attr) in ATTR_CALLS:
                        kind = ATTR_CALLS[(rname, f.attr)]
                    elif (None, f.attr) in ATTR_CALLS:
                        kind = ATTR_CALLS[(None, f.attr)]
                        if f.attr == "replace":
                            # URL.replace takes keywords only; str.replace takes positional arguments
                            kws = {kw.arg for kw in n.keywords}
                            kind = "call:URL_replace" if (kws and not n.args and kws <= URL_COMPONENTS) else None
                if kind and not kind.startswith("call:"):
                    # a standard-library call: its declared raise-set belongs to THIS argument shape.  Keywords
                    # other than the ones the declaration was written for (parse_qsl(max_num_fields=...),
                    # int(x, base=...)) make it another site kind, which the pin and the model do not know
                    kws = sorted(kw.arg or "**" for kw in n.keywords)
                    if kws != STD_KEYWORDS.get(kind, []) and not kind.startswith(("decode", "encode")):
                        kind = "%s[%s]" % (kind, ",".join(kws))
                if kind:
                    self.add(n, kind, chain)
            elif isinstance(n, ast.Attribute) and isinstance(n.value, ast.Name) and n.value.id == "self" \
                    and n.attr in SELF_ATTRS and isinstance(n.ctx, ast.Load):
                self.add(n, SELF_ATTRS[n.attr], chain)
            elif isinstance(n, ast.Subscript) and isinstance(n.ctx, ast.Load):
                if isinstance(n.value, ast.Dict):
                    self.add(n, "dictLookup", chain)
                elif isinstance(n.value, ast.Name) and n.value.id in ("self", "environ", "scope") \
                        and _const_str(n.slice) is not None:
                    self.add(n, "envItem:" + _const_str(n.slice), chain)
                elif isinstance(n.slice, ast.UnaryOp) and isinstance(n.slice.op, ast.USub):
                    self.add(n, "index", chain)

    def stmts(self, body, chain, handler_body=False):
        for i, s in enumerate(body):
            if handler_body and i == len(body) - 1 and isinstance(s, ast.Raise):
                if s.exc is not None:
                    self.expr(s.exc, chain)
                continue    # the handler's own action, part of the chain of the sites it protects
            self.stmt(s, chain)

    def stmt(self, s, chain):
        if isinstance(s, ast.Try):
            level = [self.handler(h) for h in s.handlers]
            self.stmts(s.body, [level] + chain)
            for h in s.handlers:
                self.stmts(h.body, chain, handler_body=True)
            self.stmts(s.orelse, chain)
            self.stmts(s.finalbody, chain)
        elif isinstance(s, (ast.If, ast.While)):
            self.expr(s.test, chain)
            self.stmts(s.body, chain)
            self.stmts(s.orelse, chain)
        elif isinstance(s, (ast.For, ast.AsyncFor)):
            self.expr(s.iter, chain)
            self.stmts(s.body, chain)
            self.stmts(s.orelse, chain)
        elif isinstance(s, (ast.With, ast.AsyncWith)):
            for item in s.items:
                self.expr(item.context_expr, chain)
            self.stmts(s.body, chain)
        elif isinstance(s, (ast.FunctionDef, ast.AsyncFunctionDef, ast.ClassDef)):
            pass
        elif isinstance(s, ast.Raise):
            if s.exc is not None:
                self.expr(s.exc, chain)
                tgt = self.raise_target(s)
                msg = ""
                if isinstance(s.exc, ast.Call) and s.exc.args and _const_str(s.exc.args[0]) is not None:
                    msg = _const_str(s.exc.args[0])
                self.add(s, "raise:%s:%d" % tgt, chain)
                self.sites[-1] = self.sites[-1] + ((tgt[0], tgt[1], msg),)
        else:
            # an assignment whose targets are a 2-tuple and whose value is split(sep, 1): unpacking can fail
            if isinstance(s, ast.Assign) and len(s.targets) == 1 and isinstance(s.targets[0], ast.Tuple) \
                    and isinstance(s.value, ast.Call) and isinstance(s.value.func, ast.Attribute) \
                    and s.value.func.attr in ("split", "rsplit"):
                self.add(s, "unpack%d" % len(s.targets[0].elts), chain)
            self.expr(s, chain)


def _statuses(repo):
    """class -> default status of baize's HTTPException family, and class -> base"""
    tree = parse(repo, "baize/exceptions.py")
    status = {}
    bases = {}
    for node in tree.body:
        if not isinstance(node, ast.ClassDef):
            continue
        base = None
        for b in node.bases:
            if isinstance(b, ast.Name):
                base = b.id
            elif isinstance(b, ast.Subscript) and isinstance(b.value, ast.Name):
                base = b.value.id
            if base and base != "Generic":
                break
        bases[node.name] = base
        init = [n for n in node.body if isinstance(n, ast.FunctionDef) and n.name == "__init__"]
        if node.name == "HTTPException":
            names = [a.arg for a in init[0].args.args]
            d = init[0].args.defaults
            idx = names.index("status_code") - (len(names) - len(d))
            status[node.name] = d[idx].value
            continue
        st = None
        for n in ast.walk(init[0]) if init else []:
            if isinstance(n, ast.Call) and isinstance(n.func, ast.Attribute) and n.func.attr == "__init__":
                if n.args and isinstance(n.args[0], ast.Constant) and isinstance(n.args[0].value, int):
                    st = n.args[0].value
                for kw in n.keywords:
                    if kw.arg == "status_code" and isinstance(kw.value, ast.Constant):
                        st = kw.value.value
        status[node.name] = st  # None: inherits
    for name in list(status):
        cur = name
        while status.get(cur) is None:
            cur = bases.get(cur)
            if cur is None or cur not in status:
                raise ExtractError("status of %s cannot be determined" % name)
        status[name] = status[cur]
    return status, bases


def _ancestors(names, baize_bases):
    """name -> list of ancestor class names (itself first), from the running interpreter / baize sources"""
    import decimal
    import ipaddress
    import json

    known = {}
    for mod in (builtins, json, decimal, ipaddress):
        for k, v in vars(mod).items():
            if isinstance(v, type) and issubclass(v, BaseException):
                known.setdefault(k, v)
    out = {}
    for n in sorted(names):
        if n in baize_bases or n == "ClientDisconnect":
            chain = [n]
            cur = baize_bases.get(n, "Exception")
            while cur and cur in baize_bases:
                chain.append(cur)
                cur = baize_bases[cur]
            chain += ["Exception", "BaseException"]
            out[n] = chain
        elif n in known:
            out[n] = [c.__name__ for c in known[n].__mro__ if c is not object]
        else:
            raise ExtractError("unknown exception class %s" % n)
    return out


# classes the declared raise-sets of Model/Errors.lean mention (their ancestors are needed too)
DECLARED_CLASSES = ["ValueError", "UnicodeError", "UnicodeDecodeError", "UnicodeEncodeError", "LookupError",
                    "KeyError", "IndexError", "TypeError", "OverflowError", "RecursionError", "RuntimeError",
                    "JSONDecodeError", "InvalidOperation", "OSError", "FileNotFoundError", "NotADirectoryError",
                    "PermissionError", "ArithmeticError", "ZeroDivisionError", "AttributeError", "AssertionError",
                    "MemoryError", "ClientDisconnect", "HTTPException", "Exception"]


def _ident(kind):
    return re.sub(r"[^A-Za-z0-9_]", "_", kind)


def _lean_chain(chain):
    def handler(h):
        classes, act, status, names = h
        return "([%s], %s, %d, [%s])" % (", ".join(lean_str(c) for c in classes), lean_str(act), status,
                                        ", ".join(lean_str(n) for n in names))
    return "[" + ", ".join("[" + ", ".join(handler(h) for h in level) + "]" for level in chain) + "]"


def gen_errors(repo):
    """C12: handler chains of every risky call site in the anchored functions"""
    g = Gen("Errors", "exception flow: try/except structure around every stdlib call / inner call / raise of the "
                      "anchored functions (tools/gen/c12.py)")
    statuses, bases = _statuses(repo)
    flow_classes = set(DECLARED_CLASSES) | set(statuses)
    trees = {}
    per_func = []
    for fid, rel, cls, fn in ANCHORS:
        if rel not in trees:
            trees[rel] = parse(repo, rel)
        scope = find_class(trees[rel], cls) if cls else trees[rel]
        if cls:
            cands = [n for n in scope.body if isinstance(n, (ast.FunctionDef, ast.AsyncFunctionDef)) and n.name == fn]
            if not cands:
                raise ExtractError("%s.%s not found in %s" % (cls, fn, rel))
            node = cands[-1]
        else:
            node = find_func(scope, fn)
        fl = Flow(statuses)
        fl.stmts(node.body, [])
        flow_classes |= fl.classes
        per_func.append((fid, rel, cls, fn, sorted(fl.sites, key=lambda s: (s[0], s[1]))))
    anc = _ancestors(flow_classes, bases)
    g.add("ancestors", "List (String × List String)",
          "[" + ", ".join("(%s, [%s])" % (lean_str(k), ", ".join(lean_str(a) for a in v)) for k, v in anc.items()) + "]",
          "exception class -> its ancestors, itself first (running interpreter + baize/exceptions.py)", anc)
    g.add("httpStatus", "List (String × Nat)",
          "[" + ", ".join("(%s, %d)" % (lean_str(k), v) for k, v in sorted(statuses.items())) + "]",
          "default status code of baize's HTTPException classes", sorted(statuses.items()))
    chain_t = "List (List (List String × String × Nat × List String))"
    all_sites = []
    for fid, rel, cls, fn, sites in per_func:
        where = "%s: %s%s" % (rel, cls + "." if cls else "", fn)
        count = {}
        for site in sites:
            kind, chain = site[2], site[3]
            if kind.startswith("raise:"):
                n = count.get("raise", 0)
                count["raise"] = n + 1
                cls_, status_, msg_ = site[4]
                name = "%s_raise_%d" % (fid, n)
                g.add(name, "String × Nat × String × " + chain_t,
                      "(%s, %d, %s, %s)" % (lean_str(cls_), status_, lean_str(msg_), _lean_chain(chain)),
                      "explicit raise #%d of %s (outside handler bodies): class, status, message literal, handler "
                      "chain around it" % (n, where), (cls_, status_, msg_, chain))
            else:
                n = count.get(kind, 0)
                count[kind] = n + 1
                name = "%s_%s_%d" % (fid, _ident(kind), n)
                g.add(name, chain_t, _lean_chain(chain),
                      "handler chain around the %s site #%d of %s" % (kind, n, where), chain)
            all_sites.append(name + "=" + kind)
    sts = set()
    for fid, rel, cls, fn, sites in per_func:
        for site in sites:
            if len(site) > 4:
                sts.add(site[4][1])
            for level in site[3]:
                for h in level:
                    if h[1] == "raise":
                        sts.add(h[2])
    sts = sorted(sts)
    g.add("raisedStatuses", "List Nat", "[" + ", ".join(str(x) for x in sts) + "]",
          "every status code given to an exception raised in the anchored functions (0: not an HTTPException)", sts)
    # every OTHER callee of the anchored functions: the calls the model takes for total on the values that reach
    # them (constructors of baize's own exceptions and event classes, str/bytes/list/dict/re-match methods,
    # builtins, the handlers that are themselves anchored under another name).  Pinned as a whole: a new callee
    # (`unquote`, `lru_cache`, `astimezone`, ...) is a new way to raise that the model does not know.
    others = set()
    for fid, rel, cls, fn in ANCHORS:
        scope = find_class(trees[rel], cls) if cls else trees[rel]
        if cls:
            node = [n for n in scope.body if isinstance(n, (ast.FunctionDef, ast.AsyncFunctionDef)) and n.name == fn][-1]
        else:
            node = find_func(scope, fn)
        for n in ast.walk(node):
            if not isinstance(n, ast.Call):
                continue
            f = n.func
            if isinstance(f, ast.Name):
                if f.id not in NAME_CALLS:
                    others.add("name:" + f.id)
            elif isinstance(f, ast.Attribute):
                recv = f.value
                rname = recv.id if isinstance(recv, ast.Name) else None
                if isinstance(recv, ast.Attribute) and isinstance(recv.value, ast.Name):
                    rname = (recv.value.id, recv.attr)
                if not (f.attr in ("decode", "encode") or (rname, f.attr) in ATTR_CALLS or (None, f.attr) in ATTR_CALLS):
                    others.add("attr:" + f.attr)
            else:
                others.add("expr:" + type(f).__name__)
    g.add("otherCallees", "List String", "[" + ", ".join(lean_str(x) for x in sorted(others)) + "]",
          "callees of the anchored functions that are not call sites of the model (taken for total)", sorted(others))
    g.add("allSites", "List String", "[" + ", ".join(lean_str(x) for x in all_sites) + "]",
          "every site found, `<definition name>=<kind>`, in source order per function (pinned by source_pinned)",
          all_sites)
    return g


GENERATORS = [gen_errors]
