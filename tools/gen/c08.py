"""C08: data of the router — convertor regexes, PARAM_REGEX, how Route compiles and matches"""
import ast

from tools.extract import ExtractError, Gen, const, find_assign, find_class, find_func, lean_str, parse


def _class_regex(tree, cls_name):
    cls = find_class(tree, cls_name)
    for node in cls.body:
        if isinstance(node, ast.Assign) and len(node.targets) == 1 and isinstance(node.targets[0], ast.Name) \
                and node.targets[0].id == "regex":
            return const(node.value, str)
    raise ExtractError("%s.regex literal not found" % cls_name)


def gen_router(repo):
    """C08: CONVERTOR_TYPES (name -> regex source), PARAM_REGEX, Route.__init__ / Route.matches shape"""
    g = Gen("Router", "baize/routing.py: convertors, PARAM_REGEX, compile_path, Route")
    tree = parse(repo, "baize/routing.py")

    # --- CONVERTOR_TYPES = {"str": StringConvertor(), ...}
    table = find_assign(tree, "CONVERTOR_TYPES")
    if not isinstance(table, ast.Dict):
        raise ExtractError("CONVERTOR_TYPES is not a dict literal")
    rows = []
    for k, v in zip(table.keys, table.values):
        name = const(k, str)
        if not (isinstance(v, ast.Call) and isinstance(v.func, ast.Name) and not v.args and not v.keywords):
            raise ExtractError("CONVERTOR_TYPES[%r] is not `Class()`" % name)
        rows.append((name, _class_regex(tree, v.func.id)))
    g.add("convertorTable", "List (String × String)",
          "[" + ", ".join("(%s, %s)" % (lean_str(a), lean_str(b)) for a, b in rows) + "]",
          "CONVERTOR_TYPES: placeholder type name -> regex source of its convertor class, in source order", rows)

    # --- PARAM_REGEX = re.compile(r"...")
    pr = find_assign(tree, "PARAM_REGEX")
    if not (isinstance(pr, ast.Call) and isinstance(pr.func, ast.Attribute) and pr.func.attr == "compile"
            and len(pr.args) == 1 and not pr.keywords):
        raise ExtractError("PARAM_REGEX is not re.compile(<literal>) without flags")
    g.string("paramRegex", const(pr.args[0], str), "PARAM_REGEX (compiled without flags)")

    # --- compile_path: default convertor type of `{name}` (match.groups("str"))
    cp = find_func(tree, "compile_path")
    default = None
    for node in ast.walk(cp):
        if isinstance(node, ast.Call) and isinstance(node.func, ast.Attribute) and node.func.attr == "groups" \
                and len(node.args) == 1:
            default = const(node.args[0], str)
    if default is None:
        raise ExtractError("compile_path: match.groups(<default>) not found")
    g.string("defaultType", default, "convertor type of a placeholder written without `:type`")

    # --- Route.__init__: literal pieces go through re.escape; no flags on re.compile
    route = find_class(tree, "Route")
    init = find_func(route, "__init__")
    escaped = False
    compile_flags = None
    for node in ast.walk(init):
        if isinstance(node, ast.Call) and isinstance(node.func, ast.Attribute) and isinstance(node.func.value, ast.Name) \
                and node.func.value.id == "re":
            if node.func.attr == "escape":
                escaped = True
            if node.func.attr == "compile":
                compile_flags = len(node.args) - 1 + len(node.keywords)
    if compile_flags is None:
        raise ExtractError("Route.__init__: re.compile(...) not found")
    g.bool("literalsEscaped", escaped, "Route.__init__ passes the literal pieces through re.escape")
    g.nat("compileFlagArgs", compile_flags, "number of flag arguments given to re.compile in Route.__init__")

    # --- Route.matches: which match method, which exceptions of to_python mean "no match"
    matches = find_func(route, "matches")
    method = None
    for node in ast.walk(matches):
        if isinstance(node, ast.Call) and isinstance(node.func, ast.Attribute) \
                and isinstance(node.func.value, ast.Attribute) and node.func.value.attr == "re_pattern":
            method = node.func.attr
    if method is None:
        raise ExtractError("Route.matches: self.re_pattern.<method>(path) not found")
    g.string("matchMethod", method, "method of the compiled pattern used by Route.matches")
    caught = []
    for node in ast.walk(matches):
        if isinstance(node, ast.ExceptHandler):
            t = node.type
            elts = t.elts if isinstance(t, ast.Tuple) else ([t] if t is not None else [])
            for e in elts:
                if not isinstance(e, ast.Name):
                    raise ExtractError("Route.matches: unexpected except clause")
                caught.append(e.id)
    g.add("noMatchExceptions", "List String", "[" + ", ".join(lean_str(c) for c in caught) + "]",
          "exception classes of to_python that Route.matches turns into \"no match\"", caught)

    # --- BaseRouter.search returns on the first hit (a `return` inside the `for`)
    search = find_func(find_class(tree, "BaseRouter"), "search")
    loops = [n for n in search.body if isinstance(n, ast.For)]
    first = bool(loops) and any(isinstance(n, ast.Return) for n in ast.walk(loops[0])) \
        and isinstance(loops[0].iter, ast.Attribute) and loops[0].iter.attr == "_route_array"
    g.bool("searchReturnsInLoop", first, "BaseRouter.search iterates self._route_array and returns from inside the loop")
    return g


GENERATORS = [gen_router]
