"""C09: data of BaseSubpaths / Subpaths / Hosts (baize/routing.py, baize/{wsgi,asgi}/routing.py)

Emitted into lean/BaizeVerif/Gen/Mount.lean:

* `searchPred path pre`   the test of the `for prefix, endpoint in self._route_array` loop of
                          `BaseSubpaths.search`, translated expression by expression
                          (`path.startswith(prefix + "/") or path == prefix`);
* `validPrefix pre`       the admission test of `BaseSubpaths.__init__` (the `continue` guard and the
                          two `assert`s), translated the same way;
* the status codes of the two 404 answers on both interfaces and the body of the Hosts answer.

The translator supports exactly the expression forms listed in `tr`; anything else is an
ExtractError, which breaks the proof leg of C09 (run.py then searches for a failing input).
The Python name `prefix` becomes `pre` in Lean (`prefix` is a Lean keyword).
"""
import ast

from tools.extract import ExtractError, Gen, const, cps, find_class, find_func, lean_natlist, parse

VARS = {"path": "path", "prefix": "pre"}


def tr(node):
    """Python expression over the strings `path` / `prefix` -> Lean term over `List Nat`"""
    if isinstance(node, ast.Name):
        if node.id in VARS:
            return VARS[node.id]
        raise ExtractError("unexpected name %r in the expression" % node.id)
    if isinstance(node, ast.Constant) and isinstance(node.value, str):
        return "(%s : List Nat)" % lean_natlist(cps(node.value))
    if isinstance(node, ast.BinOp) and isinstance(node.op, ast.Add):
        return "(%s ++ %s)" % (tr(node.left), tr(node.right))
    if isinstance(node, ast.BoolOp):
        op = " || " if isinstance(node.op, ast.Or) else " && "
        return "(" + op.join(tr(v) for v in node.values) + ")"
    if isinstance(node, ast.UnaryOp) and isinstance(node.op, ast.Not):
        return "(!%s)" % tr(node.operand)
    if isinstance(node, ast.Compare) and len(node.ops) == 1:
        a, b = tr(node.left), tr(node.comparators[0])
        if isinstance(node.ops[0], ast.Eq):
            return "(%s == %s)" % (a, b)
        if isinstance(node.ops[0], ast.NotEq):
            return "(%s != %s)" % (a, b)
    if (isinstance(node, ast.Call) and isinstance(node.func, ast.Attribute) and len(node.args) == 1
            and not node.keywords):
        recv, arg = tr(node.func.value), tr(node.args[0])
        if node.func.attr == "startswith":
            return "(List.isPrefixOf %s %s)" % (arg, recv)
        if node.func.attr == "endswith":
            return "(List.isSuffixOf %s %s)" % (arg, recv)
    raise ExtractError("unsupported expression form: %s" % ast.dump(node)[:120])


def loop_over_routes(fn, what):
    for node in ast.walk(fn):
        if isinstance(node, ast.For) and isinstance(node.target, ast.Tuple) and node.target.elts \
                and isinstance(node.target.elts[0], ast.Name) and node.target.elts[0].id == "prefix":
            return node
    raise ExtractError("%s: `for prefix, … in …` loop not found" % what)


def call_named(fn, name, what):
    for node in ast.walk(fn):
        if isinstance(node, ast.Call) and isinstance(node.func, ast.Name) and node.func.id == name:
            return node
    raise ExtractError("%s: call of %s(...) not found" % (what, name))


def gen_mount(repo):
    """C09: search predicate, prefix admission test, 404 answers"""
    g = Gen("Mount", "baize/routing.py: BaseSubpaths; baize/wsgi/routing.py, baize/asgi/routing.py: Subpaths, Hosts")
    base = parse(repo, "baize/routing.py")
    cls = find_class(base, "BaseSubpaths")

    # --- search: the test that selects an entry
    loop = loop_over_routes(find_func(cls, "search"), "BaseSubpaths.search")
    tests = [n for n in loop.body if isinstance(n, ast.If)]
    if len(tests) != 1:
        raise ExtractError("BaseSubpaths.search: expected exactly one `if` in the loop body")
    test = tests[0].test
    g.add("searchPred", "List Nat → List Nat → Bool", "fun path pre => " + tr(test),
          "selection test of BaseSubpaths.search: `%s`" % ast.unparse(test), ast.dump(test))

    # --- __init__: which prefixes are admitted
    loop = loop_over_routes(find_func(cls, "__init__"), "BaseSubpaths.__init__")
    skips, asserts = [], []
    for stmt in loop.body:
        if isinstance(stmt, ast.If) and len(stmt.body) == 1 and isinstance(stmt.body[0], ast.Continue) \
                and not stmt.orelse and not asserts:
            skips.append(stmt.test)
        elif isinstance(stmt, ast.Assert):
            asserts.append(stmt.test)
        else:
            raise ExtractError("BaseSubpaths.__init__: unexpected statement in the loop: %s" % ast.unparse(stmt)[:80])
    conj = "(" + " && ".join([tr(a) for a in asserts] or ["true"]) + ")"
    term = "(" + " || ".join([tr(s) for s in skips] + [conj]) + ")"
    g.add("validPrefix", "List Nat → Bool", "fun pre => " + term,
          "admission test of BaseSubpaths.__init__: skip if %s; assert %s"
          % (" / ".join(ast.unparse(s) for s in skips) or "-", " / ".join(ast.unparse(a) for a in asserts) or "-"),
          [ast.dump(s) for s in skips] + [ast.dump(a) for a in asserts])

    # --- 404 answers, both interfaces
    for tag, rel in (("W", "baize/wsgi/routing.py"), ("A", "baize/asgi/routing.py")):
        tree = parse(repo, rel)
        sub = find_func(find_class(tree, "Subpaths"), "__call__")
        call = call_named(sub, "Response", "%s Subpaths.__call__" % rel)
        if len(call.args) != 1 or call.keywords:
            raise ExtractError("%s Subpaths.__call__: expected Response(<status>)" % rel)
        g.nat("subpathsStatus" + tag, const(call.args[0], int),
              "status of the answer of Subpaths when no prefix matches (%s)" % rel)
        hosts = find_func(find_class(tree, "Hosts"), "__call__")
        call = call_named(hosts, "PlainTextResponse", "%s Hosts.__call__" % rel)
        if len(call.args) != 2 or call.keywords:
            raise ExtractError("%s Hosts.__call__: expected PlainTextResponse(<body>, <status>)" % rel)
        body = const(call.args[0], (bytes, str))
        if isinstance(body, str):
            body = body.encode("utf-8")
        g.natlist("hostsBody" + tag, cps(body), "body of the answer of Hosts when no pattern matches (%s)" % rel)
        g.nat("hostsStatus" + tag, const(call.args[1], int),
              "status of the answer of Hosts when no pattern matches (%s)" % rel)
    return g


GENERATORS = [gen_mount]
