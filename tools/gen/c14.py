"""C14: data of the conditional-request logic (If-None-Match / If-Modified-Since / the 304 decision)"""
import ast

from tools.extract import ExtractError, Gen, const, cps, find_class, find_func, parse

STAT_FIELD = {"st_mtime": 0, "st_ctime": 1, "st_size": 2, "st_atime": 3}
CMP = {ast.LtE: 0, ast.Lt: 1, ast.GtE: 2, ast.Gt: 3, ast.Eq: 4, ast.NotEq: 5}


def _calls(fn, attr):
    return [n for n in ast.walk(fn)
            if isinstance(n, ast.Call) and isinstance(n.func, ast.Attribute) and n.func.attr == attr]


def _one(items, what):
    if len(items) != 1:
        raise ExtractError("%s: expected exactly one, found %d" % (what, len(items)))
    return items[0]


def _stat_attr(node, what):
    """`stat_result.st_xxx` -> code"""
    if isinstance(node, ast.Attribute) and node.attr in STAT_FIELD:
        return STAT_FIELD[node.attr]
    raise ExtractError("%s: expected stat_result.st_<field>, got %s" % (what, ast.dump(node)[:80]))


def _ims_field(repo, rel):
    """which stat field file_response hands to if_modified_since, and whether a non-empty
    If-None-Match decides alone (the If-Modified-Since call sits in the `else` of `if if_none_match:`)"""
    tree = parse(repo, rel)
    fn = find_func(find_class(tree, "Files"), "file_response")
    call = _one(_calls(fn, "if_modified_since"), rel + " file_response: call of if_modified_since")
    field = _stat_attr(call.args[0], rel + " file_response: first argument of if_modified_since")
    inm = _one(_calls(fn, "if_none_match"), rel + " file_response: call of if_none_match")
    precedence = False
    for node in ast.walk(fn):
        if isinstance(node, ast.If) and isinstance(node.test, ast.Name) and node.test.id == "if_none_match":
            in_body = any(inm is n for b in node.body for n in ast.walk(b))
            in_else = any(call is n for b in node.orelse for n in ast.walk(b))
            if in_body and in_else:
                precedence = True
    return field, precedence


def gen_conditional(repo):
    """C14: literals of if_none_match, the comparison of if_modified_since, the stat fields behind the validators"""
    g = Gen("Conditional", "baize/staticfiles.py, baize/responses.py, baize/{wsgi,asgi}/staticfiles.py: "
                           "conditional requests")
    tree = parse(repo, "baize/staticfiles.py")
    base = find_class(tree, "BaseFiles")

    # ---- if_none_match
    fn = find_func(base, "if_none_match")
    star = None
    for node in ast.walk(fn):
        if (isinstance(node, ast.Compare) and isinstance(node.left, ast.Name) and node.left.id == "if_none_match"
                and len(node.ops) == 1 and isinstance(node.ops[0], ast.Eq)):
            star = const(node.comparators[0], str)
    if star is None:
        raise ExtractError("if_none_match: `if_none_match == <literal>` not found")
    sw = _one(_calls(fn, "startswith"), "if_none_match: .startswith(...)")
    prefix = const(sw.args[0], str)
    drops = [n for n in ast.walk(fn) if isinstance(n, ast.Subscript) and isinstance(n.slice, ast.Slice)
             and n.slice.lower is not None and n.slice.upper is None and n.slice.step is None]
    drop = const(_one(drops, "if_none_match: slice [n:]").slice.lower, int)
    sp = _one(_calls(fn, "split"), "if_none_match: .split(...)")
    if len(sp.args) != 1:
        raise ExtractError("if_none_match: split with %d arguments" % len(sp.args))
    sep = const(sp.args[0], str)
    strips = _calls(fn, "strip")
    with_arg = [c for c in strips if c.args]
    without = [c for c in strips if not c.args]
    quote = const(_one(with_arg, "if_none_match: .strip(<chars>)").args[0], str)
    if not without:
        raise ExtractError("if_none_match: no whitespace .strip()")
    # the member loop: the prefix test happens per list member iff the startswith call is inside a loop / comprehension
    per_member = False
    for node in ast.walk(fn):
        if isinstance(node, (ast.For, ast.GeneratorExp, ast.ListComp)):
            if any(sw is n for n in ast.walk(node)):
                per_member = True
    g.natlist("star", cps(star), "`if_none_match == %r`: the wildcard" % star)
    g.natlist("weakPrefix", cps(prefix), "`.startswith(%r)`: the weak-validator prefix" % prefix)
    g.nat("weakDrop", drop, "`[%d:]`: characters removed when the prefix is present" % drop)
    g.bool("weakPerMember", per_member, "the prefix is tested on every list member (inside the loop over split)")
    g.natlist("splitSep", cps(sep), "`.split(%r)`" % sep)
    g.natlist("stripChars", cps(quote), "`.strip(%r)` after the whitespace strip" % quote)
    g.nat("wsStrips", len(without), "number of argument-less (whitespace) `.strip()` calls")

    # ---- if_modified_since
    fn = find_func(base, "if_modified_since")
    cmps = [n for n in ast.walk(fn) if isinstance(n, ast.Compare) and len(n.ops) == 1
            and isinstance(n.left, ast.Call) and isinstance(n.left.func, ast.Name) and n.left.func.id == "int"]
    cmp_ = _one(cmps, "if_modified_since: `int(..) <op> int(..)`")
    right = cmp_.comparators[0]
    if not (isinstance(right, ast.Call) and isinstance(right.func, ast.Name) and right.func.id == "int"):
        raise ExtractError("if_modified_since: right operand is not int(...)")
    left_arg, right_arg = cmp_.left.args[0], right.args[0]
    if not (isinstance(left_arg, ast.Name) and left_arg.id == "last_modified"):
        raise ExtractError("if_modified_since: left operand is not int(last_modified)")
    if not isinstance(right_arg, ast.Name):
        raise ExtractError("if_modified_since: right operand is not int(<name>)")
    if type(cmp_.ops[0]) not in CMP:
        raise ExtractError("if_modified_since: unknown comparison")
    g.nat("imsCmp", CMP[type(cmp_.ops[0])],
          "int(last_modified) <op> int(modified_time); 0 `<=` 1 `<` 2 `>=` 3 `>` 4 `==` 5 `!=`")

    # ---- the 304 decision, per interface
    for name, rel in (("Wsgi", "baize/wsgi/staticfiles.py"), ("Asgi", "baize/asgi/staticfiles.py")):
        field, precedence = _ims_field(repo, rel)
        g.nat("imsField" + name, field, "%s file_response: stat field compared with If-Modified-Since "
                                        "(0 st_mtime, 1 st_ctime, 2 st_size, 3 st_atime)" % rel)
        g.bool("inmPrecedence" + name, precedence,
               "%s file_response: a non-empty If-None-Match decides alone" % rel)

    # ---- validators advertised on a 200
    tree = parse(repo, "baize/responses.py")
    mixin = find_class(tree, "FileResponseMixin")
    fn = find_func(mixin, "generate_etag")
    fields = []
    for node in ast.walk(fn):
        if isinstance(node, ast.Attribute) and node.attr.startswith("st_"):
            fields.append(_stat_attr(node, "generate_etag"))
    if not fields:
        raise ExtractError("generate_etag: no stat field used")
    g.natlist("etagFields", sorted(set(fields)), "stat fields hashed into the ETag (codes as above)")
    # every stat field enters the hashed text directly as `{stat_result.st_xxx}` of one f-string (not
    # through int(), round(), slicing ...): only then distinct field values give distinct texts
    direct = []
    for node in ast.walk(fn):
        if isinstance(node, ast.JoinedStr):
            for v in node.values:
                if (isinstance(v, ast.FormattedValue) and v.conversion == -1 and v.format_spec is None
                        and isinstance(v.value, ast.Attribute) and v.value.attr in STAT_FIELD):
                    direct.append(STAT_FIELD[v.value.attr])
    g.bool("etagFieldsVerbatim", sorted(direct) == sorted(fields),
           "each stat field is interpolated verbatim (`{stat_result.st_xxx}`) into the hashed text")
    fn = find_func(mixin, "generate_common_headers")
    lm = None
    for node in ast.walk(fn):
        if isinstance(node, ast.Dict):
            for k, v in zip(node.keys, node.values):
                if isinstance(k, ast.Constant) and k.value == "last-modified":
                    if not (isinstance(v, ast.Call) and getattr(v.func, "id", getattr(v.func, "attr", "")) == "formatdate"):
                        raise ExtractError("generate_common_headers: last-modified is not formatdate(...)")
                    lm = _stat_attr(v.args[0], "generate_common_headers: last-modified")
    if lm is None:
        raise ExtractError("generate_common_headers: \"last-modified\" entry not found")
    g.nat("lastModifiedField", lm, "stat field advertised as Last-Modified")
    return g


GENERATORS = [gen_conditional]
