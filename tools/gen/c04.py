"""C04: what the WSGI / ASGI twins read from `environ` / `scope` and what they write into a response.

Emitted into lean/BaizeVerif/Gen/Equiv.lean (one item per interface wherever the source has two copies):

* request side: the key filter and the header-name transformation of `wsgi HTTPConnection.headers`
  (translated expression by expression), the two codecs of `asgi HTTPConnection.headers`, the keys
  behind `client`, `method`, `query_params`, `path_params`, the media types / default charsets of
  `json` and `form`;
* response side: class attributes and literals of `SmallResponse.__call__`, the media types of the
  three small responses, defaults of `RedirectResponse` / `StreamResponse`, the codecs of
  `list_headers` and `Cookie.__bytes__`;
* applications: the keys `Hosts`, `Files`, `FileResponse` look at, the 404 of `Router` and of `Files`,
  whether `Files.file_response` calls `set_response_headers` on the 304 / on the 200 and what that
  function appends.

Anything not found in the expected syntactic position is an ExtractError (proof leg of C04 broken).
"""
import ast

from tools.extract import ExtractError, Gen, const, cps, find_class, find_func, lean_natlist, lean_str, parse

W_REQ, A_REQ = "baize/wsgi/requests.py", "baize/asgi/requests.py"
W_RESP, A_RESP = "baize/wsgi/responses.py", "baize/asgi/responses.py"
W_ROUTE, A_ROUTE = "baize/wsgi/routing.py", "baize/asgi/routing.py"
W_STATIC, A_STATIC = "baize/wsgi/staticfiles.py", "baize/asgi/staticfiles.py"


def _nl(s):
    return "(%s : List Nat)" % lean_natlist(cps(s))


def _one(items, what):
    if len(items) != 1:
        raise ExtractError("%s: expected exactly one, found %d" % (what, len(items)))
    return items[0]


def _walk(node, pred):
    return [n for n in ast.walk(node) if pred(n)]


def _returns(fn, what):
    rets = [n for n in ast.walk(fn) if isinstance(n, ast.Return) and n.value is not None]
    if not rets:
        raise ExtractError("%s: no return" % what)
    return rets


# --------------------------------------------------------------------------- environ -> headers


def tr_key_test(node):
    """boolean expression over the environ key `key` -> Lean Bool term"""
    if isinstance(node, ast.BoolOp):
        op = " || " if isinstance(node.op, ast.Or) else " && "
        return "(" + op.join(tr_key_test(v) for v in node.values) + ")"
    if (isinstance(node, ast.Call) and isinstance(node.func, ast.Attribute) and node.func.attr == "startswith"
            and isinstance(node.func.value, ast.Name) and node.func.value.id == "key" and len(node.args) == 1):
        return "(List.isPrefixOf %s key)" % _nl(const(node.args[0], str))
    if (isinstance(node, ast.Compare) and len(node.ops) == 1 and isinstance(node.left, ast.Name)
            and node.left.id == "key"):
        right = node.comparators[0]
        if isinstance(node.ops[0], ast.In) and isinstance(right, (ast.Tuple, ast.List, ast.Set)):
            return "(([%s] : List (List Nat)).contains key)" % ", ".join(
                lean_natlist(cps(const(e, str))) for e in right.elts)
        if isinstance(node.ops[0], ast.Eq):
            return "(key == %s)" % _nl(const(right, str))
    raise ExtractError("wsgi headers: unsupported key test %s" % ast.dump(node)[:100])


def tr_name_expr(node):
    """the expression that turns an environ key into a header name -> Lean term over `key`, `lower`"""
    if isinstance(node, ast.Name) and node.id == "key":
        return "key"
    if isinstance(node, ast.IfExp):
        return "(if %s then %s else %s)" % (tr_key_test(node.test), tr_name_expr(node.body), tr_name_expr(node.orelse))
    if isinstance(node, ast.Subscript) and isinstance(node.slice, ast.Slice):
        sl = node.slice
        if sl.upper is None and sl.step is None and sl.lower is not None:
            return "(List.drop %d %s)" % (const(sl.lower, int), tr_name_expr(node.value))
    if isinstance(node, ast.Call) and isinstance(node.func, ast.Attribute) and not node.keywords:
        recv = tr_name_expr(node.func.value)
        if node.func.attr == "lower" and not node.args:
            return "(lower %s)" % recv
        if node.func.attr == "replace" and len(node.args) == 2:
            a, b = const(node.args[0], str), const(node.args[1], str)
            if len(a) == 1 and len(b) == 1:
                return "(List.map (fun c => if c = %d then %d else c) %s)" % (ord(a), ord(b), recv)
    raise ExtractError("wsgi headers: unsupported name expression %s" % ast.dump(node)[:100])


def _headers_genexp(repo, rel):
    fn = find_func(find_class(parse(repo, rel), "HTTPConnection"), "headers")
    gens = _walk(fn, lambda n: isinstance(n, ast.GeneratorExp))
    ge = _one(gens, rel + " headers: generator expression")
    comp = _one(ge.generators, rel + " headers: comprehension clause")
    if not (isinstance(comp.target, ast.Tuple) and [getattr(e, "id", None) for e in comp.target.elts] == ["key", "value"]):
        raise ExtractError(rel + " headers: expected `for key, value in ...`")
    if not (isinstance(ge.elt, ast.Tuple) and len(ge.elt.elts) == 2):
        raise ExtractError(rel + " headers: expected a (name, value) pair")
    return ge, comp


def _decode_codec(node, var, what):
    if (isinstance(node, ast.Call) and isinstance(node.func, ast.Attribute) and node.func.attr == "decode"
            and isinstance(node.func.value, ast.Name) and node.func.value.id == var and len(node.args) == 1):
        return const(node.args[0], str)
    raise ExtractError("%s: expected %s.decode(<codec>)" % (what, var))


def _subscript_keys(fn, recv_attr=None):
    """string keys used as self[...] / self.get(...) inside fn, in source order"""
    keys = []
    for n in ast.walk(fn):
        if isinstance(n, ast.Subscript) and isinstance(n.value, ast.Name) and n.value.id == "self":
            if isinstance(n.slice, ast.Constant) and isinstance(n.slice.value, str):
                keys.append(n.slice.value)
        if (isinstance(n, ast.Call) and isinstance(n.func, ast.Attribute) and n.func.attr == "get"
                and isinstance(n.func.value, ast.Name) and n.func.value.id == "self" and n.args):
            if isinstance(n.args[0], ast.Constant) and isinstance(n.args[0].value, str):
                keys.append(n.args[0].value)
    return keys


def _uniq(xs):
    out = []
    for x in xs:
        if x not in out:
            out.append(x)
    return out


def _body_accessors(g, repo, rel, tag):
    """media types and default charsets of Request.json / Request.form"""
    cls = find_class(parse(repo, rel), "Request")
    for acc in ("json", "form"):
        fn = find_func(cls, acc)
        types = []
        for n in ast.walk(fn):
            if (isinstance(n, ast.Compare) and len(n.ops) == 1 and isinstance(n.ops[0], ast.Eq)
                    and isinstance(n.left, ast.Attribute) and n.left.attr == "content_type"):
                types.append(const(n.comparators[0], str))
        charsets = []
        for n in ast.walk(fn):
            if (isinstance(n, ast.Call) and isinstance(n.func, ast.Attribute) and n.func.attr == "get"
                    and len(n.args) == 2 and isinstance(n.args[0], ast.Constant) and n.args[0].value == "charset"):
                charsets.append((n.lineno, n.col_offset, const(n.args[1], str)))
        charsets = [c for _, _, c in sorted(charsets)]
        if acc == "json":
            g.natlist("jsonType" + tag, cps(_one(types, rel + " json: media type test")),
                      "%s Request.json: media type" % rel)
            g.natlist("jsonCharset" + tag, cps(_one(charsets, rel + " json: default charset")),
                      "%s Request.json: default charset" % rel)
        else:
            if len(types) != 2 or len(charsets) != 2:
                raise ExtractError("%s form: expected two media type tests and two charset defaults" % rel)
            g.natlist("multipartType" + tag, cps(types[0]), "%s Request.form: first media type" % rel)
            g.natlist("multipartCharset" + tag, cps(charsets[0]), "%s Request.form: default charset of the multipart branch" % rel)
            g.natlist("urlencodedType" + tag, cps(types[1]), "%s Request.form: second media type" % rel)
            g.natlist("urlencodedCharset" + tag, cps(charsets[1]), "%s Request.form: default charset of the urlencoded branch" % rel)
            # the decode of the urlencoded body: status raised for a decoding error (ValueError covers UnicodeDecodeError,
            # LookupError an unknown codec); 0 = the error escapes
            status = 0
            for t in ast.walk(fn):
                if isinstance(t, ast.Try) and any(isinstance(c, ast.Call) and isinstance(c.func, ast.Attribute)
                                                  and c.func.attr == "decode" for b in t.body for c in ast.walk(b)):
                    for h in t.handlers:
                        names = ([e.id for e in h.type.elts if isinstance(e, ast.Name)] if isinstance(h.type, ast.Tuple)
                                 else [h.type.id] if isinstance(h.type, ast.Name) else [])
                        rs = [r for b in h.body for r in ast.walk(b) if isinstance(r, ast.Raise) and isinstance(r.exc, ast.Call)
                              and isinstance(r.exc.func, ast.Name) and r.exc.func.id == "HTTPException" and r.exc.args]
                        if rs and {"LookupError"} <= set(names) and ({"ValueError", "UnicodeError", "UnicodeDecodeError"} & set(names)):
                            status = const(rs[0].exc.args[0], int)
            g.nat("formDecodeErrorStatus" + tag, status,
                  "%s Request.form: status for an urlencoded body that cannot be decoded with its charset (0: the error escapes)" % rel)


# --------------------------------------------------------------------------- responses


def _class_attr(cls, name, what):
    for st in cls.body:
        if isinstance(st, ast.Assign) and any(isinstance(t, ast.Name) and t.id == name for t in st.targets):
            return st.value
        if isinstance(st, ast.AnnAssign) and isinstance(st.target, ast.Name) and st.target.id == name and st.value:
            return st.value
    raise ExtractError("%s: class attribute %s not found" % (what, name))


def _default_of(fn, arg, what):
    names = [a.arg for a in fn.args.args]
    if arg in names:
        i = names.index(arg) - (len(names) - len(fn.args.defaults))
        if i >= 0:
            return fn.args.defaults[i]
    for a, d in zip(fn.args.kwonlyargs, fn.args.kw_defaults):
        if a.arg == arg and d is not None:
            return d
    raise ExtractError("%s: no default for %s" % (what, arg))


def _small_call(g, repo, rel, tag):
    tree = parse(repo, rel)
    cls = find_class(tree, "SmallResponse")
    g.natlist("smallCharset" + tag, cps(const(_class_attr(cls, "charset", rel), str)),
              "%s SmallResponse.charset (class default)" % rel)
    g.natlist("smallMediaType" + tag, cps(const(_class_attr(cls, "media_type", rel), str)),
              "%s SmallResponse.media_type (class default)" % rel)
    fn = find_func(cls, "__call__")
    ifs = [st for st in fn.body if isinstance(st, ast.If)]
    if len(ifs) != 2:
        raise ExtractError("%s SmallResponse.__call__: expected two top-level `if`s" % rel)

    def not_in_headers(node, what):
        if (isinstance(node, ast.Compare) and len(node.ops) == 1 and isinstance(node.ops[0], ast.NotIn)
                and isinstance(node.comparators[0], ast.Attribute) and node.comparators[0].attr == "headers"):
            return const(node.left, str)
        raise ExtractError("%s: expected `<name> not in self.headers`" % what)

    t1 = ifs[0].test
    if not (isinstance(t1, ast.BoolOp) and isinstance(t1.op, ast.And) and len(t1.values) == 2
            and isinstance(t1.values[0], ast.Name) and t1.values[0].id == "body"):
        raise ExtractError("%s SmallResponse.__call__: first test is not `body and <name> not in self.headers`" % rel)
    len_name = not_in_headers(t1.values[1], rel + " content-length test")
    sets = _walk(ifs[0], lambda n: isinstance(n, ast.Assign) and isinstance(n.targets[0], ast.Subscript)
                 and isinstance(n.targets[0].value, ast.Attribute) and n.targets[0].value.attr == "headers")
    set1 = const(_one(sets, rel + " content-length assignment").targets[0].slice, str)
    g.natlist("smallLenTest" + tag, cps(len_name), "%s SmallResponse.__call__: `body and %r not in self.headers`" % (rel, len_name))
    g.natlist("smallLenHeader" + tag, cps(set1), "%s SmallResponse.__call__: header receiving str(len(body))" % rel)
    t2 = ifs[1].test
    if not (isinstance(t2, ast.BoolOp) and isinstance(t2.op, ast.And) and len(t2.values) == 2
            and isinstance(t2.values[0], ast.Name) and t2.values[0].id == "content_type"):
        raise ExtractError("%s SmallResponse.__call__: second test is not `content_type and <name> not in self.headers`" % rel)
    type_name = not_in_headers(t2.values[1], rel + " content-type test")
    inner = [st for st in ifs[1].body if isinstance(st, ast.If)]
    inner = _one(inner, rel + " SmallResponse.__call__: `if content_type.startswith(...)`")
    if not (isinstance(inner.test, ast.Call) and isinstance(inner.test.func, ast.Attribute)
            and inner.test.func.attr == "startswith"):
        raise ExtractError("%s SmallResponse.__call__: inner test is not a startswith" % rel)
    prefix = const(inner.test.args[0], str)
    aug = _one(_walk(inner, lambda n: isinstance(n, ast.AugAssign)), rel + " `content_type += ...`")
    if not (isinstance(aug.value, ast.BinOp) and isinstance(aug.value.op, ast.Add)
            and isinstance(aug.value.right, ast.Attribute) and aug.value.right.attr == "charset"):
        raise ExtractError("%s SmallResponse.__call__: expected `content_type += <literal> + self.charset`" % rel)
    join = const(aug.value.left, str)
    sets2 = [st for st in ifs[1].body if isinstance(st, ast.Assign) and isinstance(st.targets[0], ast.Subscript)]
    set2 = const(_one(sets2, rel + " content-type assignment").targets[0].slice, str)
    g.natlist("smallTypeTest" + tag, cps(type_name), "%s SmallResponse.__call__: `content_type and %r not in self.headers`" % (rel, type_name))
    g.natlist("smallTypeHeader" + tag, cps(set2), "%s SmallResponse.__call__: header receiving the media type" % rel)
    g.natlist("smallTextPrefix" + tag, cps(prefix), "%s SmallResponse.__call__: media types starting with this get a charset parameter" % rel)
    g.natlist("smallCharsetJoin" + tag, cps(join), "%s SmallResponse.__call__: text between media type and charset" % rel)
    for cname, item in (("PlainTextResponse", "plainMediaType"), ("HTMLResponse", "htmlMediaType"),
                        ("JSONResponse", "jsonMediaType")):
        g.natlist(item + tag, cps(const(_class_attr(find_class(tree, cname), "media_type", rel), str)),
                  "%s %s.media_type" % (rel, cname))
    red = find_func(find_class(tree, "RedirectResponse"), "__init__")
    g.nat("redirectStatus" + tag, const(_default_of(red, "status_code", rel + " RedirectResponse"), int),
          "%s RedirectResponse: default status" % rel)
    stream = find_func(find_class(tree, "StreamResponse"), "__init__")
    g.natlist("streamContentType" + tag, cps(const(_default_of(stream, "content_type", rel + " StreamResponse"), str)),
              "%s StreamResponse: default content type" % rel)
    sets3 = _walk(stream, lambda n: isinstance(n, ast.Assign) and isinstance(n.targets[0], ast.Subscript)
                  and isinstance(n.targets[0].value, ast.Attribute) and n.targets[0].value.attr == "headers")
    g.natlist("streamTypeHeader" + tag, cps(const(_one(sets3, rel + " StreamResponse header").targets[0].slice, str)),
              "%s StreamResponse.__init__: header receiving content_type" % rel)
    sse = find_func(find_class(tree, "SendEventResponse"), "__init__")
    g.natlist("sseCharset" + tag, cps(const(_default_of(sse, "charset", rel + " SendEventResponse"), str)),
              "%s SendEventResponse: default charset" % rel)
    for cname, item in (("StreamingResponse", "streamStatus"), ("SmallResponse", "smallStatus")):
        init = find_func(find_class(tree, cname), "__init__")
        g.nat(item + tag, const(_default_of(init, "status_code", rel + " " + cname), int),
              "%s %s: default status" % (rel, cname))


# --------------------------------------------------------------------------- applications


def _get_keys(fn, what):
    """first arguments of environ.get(...) / environ[...] string lookups and bytes compared with k / key"""
    out = []
    for n in ast.walk(fn):
        if (isinstance(n, ast.Call) and isinstance(n.func, ast.Attribute) and n.func.attr == "get"
                and isinstance(n.func.value, ast.Name) and n.func.value.id == "environ" and n.args
                and isinstance(n.args[0], ast.Constant)):
            out.append((n.lineno, n.col_offset, n.args[0].value))
        if (isinstance(n, ast.Subscript) and isinstance(n.value, ast.Name) and n.value.id == "environ"
                and isinstance(n.slice, ast.Constant) and isinstance(n.slice.value, str)
                and isinstance(n.ctx, ast.Load)):
            out.append((n.lineno, n.col_offset, n.slice.value))
        if (isinstance(n, ast.Compare) and len(n.ops) == 1 and isinstance(n.ops[0], (ast.Eq, ast.In, ast.NotIn))
                and isinstance(n.left, ast.Name) and n.left.id in ("k", "key")
                and isinstance(n.comparators[0], ast.Constant) and isinstance(n.comparators[0].value, bytes)):
            out.append((n.lineno, n.col_offset, n.comparators[0].value))
        if (isinstance(n, ast.Compare) and len(n.ops) == 1 and isinstance(n.ops[0], (ast.In, ast.NotIn))
                and isinstance(n.left, ast.Constant) and isinstance(n.left.value, str)
                and isinstance(n.comparators[0], ast.Name) and n.comparators[0].id == "environ"):
            out.append((n.lineno, n.col_offset, n.left.value))
    return _uniq([k for _, _, k in sorted(out)])


def _set_headers_position(repo, rel):
    fn = find_func(find_class(parse(repo, rel), "Files"), "file_response")
    calls = _walk(fn, lambda n: isinstance(n, ast.Call) and isinstance(n.func, ast.Attribute)
                  and n.func.attr == "set_response_headers")
    branch = None
    for st in fn.body:
        if isinstance(st, ast.If) and isinstance(st.test, ast.Name) and st.test.id == "not_modified":
            branch = st
    if branch is None:
        raise ExtractError("%s file_response: `if not_modified:` not found" % rel)
    on304 = on200 = False
    for c in calls:
        in304 = any(c is n for b in branch.body for n in ast.walk(b))
        in200 = any(c is n for b in branch.orelse for n in ast.walk(b))
        top = any(isinstance(st, ast.Expr) and st.value is c for st in fn.body)
        after = top and fn.body.index([st for st in fn.body if isinstance(st, ast.Expr) and st.value is c][0]) > fn.body.index(branch)
        if in304 or after:
            on304 = True
        if in200 or after:
            on200 = True
        if not (in304 or in200 or after):
            raise ExtractError("%s file_response: set_response_headers called in an unexpected position" % rel)
    statuses = [const(n.args[0], int) for b in branch.body for n in ast.walk(b)
                if isinstance(n, ast.Call) and isinstance(n.func, ast.Name) and n.func.id == "Response" and n.args]
    return on304, on200, _one(statuses, rel + " file_response: Response(<status>) of the not-modified branch")


def _fstring_pieces(node, what):
    """f-string of literals and `self.<attr>` holes -> Lean list of (isHole, text)"""
    if isinstance(node, ast.Constant) and isinstance(node.value, str):
        return [(False, node.value)]
    if not isinstance(node, ast.JoinedStr):
        raise ExtractError("%s: expected a string or f-string" % what)
    out = []
    for v in node.values:
        if isinstance(v, ast.Constant):
            out.append((False, v.value))
        elif (isinstance(v, ast.FormattedValue) and isinstance(v.value, ast.Attribute) and v.conversion == -1
              and v.format_spec is None):
            out.append((True, v.value.attr))
        else:
            raise ExtractError("%s: unsupported f-string part" % what)
    return out


def _const_int(node, what):
    try:
        v = eval(compile(ast.Expression(node), "<const>", "eval"), {"__builtins__": {}})  # literal arithmetic only
    except Exception:
        raise ExtractError("%s: not a constant expression" % what)
    if not isinstance(v, int):
        raise ExtractError("%s: not an int" % what)
    return v


def gen_equiv(repo):
    """C04: per-interface keys, codecs, literals and defaults"""
    g = Gen("Equiv", "baize/{wsgi,asgi}/requests.py, responses.py, routing.py, staticfiles.py; baize/responses.py, "
                     "baize/staticfiles.py, baize/datastructures.py: what the twins read and write")

    # ---- wsgi: environ -> headers
    ge, comp = _headers_genexp(repo, W_REQ)
    cond = _one(comp.ifs, W_REQ + " headers: filter")
    g.add("wsgiHeaderKey", "List Nat → Bool", "fun key => " + tr_key_test(cond),
          "which environ keys become headers: `%s`" % ast.unparse(cond), ast.dump(cond))
    name_expr, value_expr = ge.elt.elts
    g.add("wsgiHeaderName", "(List Nat → List Nat) → List Nat → List Nat",
          "fun lower key => " + tr_name_expr(name_expr),
          "header name of an environ key: `%s`" % ast.unparse(name_expr).replace("\n", " "), ast.dump(name_expr))
    if not (isinstance(value_expr, ast.Name) and value_expr.id == "value"):
        raise ExtractError(W_REQ + " headers: the value is not passed through unchanged")
    g.bool("wsgiHeaderValueVerbatim", True, "the environ value is the header value")
    prefixes = [const(n.args[0], str) for n in ast.walk(cond)
                if isinstance(n, ast.Call) and isinstance(n.func, ast.Attribute) and n.func.attr == "startswith"]
    g.natlist("wsgiHeaderPrefix", cps(_one(prefixes, W_REQ + " headers: startswith literal")),
              "prefix of the environ keys that carry request headers")
    specials = [[const(e, str) for e in n.comparators[0].elts] for n in ast.walk(cond)
                if isinstance(n, ast.Compare) and isinstance(n.ops[0], ast.In)]
    sp = _one(specials, W_REQ + " headers: `key in (...)`")
    g.add("wsgiSpecialKeys", "List (List Nat)", "[" + ", ".join(lean_natlist(cps(s)) for s in sp) + "]",
          "environ keys without the prefix that carry request headers: %r" % (sp,), sp)

    # ---- asgi: scope header list -> headers
    ge, comp = _headers_genexp(repo, A_REQ)
    if comp.ifs:
        raise ExtractError(A_REQ + " headers: unexpected filter")
    g.string("asgiHeaderKeyCodec", _decode_codec(ge.elt.elts[0], "key", A_REQ + " headers"), "codec of the header names")
    g.string("asgiHeaderValueCodec", _decode_codec(ge.elt.elts[1], "value", A_REQ + " headers"), "codec of the header values")
    src = comp.iter
    if not (isinstance(src, ast.Subscript) and isinstance(src.slice, ast.Constant)):
        raise ExtractError(A_REQ + " headers: expected self._scope[<key>]")
    g.natlist("asgiHeadersKey", cps(const(src.slice, str)), "scope key of the header list")

    # ---- client / method / query / path params
    for rel, tag in ((W_REQ, "W"), (A_REQ, "A")):
        tree = parse(repo, rel)
        conn = find_class(tree, "HTTPConnection")
        keys = _uniq(_subscript_keys(find_func(conn, "client")))
        g.add("clientKeys" + tag, "List (List Nat)", "[" + ", ".join(lean_natlist(cps(k)) for k in keys) + "]",
              "%s client: keys read %r" % (rel, keys), keys)
        ints = _walk(find_func(conn, "client"), lambda n: isinstance(n, ast.Call) and isinstance(n.func, ast.Name) and n.func.id == "int")
        g.nat("clientIntCalls" + tag, len(ints), "%s client: number of int(...) conversions" % rel)
        g.natlist("queryKey" + tag, cps(_one(_uniq(_subscript_keys(find_func(conn, "query_params"))), rel + " query_params key")),
                  "%s query_params: key" % rel)
        g.natlist("pathParamsKey" + tag, cps(_one(_uniq(_subscript_keys(find_func(conn, "path_params"))), rel + " path_params key")),
                  "%s path_params: key" % rel)
        g.natlist("methodKey" + tag, cps(_one(_uniq(_subscript_keys(find_func(find_class(tree, "Request"), "method"))), rel + " method key")),
                  "%s method: key" % rel)
        _body_accessors(g, repo, rel, tag)

    # ---- shared mixin: header names the accessors look up
    mix = find_class(parse(repo, "baize/requests.py"), "MoreInfoFromHeaderMixin")
    for acc in ("accepted_types", "content_type", "content_length", "cookies", "date", "referrer"):
        fn = find_func(mix, acc)
        gets = []
        for n in ast.walk(fn):
            if (isinstance(n, ast.Call) and isinstance(n.func, ast.Attribute) and n.func.attr == "get"
                    and isinstance(n.func.value, ast.Attribute) and n.func.value.attr == "headers" and n.args):
                d = n.args[1] if len(n.args) > 1 else None
                gets.append((n.lineno, n.col_offset, const(n.args[0], str),
                             None if d is None or (isinstance(d, ast.Constant) and d.value is None) else const(d, str)))
        gets = [(k, d) for _, _, k, d in sorted(gets)]
        g.add("mixin_" + acc, "List (List Nat × Option (List Nat))",
              "[" + ", ".join("(%s, %s)" % (lean_natlist(cps(k)), "none" if d is None else "some " + lean_natlist(cps(d)))
                              for k, d in gets) + "]",
              "baize/requests.py %s: headers.get(name, default) calls %r" % (acc, gets), gets)
    # referrer: is the URL(...) construction inside a try whose handler catches ValueError (-> None)?
    caught = False
    for t in ast.walk(find_func(mix, "referrer")):
        if isinstance(t, ast.Try) and any(isinstance(c, ast.Call) and isinstance(c.func, ast.Name) and c.func.id == "URL"
                                          for b in t.body for c in ast.walk(b)):
            for h in t.handlers:
                names = [] if h.type is None else ([e.id for e in h.type.elts if isinstance(e, ast.Name)]
                                                   if isinstance(h.type, ast.Tuple) else
                                                   [h.type.id] if isinstance(h.type, ast.Name) else [])
                returns_none = any(isinstance(r, ast.Return) and (r.value is None or (isinstance(r.value, ast.Constant)
                                                                                     and r.value.value is None))
                                   for r in h.body)
                if "ValueError" in names and returns_none:
                    caught = True
    g.bool("referrerCatchesValueError", caught,
           "baize/requests.py referrer: a Referer text that URL() rejects with ValueError gives None")
    chunked = [const(n.comparators[0], str) for n in ast.walk(find_func(mix, "content_length"))
               if isinstance(n, ast.Compare) and isinstance(n.ops[0], ast.Eq) and isinstance(n.comparators[0], ast.Constant)
               and isinstance(n.comparators[0].value, str)]
    g.natlist("chunkedLit", cps(_one(chunked, "content_length: transfer-encoding literal")), "content_length: value of transfer-encoding that hides the length")

    # ---- responses
    for rel, tag in ((W_RESP, "W"), (A_RESP, "A")):
        _small_call(g, repo, rel, tag)
    base = parse(repo, "baize/responses.py")
    lh = [n for n in ast.walk(find_class(base, "BaseResponse"))
          if isinstance(n, ast.FunctionDef) and n.name == "list_headers"][-1]   # after the @overload stubs
    codecs = _uniq([const(n.args[0], str) for n in ast.walk(lh)
                    if isinstance(n, ast.Call) and isinstance(n.func, ast.Attribute) and n.func.attr == "encode" and n.args])
    g.string("listHeadersCodec", _one(codecs, "list_headers: encode codec"), "codec of list_headers(as_bytes=True)")
    init = find_func(find_class(base, "BaseResponse"), "__init__")
    g.nat("responseStatus", const(_default_of(init, "status_code", "BaseResponse"), int), "BaseResponse: default status")
    ds = parse(repo, "baize/datastructures.py")
    cb = find_func(find_class(ds, "Cookie"), "__bytes__")
    codecs = [const(n.args[0], str) for n in ast.walk(cb)
              if isinstance(n, ast.Call) and isinstance(n.func, ast.Attribute) and n.func.attr == "encode" and n.args]
    g.string("cookieBytesCodec", _one(codecs, "Cookie.__bytes__: encode codec"), "codec of bytes(cookie)")
    wtree = parse(repo, W_RESP)
    fallback = None
    for n in ast.walk(wtree):
        if isinstance(n, ast.Lambda) and isinstance(n.body, ast.JoinedStr):
            parts = n.body.values
            if (len(parts) == 2 and isinstance(parts[0], ast.FormattedValue) and isinstance(parts[1], ast.Constant)):
                fallback = parts[1].value
    if fallback is None:
        raise ExtractError(W_RESP + ": StatusStringMapping fallback f-string not found")
    g.natlist("statusFallbackSuffix", cps(fallback), "StatusStringMapping: text after the number for an unknown status")

    # ---- routing
    for rel, tag in ((W_ROUTE, "W"), (A_ROUTE, "A")):
        tree = parse(repo, rel)
        router = find_func(find_class(tree, "Router"), "__call__")
        calls = _walk(router, lambda n: isinstance(n, ast.Call) and isinstance(n.func, ast.Name) and n.func.id == "Response")
        g.nat("routerStatus" + tag, const(_one(calls, rel + " Router: Response(...)").args[0], int),
              "%s Router: status when no route matches" % rel)
        stores = [const(n.targets[0].slice, str) for n in ast.walk(router)
                  if isinstance(n, ast.Assign) and isinstance(n.targets[0], ast.Subscript)
                  and isinstance(n.targets[0].slice, ast.Constant)]
        g.natlist("routerParamsKey" + tag, cps(_one(stores, rel + " Router: key receiving path_params")),
                  "%s Router: key receiving the path parameters" % rel)
        hosts = find_func(find_class(tree, "Hosts"), "__call__")
        keys = _get_keys(hosts, rel)
        g.add("hostKey" + tag, "List Nat", lean_natlist(cps(_one(keys, rel + " Hosts: key of the Host value"))),
              "%s Hosts: where the Host value is read" % rel, keys)

    # ---- static files / file response
    for rel, rrel, tag in ((W_STATIC, W_RESP, "W"), (A_STATIC, A_RESP, "A")):
        on304, on200, st304 = _set_headers_position(repo, rel)
        g.bool("setHeadersOn304" + tag, on304, "%s file_response: set_response_headers reaches the 304" % rel)
        g.bool("setHeadersOn200" + tag, on200, "%s file_response: set_response_headers reaches the 200" % rel)
        g.nat("notModifiedStatus" + tag, st304, "%s file_response: status of the not-modified answer" % rel)
        tree = parse(repo, rel)
        for cname in ("Files", "Pages"):
            call = find_func(find_class(tree, cname), "__call__")
            keys = [k for k in _get_keys(call, rel) if k not in ("PATH_INFO",)]
            g.add("cond%sKeys%s" % (cname, tag), "List (List Nat)",
                  "[" + ", ".join(lean_natlist(cps(k)) for k in keys) + "]",
                  "%s %s.__call__: keys of the conditional headers %r" % (rel, cname, keys), keys)
            # the status raised when nothing is served: the raise statements outside every except clause (a raise
            # inside a handler translates a caught error, e.g. the 400 for a Host header that is no authority)
            in_handler = {id(n) for h in ast.walk(call) if isinstance(h, ast.ExceptHandler) for n in ast.walk(h)}
            raises = [n for n in ast.walk(call) if isinstance(n, ast.Raise) and isinstance(n.exc, ast.Call)
                      and isinstance(n.exc.func, ast.Name) and n.exc.func.id == "HTTPException"
                      and id(n) not in in_handler]
            codes = _uniq([const(r.exc.args[0], int) for r in raises])
            g.nat("static%sNotFound%s" % (cname, tag), _one(codes, rel + " %s: raise HTTPException(...)" % cname),
                  "%s %s.__call__: status raised when nothing is served" % (rel, cname))
        fr = find_func(find_class(parse(repo, rrel), "FileResponse"), "__call__")
        keys = [k for k in _get_keys(fr, rrel) if k not in ("REQUEST_METHOD",)]
        g.add("rangeKeys" + tag, "List (List Nat)", "[" + ", ".join(lean_natlist(cps(k)) for k in keys) + "]",
              "%s FileResponse.__call__: keys of Range / If-Range %r" % (rrel, keys), keys)
        heads = [const(n.comparators[0], str) for n in ast.walk(fr)
                 if isinstance(n, ast.Compare) and isinstance(n.ops[0], ast.Eq) and isinstance(n.comparators[0], ast.Constant)
                 and isinstance(n.comparators[0].value, str)]
        g.natlist("headMethod" + tag, cps(_one(heads, rrel + " FileResponse: HEAD literal")),
                  "%s FileResponse.__call__: method that gets headers only" % rrel)
    basef = find_class(parse(repo, "baize/staticfiles.py"), "BaseFiles")
    srh = find_func(basef, "set_response_headers")
    appends = [n for n in ast.walk(srh) if isinstance(n, ast.Call) and isinstance(n.func, ast.Attribute)
               and n.func.attr == "append" and len(n.args) == 2]
    appends.sort(key=lambda n: (n.lineno, n.col_offset))
    items = []
    local = {}
    for n in ast.walk(srh):          # look through one local assignment: `v = f"..."; headers.append(name, v)`
        if isinstance(n, ast.Assign) and len(n.targets) == 1 and isinstance(n.targets[0], ast.Name):
            local[n.targets[0].id] = n.value
    for a in appends:
        value = a.args[1]
        if isinstance(value, ast.Name) and value.id in local:
            value = local[value.id]
        items.append((const(a.args[0], str), _fstring_pieces(value, "set_response_headers value")))
    g.add("cacheHeaders", "List (List Nat × List (Bool × List Nat))",
          "[" + ", ".join("(%s, [%s])" % (lean_natlist(cps(k)), ", ".join(
              "(%s, %s)" % ("true" if h else "false", lean_natlist(cps(t))) for h, t in ps)) for k, ps in items) + "]",
          "set_response_headers: appended (name, value pieces; a hole names an attribute of the app) %r" % (items,), items)
    binit = find_func(basef, "__init__")
    g.natlist("cacheabilityDefault", cps(const(_default_of(binit, "cacheability", "BaseFiles"), str)), "BaseFiles: default cacheability")
    g.nat("maxAgeDefault", _const_int(_default_of(binit, "max_age", "BaseFiles"), "BaseFiles max_age default"), "BaseFiles: default max_age")
    return g


GENERATORS = [gen_equiv]
