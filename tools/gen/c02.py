"""C02: data of the file responses (baize/responses.py, baize/{wsgi,asgi}/responses.py, baize/exceptions.py)

Emits lean/BaizeVerif/Gen/FileResponse.lean:

* the f-string template of the multipart/byteranges part header (the lambda returned by
  `generate_multipart`), the closing line, the per-part trailer, the `Content-Range`
  templates (206 single range, 416), the `multipart/byteranges; boundary=` template;
* `multipartContentLength`: an expression-level translation of the `content_length`
  computation of `generate_multipart` (constants 44 and 5 included) into a Lean `def`
  (supported subset: int literals, `+ - *`, `len(<str>)`, `len(str(<int>))`,
  `sum(<expr> for start, end in ranges)`, local assignments);
* boundary alphabet and `k` of `random_choices` in both interface files;
* the messages of `MalformedRangeHeader` in the order `parse_range` raises them, the two
  status codes.
"""
import ast

from tools.extract import ExtractError, Gen, const, cps, find_class, find_func, lean_natlist, parse

# f-string holes: python name -> (Lean constructor, kind)
HOLES = {
    "boundary": ("boundary", "text"),
    "content_type": ("contentType", "text"),
    "start": ("start", "dec"),
    "end": ("stop", "dec"),
    "max_size": ("maxSize", "dec"),
    "file_size": ("maxSize", "dec"),
}

PRELUDE = """/-- `str`-valued variables an f-string of the file-response code may mention -/
inductive TextHole where
  | boundary | contentType
  deriving DecidableEq, Repr

/-- `int`-valued variables (`end` is `stop`; `max_size` / `file_size` are `maxSize`) -/
inductive IntHole where
  | start | stop | maxSize
  deriving DecidableEq, Repr

/-- one piece of an f-string: literal text, a `str` hole inserted as is, or an `int`
hole `{name - k}` rendered in decimal -/
inductive Piece where
  | lit (s : List Nat)
  | text (h : TextHole)
  | dec (h : IntHole) (minus : Nat)
  deriving DecidableEq, Repr

/-- `len(str(n))` for a non-negative int -/
def decLen (n : Nat) : Nat := (Nat.toDigits 10 n).length
"""


def pieces(node, what):
    """JoinedStr (or plain str Constant) -> list of Lean `Piece` terms"""
    if isinstance(node, ast.Constant) and isinstance(node.value, str):
        return [".lit " + lean_natlist(cps(node.value))]
    if not isinstance(node, ast.JoinedStr):
        raise ExtractError("%s: expected an f-string, got %s" % (what, ast.dump(node)[:60]))
    out = []
    for v in node.values:
        if isinstance(v, ast.Constant) and isinstance(v.value, str):
            out.append(".lit " + lean_natlist(cps(v.value)))
            continue
        if not isinstance(v, ast.FormattedValue) or v.conversion != -1 or v.format_spec is not None:
            raise ExtractError("%s: unsupported f-string piece %s" % (what, ast.dump(v)[:60]))
        e, minus = v.value, 0
        if isinstance(e, ast.BinOp) and isinstance(e.op, ast.Sub) and isinstance(e.right, ast.Constant) \
                and isinstance(e.right.value, int) and e.right.value >= 0:
            e, minus = e.left, e.right.value
        if not isinstance(e, ast.Name) or e.id not in HOLES:
            raise ExtractError("%s: unsupported hole expression %s" % (what, ast.unparse(v.value)))
        ctor, kind = HOLES[e.id]
        if kind == "text":
            if minus:
                raise ExtractError("%s: arithmetic on the text hole %s" % (what, e.id))
            out.append(".text .%s" % ctor)
        else:
            out.append(".dec .%s %d" % (ctor, minus))
    return out


def piece_list(ps):
    return "[" + ", ".join(ps) + "]"


class Expr:
    """python int expression -> Lean Nat expression (subset, see module docstring)"""

    def __init__(self, params, str_params):
        self.env = dict(params)       # python name -> lean term (ints)
        self.strs = dict(str_params)  # python name -> lean term (str values)

    def tr(self, e):
        if isinstance(e, ast.Constant) and isinstance(e.value, int) and not isinstance(e.value, bool) and e.value >= 0:
            return str(e.value)
        if isinstance(e, ast.Name):
            if e.id in self.env:
                return self.env[e.id]
            raise ExtractError("content_length: unknown int name %s" % e.id)
        if isinstance(e, ast.BinOp) and isinstance(e.op, (ast.Add, ast.Sub, ast.Mult)):
            op = {ast.Add: "+", ast.Sub: "-", ast.Mult: "*"}[type(e.op)]
            return "(%s %s %s)" % (self.tr(e.left), op, self.tr(e.right))
        if isinstance(e, ast.Call) and isinstance(e.func, ast.Name) and not e.keywords and len(e.args) == 1:
            a = e.args[0]
            if e.func.id == "len":
                if isinstance(a, ast.Name) and a.id in self.strs:
                    return "%s.length" % self.strs[a.id]
                if isinstance(a, ast.Call) and isinstance(a.func, ast.Name) and a.func.id == "str" \
                        and len(a.args) == 1 and not a.keywords:
                    return "(decLen %s)" % self.tr(a.args[0])
            if e.func.id == "sum" and isinstance(a, ast.GeneratorExp) and len(a.generators) == 1:
                g = a.generators[0]
                if (not g.ifs and not g.is_async and isinstance(g.iter, ast.Name) and g.iter.id == "ranges"
                        and isinstance(g.target, ast.Tuple) and len(g.target.elts) == 2
                        and all(isinstance(t, ast.Name) for t in g.target.elts)):
                    inner = Expr(self.env, self.strs)
                    inner.env[g.target.elts[0].id] = "p.1"
                    inner.env[g.target.elts[1].id] = "p.2"
                    return "((ranges.map fun (p : Nat × Nat) => %s).sum)" % inner.tr(a.elt)
        raise ExtractError("content_length: unsupported expression %s" % ast.unparse(e)[:80])


def gen_file_response(repo):
    """C02: multipart/byteranges templates, content_length formula, boundary alphabet, error data"""
    g = Gen("FileResponse", "baize/responses.py: FileResponseMixin.generate_multipart; "
                            "baize/{wsgi,asgi}/responses.py: FileResponse; baize/exceptions.py")
    g.lines.append(PRELUDE)
    tree = parse(repo, "baize/responses.py")
    mixin = find_class(tree, "FileResponseMixin")

    # ---- generate_multipart: content_length and the part header lambda
    fn = find_func(mixin, "generate_multipart")
    argnames = [a.arg for a in fn.args.args]
    if argnames != ["self", "ranges", "boundary", "max_size", "content_type"]:
        raise ExtractError("generate_multipart: unexpected parameters %s" % argnames)
    ex = Expr({"max_size": "max_size"}, {"boundary": "boundary", "content_type": "content_type"})
    lets = []
    ret = None
    for st in fn.body:
        if isinstance(st, ast.Expr) and isinstance(st.value, ast.Constant) and isinstance(st.value.value, str):
            continue  # docstring
        if isinstance(st, ast.Assign) and len(st.targets) == 1 and isinstance(st.targets[0], ast.Name):
            name = st.targets[0].id
            lets.append("  let %s := %s" % (name, ex.tr(st.value)))
            ex.env[name] = name
        elif isinstance(st, ast.Return):
            ret = st.value
        else:
            raise ExtractError("generate_multipart: unsupported statement %s" % ast.unparse(st)[:60])
    if not (isinstance(ret, ast.Tuple) and len(ret.elts) == 2 and isinstance(ret.elts[1], ast.Lambda)):
        raise ExtractError("generate_multipart: expected `return (content_length, lambda ...)`")
    body = "\n".join(lets + ["  " + ex.tr(ret.elts[0])])
    g.lines.append("/-- `content_length` of generate_multipart, translated expression by expression -/")
    g.lines.append("def multipartContentLength (boundary content_type : List Nat) (max_size : Nat) "
                   "(ranges : List (Nat × Nat)) : Nat :=\n" + body + "\n")
    g.items["FileResponse.multipartContentLength"] = __import__("hashlib").sha1(body.encode()).hexdigest()[:10]
    lam = ret.elts[1]
    if [a.arg for a in lam.args.args] != ["start", "end"]:
        raise ExtractError("generate_multipart: lambda parameters are not (start, end)")
    call = lam.body
    if not (isinstance(call, ast.Call) and isinstance(call.func, ast.Attribute) and call.func.attr == "encode"
            and len(call.args) == 1):
        raise ExtractError("generate_multipart: lambda body is not <f-string>.encode(<codec>)")
    ps = pieces(call.func.value, "part header")
    g.add("partHeaderTemplate", "List Piece", piece_list(ps), "f-string of the part header (lambda start, end)", ps)
    g.string("partHeaderEncoding", const(call.args[0], str), "codec of the part header")

    # ---- the two interface files
    for side, rel in (("Wsgi", "baize/wsgi/responses.py"), ("Asgi", "baize/asgi/responses.py")):
        t = parse(repo, rel)
        cls = find_class(t, "FileResponse")
        sev = find_func(cls, "handle_several_ranges")
        alphabet = k = closing = mtype = None
        for node in ast.walk(sev):
            if isinstance(node, ast.Call) and isinstance(node.func, ast.Name) and node.func.id == "random_choices":
                alphabet = const(node.args[0], str)
                ks = [kw.value for kw in node.keywords if kw.arg == "k"]
                k = const(ks[0], int) if ks else None
            if isinstance(node, ast.Call) and isinstance(node.func, ast.Attribute) and node.func.attr == "encode" \
                    and isinstance(node.func.value, ast.JoinedStr):
                if closing is not None:
                    raise ExtractError("%s handle_several_ranges: more than one encoded f-string" % side)
                closing = pieces(node.func.value, "closing line")
            if isinstance(node, ast.Assign) and len(node.targets) == 1 and isinstance(node.targets[0], ast.Subscript) \
                    and isinstance(node.targets[0].slice, ast.Constant) and node.targets[0].slice.value == "content-type":
                mtype = pieces(node.value, "multipart content-type")
        if alphabet is None or k is None:
            raise ExtractError("%s handle_several_ranges: random_choices(<alphabet>, k=<int>) not found" % side)
        if closing is None or mtype is None:
            raise ExtractError("%s handle_several_ranges: closing line / content-type f-string not found" % side)
        loops = [n for n in ast.walk(sev) if isinstance(n, ast.For) and isinstance(n.iter, ast.Name)
                 and n.iter.id == "ranges"]
        if len(loops) != 1:
            raise ExtractError("%s handle_several_ranges: `for start, end in ranges` not found" % side)
        trailers = []
        for st in loops[0].body:  # direct statements of the loop body only
            if isinstance(st, ast.Expr):
                v = st.value
                if isinstance(v, ast.Await):
                    v = v.value
                if isinstance(v, ast.Yield) and isinstance(v.value, ast.Constant) and isinstance(v.value.value, bytes):
                    trailers.append(v.value.value)
                if isinstance(v, ast.Call):
                    trailers += [a.value for a in v.args if isinstance(a, ast.Constant) and isinstance(a.value, bytes)]
        if len(trailers) > 1:
            raise ExtractError("%s handle_several_ranges: several byte literals in the loop body" % side)
        g.natlist("boundaryAlphabet" + side, cps(alphabet), "population handed to random_choices")
        g.nat("boundaryK" + side, k, "k= of random_choices")
        g.add("closingTemplate" + side, "List Piece", piece_list(closing), "closing line of the multipart body", closing)
        g.add("multipartTypeTemplate" + side, "List Piece", piece_list(mtype), "content-type of a multipart answer", mtype)
        g.natlist("partTrailer" + side, cps(trailers[0]) if trailers else [],
                  "bytes sent after the content of every part (empty: none are sent)")
        single = find_func(cls, "handle_single_range")
        cr = None
        for node in ast.walk(single):
            if isinstance(node, ast.Assign) and len(node.targets) == 1 and isinstance(node.targets[0], ast.Subscript) \
                    and isinstance(node.targets[0].slice, ast.Constant) and node.targets[0].slice.value == "content-range":
                cr = pieces(node.value, "content-range")
        if cr is None:
            raise ExtractError("%s handle_single_range: content-range f-string not found" % side)
        g.add("contentRangeTemplate" + side, "List Piece", piece_list(cr), "Content-Range of a single-range 206", cr)

    # ---- error data
    pr = find_func(mixin, "parse_range")
    raises = sorted((n for n in ast.walk(pr) if isinstance(n, ast.Raise) and isinstance(n.exc, ast.Call)
                     and isinstance(n.exc.func, ast.Name) and n.exc.func.id == "MalformedRangeHeader"),
                    key=lambda n: (n.lineno, n.col_offset))
    et = parse(repo, "baize/exceptions.py")
    mal = find_func(find_class(et, "MalformedRangeHeader"), "__init__")
    if not mal.args.defaults:
        raise ExtractError("MalformedRangeHeader.__init__: no default message")
    default_msg = const(mal.args.defaults[-1], str)
    msgs = []
    for r in raises:
        if r.exc.args:
            msgs.append(const(r.exc.args[0], str))
        else:
            msgs.append(default_msg)
    g.add("malformedMessages", "List (List Nat)", "[" + ", ".join(lean_natlist(cps(m)) for m in msgs) + "]",
          "MalformedRangeHeader messages in the order parse_range raises them: %r" % (msgs,), msgs)
    base = find_func(find_class(et, "HTTPException"), "__init__")
    names = [a.arg for a in base.args.args]
    defaults = dict(zip(names[len(names) - len(base.args.defaults):], base.args.defaults))
    g.nat("malformedStatus", const(defaults["status_code"], int), "HTTPException default status (MalformedRangeHeader)")
    rns = find_func(find_class(et, "RangeNotSatisfiable"), "__init__")
    sup = [n for n in ast.walk(rns) if isinstance(n, ast.Call) and isinstance(n.func, ast.Attribute)
           and n.func.attr == "__init__"]
    if len(sup) != 1 or len(sup[0].args) != 3 or not isinstance(sup[0].args[1], ast.Dict) \
            or len(sup[0].args[1].keys) != 1:
        raise ExtractError("RangeNotSatisfiable: super().__init__(status, {name: value}, content) not found")
    g.nat("unsatStatus", const(sup[0].args[0], int), "status of RangeNotSatisfiable")
    g.natlist("unsatHeaderName", cps(const(sup[0].args[1].keys[0], str)), "header name sent with the 416")
    ur = pieces(sup[0].args[1].values[0], "416 content-range")
    g.add("unsatValueTemplate", "List Piece", piece_list(ur), "header value sent with the 416", ur)
    if const(sup[0].args[2]) is not None:
        raise ExtractError("RangeNotSatisfiable: content is not None")
    return g


GENERATORS = [gen_file_response]
