"""C05: the constants and shapes the gateway-protocol model is written over.

  baize/wsgi/responses.py   StatusStringMapping (table comprehension + fallback f-string), SmallResponse.__call__,
                            StreamResponse.__init__, SendEventResponse.__init__, FileResponse (range-error path)
  baize/asgi/responses.py   the twins, and the header comprehension of the range-error path
  baize/asgi/helper.py      the two message dict literals
  baize/responses.py        BaseResponse.list_headers (codecs, set-cookie name), generate_common_headers
                            (Content-Disposition f-string, the ASCII fallback of filename="...")
  baize/datastructures.py   Cookie.__bytes__ (codec)
  http.HTTPStatus           (code, phrase) table of the RUNNING interpreter (trusted; recorded)
"""
import ast
import inspect
import urllib.parse
from http import HTTPStatus

from tools.extract import ExtractError, Gen, const, cps, find_assign, find_class, find_func, lean_natlist, lean_str, parse


def _is_fv(node, name):
    """FormattedValue of a plain `{name}` / `{a.b}` without conversion or format spec"""
    return (isinstance(node, ast.FormattedValue) and node.conversion == -1 and node.format_spec is None
            and ast.unparse(node.value) == name)


def _status_mapping(repo, g):
    tree = parse(repo, "baize/wsgi/responses.py")
    call = find_assign(tree, "StatusStringMapping")
    if not (isinstance(call, ast.Call) and ast.unparse(call.func) == "defaultdict" and len(call.args) == 2):
        raise ExtractError("StatusStringMapping is not defaultdict(<lambda>, <dict comprehension>)")
    lam, comp = call.args
    if not (isinstance(lam, ast.Lambda) and len(lam.args.args) == 1 and isinstance(lam.body, ast.JoinedStr)):
        raise ExtractError("StatusStringMapping: default factory is not `lambda status: f\"...\"`")
    arg = lam.args.args[0].arg
    v = lam.body.values
    if not (len(v) == 2 and _is_fv(v[0], arg) and isinstance(v[1], ast.Constant)):
        raise ExtractError("StatusStringMapping: fallback is not f\"{status}<literal>\"")
    g.natlist("statusFallbackSuffix", cps(v[1].value), "fallback status line: f\"{status}%s\"" % v[1].value)
    if not (isinstance(comp, ast.DictComp) and len(comp.generators) == 1
            and ast.unparse(comp.generators[0].iter) == "HTTPStatus" and not comp.generators[0].ifs):
        raise ExtractError("StatusStringMapping: table is not {... for status in HTTPStatus}")
    var = ast.unparse(comp.generators[0].target)
    if ast.unparse(comp.key) != "int(%s)" % var:
        raise ExtractError("StatusStringMapping: key is not int(status)")
    w = comp.value.values if isinstance(comp.value, ast.JoinedStr) else []
    if not (len(w) == 3 and _is_fv(w[0], var) and isinstance(w[1], ast.Constant) and _is_fv(w[2], var + ".phrase")):
        raise ExtractError("StatusStringMapping: value is not f\"{status}<sep>{status.phrase}\"")
    g.natlist("statusKnownSep", cps(w[1].value), "known status line: f\"{status}%s{status.phrase}\"" % w[1].value)
    table = {}
    for s in HTTPStatus:
        table[int(s)] = s.phrase
    rows = sorted(table.items())
    g.add("httpStatusTable", "List (Nat × List Nat)",
          "[" + ", ".join("(%d, %s)" % (c, lean_natlist(cps(p))) for c, p in rows) + "]",
          "(int(status), status.phrase) for status in http.HTTPStatus of the running interpreter (%d entries)"
          % len(rows), rows)


def _codec_of_encode(node, what):
    """`<expr>.encode("<codec>")` -> (<expr>, codec)"""
    if (isinstance(node, ast.Call) and isinstance(node.func, ast.Attribute) and node.func.attr == "encode"
            and len(node.args) == 1 and not node.keywords):
        return node.func.value, const(node.args[0], str)
    raise ExtractError("%s: expected <expr>.encode(<codec literal>), got %s" % (what, ast.unparse(node)[:60]))


def _list_headers(repo, g):
    tree = parse(repo, "baize/responses.py")
    fn = None
    for node in find_class(tree, "BaseResponse").body:   # the last def is the implementation (after the overloads)
        if isinstance(node, ast.FunctionDef) and node.name == "list_headers":
            fn = node
    if fn is None:
        raise ExtractError("BaseResponse.list_headers not found")
    test = [n for n in fn.body if isinstance(n, ast.If)]
    if len(test) != 1 or ast.unparse(test[0].test) != "as_bytes":
        raise ExtractError("list_headers: `if as_bytes:` not found")

    def parts(stmts, what):
        if not (len(stmts) == 1 and isinstance(stmts[0], ast.Return) and isinstance(stmts[0].value, ast.List)
                and len(stmts[0].value.elts) == 2 and all(isinstance(e, ast.Starred) for e in stmts[0].value.elts)):
            raise ExtractError("list_headers (%s): not `return [*<headers>, *<cookies>]`" % what)
        return [e.value for e in stmts[0].value.elts]

    bh, bc = parts(test[0].body, "bytes")
    sh, sc = parts(test[0].orelse, "str")
    # the header lines are `self.headers.items()`, directly or through `BaseResponse.header_lines()` (the hook
    # that the middleware's NextResponse overrides to keep repeated lines apart; its default must be the mapping's items)
    lines_src = ["self.headers.items()"]
    hl = [n for n in find_class(tree, "BaseResponse").body
          if isinstance(n, ast.FunctionDef) and n.name == "header_lines"]
    if hl:
        body = [n for n in hl[0].body if not (isinstance(n, ast.Expr) and isinstance(n.value, ast.Constant))]
        if not (len(body) == 1 and isinstance(body[0], ast.Return)
                and ast.unparse(body[0].value) == "self.headers.items()"):
            raise ExtractError("BaseResponse.header_lines does not return self.headers.items()")
        lines_src.append("self.header_lines()")
    if not (isinstance(bh, ast.GeneratorExp) and isinstance(bh.elt, ast.Tuple) and len(bh.elt.elts) == 2
            and ast.unparse(bh.generators[0].iter) in lines_src):
        raise ExtractError("list_headers (bytes): headers part is not a generator over self.headers.items()")
    kv = [ast.unparse(t) for t in bh.generators[0].target.elts]
    codecs = []
    for elt, name in zip(bh.elt.elts, kv):
        src, codec = _codec_of_encode(elt, "list_headers")
        if ast.unparse(src) != name:
            raise ExtractError("list_headers (bytes): %s is transformed before encoding" % name)
        codecs.append(codec)
    g.add("headerCodecs", "List String", "[" + ", ".join(lean_str(c) for c in codecs) + "]",
          "codecs of key and value in list_headers(as_bytes=True)", codecs)
    if ast.unparse(sh) not in lines_src:
        raise ExtractError("list_headers (str): headers part is not self.headers.items()")
    for node, typ, conv, label in ((bc, bytes, "bytes(cookie)", "Bytes"), (sc, str, "str(cookie)", "Str")):
        if not (isinstance(node, ast.GeneratorExp) and isinstance(node.elt, ast.Tuple) and len(node.elt.elts) == 2
                and ast.unparse(node.generators[0].iter) == "self.cookies"
                and ast.unparse(node.elt.elts[1]) == conv):
            raise ExtractError("list_headers: cookie part is not ((<name>, %s) for cookie in self.cookies)" % conv)
        g.natlist("setCookieName" + label, cps(const(node.elt.elts[0], typ)),
                  "name of the cookie lines (%s branch)" % label.lower())
    ctree = parse(repo, "baize/datastructures.py")
    fb = find_func(find_class(ctree, "Cookie"), "__bytes__")
    if not (len(fb.body) == 1 and isinstance(fb.body[0], ast.Return)):
        raise ExtractError("Cookie.__bytes__ is not a single return")
    src, codec = _codec_of_encode(fb.body[0].value, "Cookie.__bytes__")
    if ast.unparse(src) != "str(self)":
        raise ExtractError("Cookie.__bytes__ does not encode str(self)")
    g.string("cookieCodec", codec, "codec of Cookie.__bytes__")


def _helper(repo, g):
    tree = parse(repo, "baize/asgi/helper.py")

    def dict_literal(fn):
        for node in ast.walk(fn):
            if isinstance(node, ast.Dict) and any(isinstance(k, ast.Constant) and k.value == "type" for k in node.keys):
                return node
        raise ExtractError("%s: message dict literal not found" % fn.name)

    start = find_func(tree, "send_http_start")
    d = dict_literal(start)
    items = {const(k, str): v for k, v in zip(d.keys, d.values)}
    g.string("startType", const(items["type"], str), "type of the message built by send_http_start")
    extra = sorted(k for k in items if k != "type")
    opt = []
    for node in ast.walk(start):
        if (isinstance(node, ast.Assign) and len(node.targets) == 1 and isinstance(node.targets[0], ast.Subscript)
                and ast.unparse(node.targets[0].value) == "message"):
            opt.append(const(node.targets[0].slice, str))
    g.add("startKeys", "List String", "[" + ", ".join(lean_str(k) for k in extra + sorted(opt)) + "]",
          "other keys of the start message (literal, then assigned)", extra + sorted(opt))
    if ast.unparse(items.get("status")) != "status_code":
        raise ExtractError("send_http_start: status is not the status_code argument")
    body = find_func(tree, "send_http_body")
    d = dict_literal(body)
    items = {const(k, str): ast.unparse(v) for k, v in zip(d.keys, d.values)}
    g.string("bodyType", ast.literal_eval(items.pop("type")), "type of the message built by send_http_body")
    rows = sorted(items.items())
    g.add("bodyKeys", "List (String × String)", "[" + ", ".join("(%s, %s)" % (lean_str(k), lean_str(v)) for k, v in rows) + "]",
          "other keys of the body message and the argument each carries", rows)
    dflt = {a.arg: ast.unparse(d) for a, d in zip(body.args.kwonlyargs, body.args.kw_defaults) if d is not None}
    pos = body.args.args[-len(body.args.defaults):] if body.args.defaults else []
    dflt.update({a.arg: ast.unparse(d) for a, d in zip(pos, body.args.defaults)})
    rows = sorted(dflt.items())
    g.add("bodyDefaults", "List (String × String)", "[" + ", ".join("(%s, %s)" % (lean_str(k), lean_str(v)) for k, v in rows) + "]",
          "defaults of send_http_body (an argument-less call is the final empty body)", rows)


def _small(repo, g, side):
    rel = "baize/%s/responses.py" % side
    tree = parse(repo, rel)
    cls = find_class(tree, "SmallResponse")
    call = find_func(cls, "__call__")
    ifs = [n for n in call.body if isinstance(n, ast.If)]
    if len(ifs) != 2:
        raise ExtractError("%s: SmallResponse.__call__ does not have exactly two top-level ifs" % rel)
    t0 = ast.unparse(ifs[0].test)
    name_len = None
    for node in ast.walk(ifs[0]):
        if isinstance(node, ast.Assign) and isinstance(node.targets[0], ast.Subscript) \
                and ast.unparse(node.targets[0].value) == "self.headers":
            name_len = const(node.targets[0].slice, str)
    if name_len is None or t0 != "body and %r not in self.headers" % name_len:
        raise ExtractError("%s: content-length rule is not `if body and <name> not in self.headers`" % rel)
    g.natlist("smallLengthName_" + side, cps(name_len), "header stored for a non-empty body")
    if not any(isinstance(n, ast.Assign) and ast.unparse(n.value) == "str(len(body))" for n in ast.walk(ifs[0])):
        raise ExtractError("%s: content-length value is not str(len(body))" % rel)
    name_ct = None
    for st in ifs[1].body:
        if isinstance(st, ast.Assign) and isinstance(st.targets[0], ast.Subscript) \
                and ast.unparse(st.targets[0].value) == "self.headers":
            name_ct = const(st.targets[0].slice, str)
    if name_ct is None or ast.unparse(ifs[1].test) != "content_type and %r not in self.headers" % name_ct:
        raise ExtractError("%s: content-type rule is not `if content_type and <name> not in self.headers`" % rel)
    g.natlist("smallTypeName_" + side, cps(name_ct), "header stored for a non-empty media type")
    inner = [n for n in ifs[1].body if isinstance(n, ast.If)]
    if len(inner) != 1:
        raise ExtractError("%s: charset rule not found" % rel)
    test = inner[0].test
    if not (isinstance(test, ast.Call) and ast.unparse(test.func) == "content_type.startswith" and len(test.args) == 1):
        raise ExtractError("%s: charset rule is not content_type.startswith(<literal>)" % rel)
    g.natlist("textPrefix_" + side, cps(const(test.args[0], str)), "media types that get a charset parameter")
    aug = inner[0].body[0]
    if not (isinstance(aug, ast.AugAssign) and isinstance(aug.op, ast.Add) and isinstance(aug.value, ast.BinOp)
            and isinstance(aug.value.op, ast.Add) and ast.unparse(aug.value.right) == "self.charset"):
        raise ExtractError("%s: charset rule is not content_type += <literal> + self.charset" % rel)
    g.natlist("charsetJoin_" + side, cps(const(aug.value.left, str)), "text between media type and charset")
    g.natlist("defaultCharset_" + side, cps(const(find_assign(cls, "charset"), str)), "SmallResponse.charset")
    for name in ("PlainTextResponse", "HTMLResponse", "JSONResponse"):
        g.natlist("mediaType_%s_%s" % (name, side), cps(const(find_assign(find_class(tree, name), "media_type"), str)),
                  "%s.media_type" % name)
    # StreamResponse.__init__: self.headers[<key>] = content_type, default of content_type
    init = find_func(find_class(tree, "StreamResponse"), "__init__")
    key = None
    for st in init.body:
        if isinstance(st, ast.Assign) and isinstance(st.targets[0], ast.Subscript) \
                and ast.unparse(st.targets[0].value) == "self.headers" and ast.unparse(st.value) == "content_type":
            key = const(st.targets[0].slice, str)
    if key is None:
        raise ExtractError("%s: StreamResponse.__init__ does not store content_type in self.headers" % rel)
    g.natlist("streamTypeKey_" + side, cps(key), "key under which StreamResponse stores its content type")
    args = init.args
    dflt = dict(zip([a.arg for a in args.args[-len(args.defaults):]], args.defaults))
    g.natlist("streamDefaultType_" + side, cps(const(dflt["content_type"], str)), "default content_type of StreamResponse")
    sinit = find_func(find_class(tree, "SendEventResponse"), "__init__")
    kw = dict(zip([a.arg for a in sinit.args.kwonlyargs], sinit.args.kw_defaults))
    g.natlist("sseDefaultCharset_" + side, cps(const(kw["charset"], str)), "default charset of SendEventResponse")
    # Response.__call__: the final chunk
    rcall = find_func(find_class(tree, "Response"), "__call__")
    if side == "wsgi":
        ret = [n for n in rcall.body if isinstance(n, ast.Return)]
        if not (len(ret) == 1 and isinstance(ret[0].value, ast.Tuple) and len(ret[0].value.elts) == 1):
            raise ExtractError("wsgi Response.__call__ does not return a one-element tuple")
        g.natlist("emptyBodyChunk_wsgi", cps(const(ret[0].value.elts[0], bytes)), "the only chunk of Response.__call__")
    # FileResponse.__init__: fallback content type
    finit = find_func(find_class(tree, "FileResponse"), "__init__")
    lit = None
    for node in ast.walk(finit):
        if isinstance(node, ast.BoolOp) and isinstance(node.op, ast.Or) and isinstance(node.values[-1], ast.Constant) \
                and ast.unparse(node.values[0]) == "content_type":
            lit = node.values[-1].value
            if len(node.values) != 3 or not ast.unparse(node.values[1]).startswith("guess_type("):
                raise ExtractError("%s: FileResponse content type is not `content_type or guess_type(...)[0] or <lit>`" % rel)
    if lit is None:
        raise ExtractError("%s: FileResponse content type fallback not found" % rel)
    g.natlist("fileDefaultType_" + side, cps(lit), "content type of a file whose type cannot be guessed")


def _error_path(repo, g):
    # ASGI: send_http_start(send, exception.status_code, [(k...encode, v...encode) for k, v in (exception.headers or {}).items()])
    tree = parse(repo, "baize/asgi/responses.py")
    call = find_func(find_class(tree, "FileResponse"), "__call__")
    handler = [n for n in ast.walk(call) if isinstance(n, ast.ExceptHandler)]
    if len(handler) != 1:
        raise ExtractError("asgi FileResponse.__call__: expected one except handler")
    comp = [n for n in ast.walk(handler[0]) if isinstance(n, ast.ListComp)]
    if len(comp) != 1 or ast.unparse(comp[0].generators[0].iter) != "(exception.headers or {}).items()":
        raise ExtractError("asgi range-error path: header comprehension over (exception.headers or {}).items() not found")
    k, v = [ast.unparse(t) for t in comp[0].generators[0].target.elts]
    ksrc, kcodec = _codec_of_encode(comp[0].elt.elts[0], "asgi range-error path (name)")
    vsrc, vcodec = _codec_of_encode(comp[0].elt.elts[1], "asgi range-error path (value)")
    ksrc, vsrc = ast.unparse(ksrc), ast.unparse(vsrc)
    if ksrc == k + ".lower()":
        lowers = True
    elif ksrc == k:
        lowers = False
    else:
        raise ExtractError("asgi range-error path: header name is %s" % ksrc)
    if vsrc != v:
        raise ExtractError("asgi range-error path: header value is %s" % vsrc)
    g.bool("asgiErrorLowersName", lowers, "the name is lower-cased before it is encoded")
    g.add("asgiErrorCodecs", "List String", "[%s, %s]" % (lean_str(kcodec), lean_str(vcodec)),
          "codecs of name and value on the range-error path", [kcodec, vcodec])
    wtree = parse(repo, "baize/wsgi/responses.py")
    wcall = find_func(find_class(wtree, "FileResponse"), "__call__")
    wh = [n for n in ast.walk(wcall) if isinstance(n, ast.ExceptHandler)]
    if len(wh) != 1:
        raise ExtractError("wsgi FileResponse.__call__: expected one except handler")
    sr = [n for n in ast.walk(wh[0]) if isinstance(n, ast.Call) and ast.unparse(n.func) == "start_response"]
    if len(sr) != 1 or len(sr[0].args) != 2:
        raise ExtractError("wsgi range-error path: start_response(<status>, <headers>) not found")
    raw = ast.unparse(sr[0].args[1]) == "[*(exception.headers or {}).items()]"
    if not raw:
        raise ExtractError("wsgi range-error path: headers are %s" % ast.unparse(sr[0].args[1])[:80])
    g.bool("wsgiErrorRawItems", raw, "start_response receives the exception's header items as they are")
    if ast.unparse(sr[0].args[0]) != "StatusStringMapping[exception.status_code]":
        raise ExtractError("wsgi range-error path: status is not StatusStringMapping[exception.status_code]")
    bodies = set()
    for h in (handler[0], wh[0]):
        for n in ast.walk(h):
            if isinstance(n, ast.Call) and isinstance(n.func, ast.Attribute) and n.func.attr == "encode" \
                    and ast.unparse(n.func.value) == "exception.content":
                bodies.add(const(n.args[0], str))
    if len(bodies) != 1:
        raise ExtractError("range-error path: body codecs %r" % (bodies,))
    g.string("errorBodyCodec", bodies.pop(), "codec of the error text")


def _disposition(repo, g):
    tree = parse(repo, "baize/responses.py")
    fn = find_func(find_class(tree, "FileResponseMixin"), "generate_common_headers")
    cond = [n for n in fn.body if isinstance(n, ast.If)]
    if len(cond) != 1:
        raise ExtractError("generate_common_headers: expected one `if`")
    test = cond[0].test
    if not (isinstance(test, ast.BoolOp) and isinstance(test.op, ast.Or) and ast.unparse(test.values[0]) == "download_name"
            and isinstance(test.values[1], ast.Compare) and ast.unparse(test.values[1].left) == "content_type"
            and isinstance(test.values[1].ops[0], ast.Eq)):
        raise ExtractError("generate_common_headers: condition is not `download_name or content_type == <literal>`")
    g.natlist("dispositionType", cps(const(test.values[1].comparators[0], str)),
              "content type that gets a Content-Disposition without download_name")
    body = cond[0].body
    if ast.unparse(body[0]) != "download_name = download_name or os.path.basename(filepath)":
        raise ExtractError("generate_common_headers: name is not `download_name or os.path.basename(filepath)`")
    # fallback_name = "".join(char if LO <= char <= HI and char not in EXCL else REPL for char in download_name)
    fb = None
    for st in body:
        if isinstance(st, ast.Assign) and ast.unparse(st.targets[0]) == "fallback_name":
            fb = st.value
    if not (isinstance(fb, ast.Call) and isinstance(fb.func, ast.Attribute) and fb.func.attr == "join"
            and const(fb.func.value, str) == "" and len(fb.args) == 1 and isinstance(fb.args[0], ast.GeneratorExp)):
        raise ExtractError("generate_common_headers: fallback_name = \"\".join(<generator>) not found")
    ge = fb.args[0]
    var = ast.unparse(ge.generators[0].target)
    if ast.unparse(ge.generators[0].iter) != "download_name" or ge.generators[0].ifs or not isinstance(ge.elt, ast.IfExp):
        raise ExtractError("generate_common_headers: fallback generator has an unexpected shape")
    t = ge.elt.test
    ok = (ast.unparse(ge.elt.body) == var and isinstance(t, ast.BoolOp) and isinstance(t.op, ast.And) and len(t.values) == 2)
    if ok:
        rng_, excl = t.values
        ok = (isinstance(rng_, ast.Compare) and len(rng_.ops) == 2 and all(isinstance(o, ast.LtE) for o in rng_.ops)
              and ast.unparse(rng_.comparators[0]) == var and isinstance(excl, ast.Compare)
              and isinstance(excl.ops[0], ast.NotIn) and ast.unparse(excl.left) == var)
    if not ok:
        raise ExtractError("generate_common_headers: fallback test is not `LO <= c <= HI and c not in EXCL`")
    lo, hi = const(rng_.left, str), const(rng_.comparators[1], str)
    if len(lo) != 1 or len(hi) != 1:
        raise ExtractError("generate_common_headers: fallback bounds are not single characters")
    g.nat("fallbackLo", ord(lo), "lowest character kept in filename=\"...\" (%r)" % lo)
    g.nat("fallbackHi", ord(hi), "highest character kept (%r)" % hi)
    g.natlist("fallbackExcluded", cps(const(excl.comparators[0], str)), "kept range minus these")
    g.natlist("fallbackReplacement", cps(const(ge.elt.orelse, str)), "what replaces every other character")
    js = None
    for st in body:
        if isinstance(st, ast.Assign) and ast.unparse(st.targets[0]) == "content_disposition":
            js = st.value
    if not isinstance(js, ast.JoinedStr):
        raise ExtractError("generate_common_headers: content_disposition is not an f-string")
    v = js.values
    if not (len(v) == 4 and isinstance(v[0], ast.Constant) and _is_fv(v[1], "fallback_name") and isinstance(v[2], ast.Constant)
            and isinstance(v[3], ast.FormattedValue) and v[3].conversion == -1 and v[3].format_spec is None):
        raise ExtractError("generate_common_headers: f-string is not <lit>{fallback_name}<lit>{quote(download_name)}")
    q = v[3].value
    if not (isinstance(q, ast.Call) and ast.unparse(q.func) == "quote" and len(q.args) == 1
            and ast.unparse(q.args[0]) == "download_name"):
        raise ExtractError("generate_common_headers: extended value is not quote(download_name...)")
    safe = None
    for kw in q.keywords:
        if kw.arg == "safe":
            safe = const(kw.value, str)
        else:
            raise ExtractError("generate_common_headers: quote(..., %s=...) is not modelled" % kw.arg)
    if safe is None:
        safe = inspect.signature(urllib.parse.quote).parameters["safe"].default
    g.natlist("dispositionPrefix", cps(v[0].value), "text before the fallback name")
    g.natlist("dispositionMiddle", cps(v[2].value), "text between the fallback name and the percent-encoded name")
    g.natlist("dispositionSafe", cps(safe), "safe= of quote(download_name) (default of the running interpreter if not given)")
    key = None
    for st in body:
        if isinstance(st, ast.Assign) and isinstance(st.targets[0], ast.Subscript) \
                and ast.unparse(st.targets[0].value) == "headers" and ast.unparse(st.value) == "content_disposition":
            key = const(st.targets[0].slice, str)
    if key is None:
        raise ExtractError("generate_common_headers: headers[<name>] = content_disposition not found")
    g.natlist("dispositionName", cps(key), "header that carries it")


def gen_gateway(repo):
    """C05: status line formats and table, header codecs, message types, small-response rules, error path, disposition"""
    g = Gen("Gateway", "baize/{wsgi,asgi}/responses.py, baize/asgi/helper.py, baize/responses.py, "
                       "baize/datastructures.py (Cookie.__bytes__); http.HTTPStatus of the running interpreter")
    _status_mapping(repo, g)
    _list_headers(repo, g)
    _helper(repo, g)
    _small(repo, g, "wsgi")
    _small(repo, g, "asgi")
    _error_path(repo, g)
    _disposition(repo, g)
    return g


GENERATORS = [gen_gateway]
