"""C10: data of the request-body machinery (cached_property, wsgi/asgi Request.stream/body/json/form/close)"""
import ast

from tools.extract import ExtractError, Gen, const, find_class, find_func, parse


def _consumed_message(fn, what):
    """the literal of `raise RuntimeError(<literal>)` guarded by `if self._stream_consumed`"""
    for node in ast.walk(fn):
        if isinstance(node, ast.If) and isinstance(node.test, ast.Attribute) \
                and node.test.attr == "_stream_consumed":
            for sub in node.body:
                if isinstance(sub, ast.Raise) and isinstance(sub.exc, ast.Call) \
                        and isinstance(sub.exc.func, ast.Name) and len(sub.exc.args) == 1:
                    return sub.exc.func.id, const(sub.exc.args[0], str)
    raise ExtractError("%s: `if self._stream_consumed: raise X(<literal>)` not found" % what)


def _sets_consumed_before_first_read(fn, what, reader):
    """True iff `self._stream_consumed = True` is a top-level statement of stream() that precedes
    the first statement containing a call of `reader` (read / _receive)"""
    seen_flag = False
    for stmt in fn.body:
        if isinstance(stmt, ast.Assign) and len(stmt.targets) == 1 \
                and isinstance(stmt.targets[0], ast.Attribute) \
                and stmt.targets[0].attr == "_stream_consumed" \
                and isinstance(stmt.value, ast.Constant) and stmt.value.value is True:
            seen_flag = True
        for node in ast.walk(stmt):
            if isinstance(node, ast.Call) and isinstance(node.func, ast.Attribute) and node.func.attr == reader:
                return seen_flag
    raise ExtractError("%s: no call of %s found" % (what, reader))


def _decorated(cls, names, decorator):
    out = {}
    for node in cls.body:
        if isinstance(node, (ast.FunctionDef, ast.AsyncFunctionDef)) and node.name in names:
            decs = [d.id for d in node.decorator_list if isinstance(d, ast.Name)]
            out[node.name] = decorator in decs
    for n in names:
        if n not in out:
            raise ExtractError("Request.%s not found" % n)
    return out


def _int_expr(node):
    """constant-fold an integer expression made of literals and * + -"""
    if isinstance(node, ast.Constant) and isinstance(node.value, int):
        return node.value
    if isinstance(node, ast.BinOp):
        a, b = _int_expr(node.left), _int_expr(node.right)
        if isinstance(node.op, ast.Mult):
            return a * b
        if isinstance(node.op, ast.Add):
            return a + b
        if isinstance(node.op, ast.Sub):
            return a - b
    raise ExtractError("unsupported integer expression %s" % ast.dump(node)[:80])


def _dict_test_uses_done(test, key):
    """`"<key>" in self.__dict__` -> (found, and-ed with `.done()`)"""
    found = False
    done = False
    for node in ast.walk(test):
        if isinstance(node, ast.Compare) and isinstance(node.left, ast.Constant) and node.left.value == key \
                and len(node.ops) == 1 and isinstance(node.ops[0], ast.In):
            found = True
        if isinstance(node, ast.Call) and isinstance(node.func, ast.Attribute) and node.func.attr == "done":
            done = True
    return found, done


def _first_if(fn, key, what):
    for stmt in fn.body:
        if isinstance(stmt, ast.If):
            found, done = _dict_test_uses_done(stmt.test, key)
            if found:
                return stmt, done
    raise ExtractError("%s: `if \"%s\" in self.__dict__` not found" % (what, key))


def _yields(stmts):
    """the yielded expressions of a statement list, in order: 'empty' for b"", 'expr' otherwise"""
    out = []
    for stmt in stmts:
        if isinstance(stmt, ast.Expr) and isinstance(stmt.value, ast.Yield):
            v = stmt.value.value
            out.append("empty" if isinstance(v, ast.Constant) and v.value == b"" else "expr")
    return out


def gen_body(repo):
    """C10: constants and shapes of the body cache"""
    g = Gen("Body", "baize/utils.py cached_property; baize/wsgi/requests.py, baize/asgi/requests.py: Request")
    wtree = parse(repo, "baize/wsgi/requests.py")
    atree = parse(repo, "baize/asgi/requests.py")
    wreq = find_class(wtree, "Request")
    areq = find_class(atree, "Request")
    wstream = find_func(wreq, "stream")
    astream = find_func(areq, "stream")

    # the documented error
    wcls, wmsg = _consumed_message(wstream, "wsgi Request.stream")
    acls, amsg = _consumed_message(astream, "asgi Request.stream")
    g.string("wsgiConsumedClass", wcls, "exception class raised by wsgi stream() on a consumed stream")
    g.string("wsgiConsumedMsg", wmsg, "its message")
    g.string("asgiConsumedClass", acls, "exception class raised by asgi stream() on a consumed stream")
    g.string("asgiConsumedMsg", amsg, "its message")

    # default chunk size of wsgi stream()
    defaults = wstream.args.defaults
    names = [a.arg for a in wstream.args.args]
    if "chunk_size" not in names or not defaults:
        raise ExtractError("wsgi Request.stream: chunk_size default not found")
    g.nat("wsgiChunkDefault", _int_expr(defaults[-1]), "default of stream(chunk_size=...) (used by .body)")

    # which accessors are cached_property
    wdec = _decorated(wreq, ["body", "json", "form", "stream", "close"], "cached_property")
    adec = _decorated(areq, ["body", "json", "form", "stream", "close"], "cached_property")
    for nm in ["body", "json", "form", "stream", "close"]:
        g.bool("wsgiCached" + nm.capitalize(), wdec[nm], "wsgi Request.%s is a cached_property" % nm)
    for nm in ["body", "json", "form", "stream", "close"]:
        g.bool("asgiCached" + nm.capitalize(), adec[nm], "asgi Request.%s is a cached_property" % nm)

    # the consumed flag is set before the first read / receive
    g.bool("wsgiFlagBeforeRead", _sets_consumed_before_first_read(wstream, "wsgi stream", "read"),
           "wsgi stream(): `_stream_consumed = True` precedes the first wsgi.input.read")
    g.bool("asgiFlagBeforeReceive", _sets_consumed_before_first_read(astream, "asgi stream", "_receive"),
           "asgi stream(): `_stream_consumed = True` precedes the first receive()")

    # replay branch
    wif, wdone = _first_if(wstream, "body", "wsgi stream")
    aif, adone = _first_if(astream, "body", "asgi stream")
    g.bool("asgiReplayTestsDone", adone, "asgi stream(): the replay test also requires the body future to be done()")
    g.add("wsgiReplayYields", "List String", "[" + ", ".join('"%s"' % y for y in _yields(wif.body)) + "]",
          "what the wsgi replay branch yields (expr = the cached body)", _yields(wif.body))
    g.add("asgiReplayYields", "List String", "[" + ", ".join('"%s"' % y for y in _yields(aif.body)) + "]",
          "what the asgi replay branch yields (expr = the cached body, empty = b\"\")", _yields(aif.body))
    tail = _yields(astream.body)
    g.add("asgiTailYields", "List String", "[" + ", ".join('"%s"' % y for y in tail) + "]",
          "top-level yields of asgi stream() after the receive loop", tail)

    # asgi: the message types the drain distinguishes, in the order tested
    types = []
    for node in ast.walk(astream):
        if isinstance(node, ast.Compare) and isinstance(node.left, ast.Subscript) \
                and isinstance(node.comparators[0], ast.Constant) and isinstance(node.comparators[0].value, str):
            types.append(node.comparators[0].value)
    g.add("asgiMessageTypes", "List String", "[" + ", ".join('"%s"' % t for t in types) + "]",
          "message types tested by the receive loop", types)
    raises = [n.exc.func.id for n in ast.walk(astream) if isinstance(n, ast.Raise) and isinstance(n.exc, ast.Call)
              and isinstance(n.exc.func, ast.Name)]
    g.add("asgiStreamRaises", "List String", "[" + ", ".join('"%s"' % t for t in raises) + "]",
          "exception classes raised inside asgi stream(), in source order", raises)

    # asgi close(): only a finished form future is awaited
    aclose = find_func(areq, "close")
    _, cdone = _first_if(aclose, "form", "asgi close")
    g.bool("asgiCloseTestsDone", cdone, "asgi close(): requires the form future to be done()")

    # cached_property: awaitable results are wrapped once by ensure_future and the wrapped value is stored
    utree = parse(repo, "baize/utils.py")
    gets = [n for n in find_class(utree, "cached_property").body
            if isinstance(n, ast.FunctionDef) and n.name == "__get__"]
    if not gets:
        raise ExtractError("cached_property.__get__ not found")
    get = gets[-1]  # the implementation follows the typing overloads
    wraps = False
    stores_after = False
    for node in ast.walk(get):
        if isinstance(node, ast.If) and isinstance(node.test, ast.Call) \
                and isinstance(node.test.func, ast.Attribute) and node.test.func.attr == "isawaitable":
            for sub in node.body:
                if isinstance(sub, ast.Assign) and isinstance(sub.value, ast.Call) \
                        and isinstance(sub.value.func, ast.Attribute) and sub.value.func.attr == "ensure_future":
                    wraps = True
        if isinstance(node, ast.Assign) and len(node.targets) == 2:
            for t in node.targets:
                if isinstance(t, ast.Subscript) and isinstance(t.value, ast.Attribute) and t.value.attr == "__dict__":
                    stores_after = isinstance(node.value, ast.Name) and node.value.id == "result"
    g.bool("cachedWrapsAwaitable", wraps, "cached_property.__get__: an awaitable result goes through asyncio.ensure_future")
    g.bool("cachedStoresResult", stores_after, "cached_property.__get__: the (wrapped) result is stored in obj.__dict__")
    return g


GENERATORS = [gen_body]
