"""C01/C15: data of baize/multipart.py and baize/multipart_helper.py"""
import ast

from tools.extract import ExtractError, Gen, const, cps, find_assign, find_class, find_func, parse


def _bytes_or_str(node):
    v = const(node)
    if isinstance(v, bytes):
        return v.decode("latin-1")
    return v


def gen_multipart(repo):
    g = Gen("Multipart", "baize/multipart.py, baize/multipart_helper.py")
    tree = parse(repo, "baize/multipart.py")
    g.string("lineBreak", _bytes_or_str(find_assign(tree, "LINE_BREAK")), "LINE_BREAK (regex source)")

    def compiled(name):
        node = find_assign(tree, name)
        if not (isinstance(node, ast.Call) and getattr(node.func, "attr", "") == "compile"):
            raise ExtractError("%s is not re.compile(...)" % name)
        arg = node.args[0]
        if isinstance(arg, ast.BinOp) and isinstance(arg.op, ast.Mod):
            return _bytes_or_str(arg.left) + " % " + ast.unparse(arg.right)
        return _bytes_or_str(arg)

    g.string("blankLineRe", compiled("BLANK_LINE_RE"), "BLANK_LINE_RE pattern")
    g.string("headerContinuationRe", compiled("HEADER_CONTINUATION_RE"), "HEADER_CONTINUATION_RE pattern template")
    init = find_func(find_class(tree, "MultipartDecoder"), "__init__")
    templates = {}
    for node in ast.walk(init):
        if isinstance(node, ast.Assign) and isinstance(node.targets[0], ast.Attribute) \
                and node.targets[0].attr in ("preamble_re", "boundary_re"):
            call = node.value
            arg = call.args[0]
            if not (isinstance(arg, ast.BinOp) and isinstance(arg.op, ast.Mod)):
                raise ExtractError("%s: pattern is not a %%-template" % node.targets[0].attr)
            templates[node.targets[0].attr] = _bytes_or_str(arg.left) + " % " + ast.unparse(arg.right)
    for k in ("preamble_re", "boundary_re"):
        if k not in templates:
            raise ExtractError("%s not found" % k)
    g.string("preambleReTemplate", templates["preamble_re"], "self.preamble_re template and arguments")
    g.string("boundaryReTemplate", templates["boundary_re"], "self.boundary_re template and arguments")
    # the literal tested with `not in headers` in next_event
    nxt = find_func(find_class(tree, "MultipartDecoder"), "next_event")
    lit = None
    for node in ast.walk(nxt):
        if isinstance(node, ast.Compare) and len(node.ops) == 1 and isinstance(node.ops[0], ast.NotIn) \
                and isinstance(node.comparators[0], ast.Name) and node.comparators[0].id == "headers":
            lit = const(node.left, str)
    if lit is None:
        raise ExtractError("next_event: `<literal> not in headers` not found")
    g.natlist("contentDisposition", cps(lit), "header that every part must carry (%r)" % lit)

    helper = parse(repo, "baize/multipart_helper.py")
    defaults = {}
    ops = {}
    for fname in ("parse_stream", "parse_async_stream"):
        fn = find_func(helper, fname)
        kw = {a.arg: d for a, d in zip(fn.args.kwonlyargs, fn.args.kw_defaults)}
        defaults[fname] = (const(kw["max_form_parts"], int), const(kw["max_form_memory_size"]))
        found = {}
        for node in ast.walk(fn):
            if isinstance(node, ast.Compare) and isinstance(node.left, ast.Name) and len(node.ops) == 1:
                if node.left.id in ("form_parts_count", "form_memory_size_count"):
                    found[node.left.id] = type(node.ops[0]).__name__ + " " + ast.unparse(node.comparators[0])
        ops[fname] = found
    if defaults["parse_stream"] != defaults["parse_async_stream"]:
        raise ExtractError("sync and async helpers have different defaults: %r" % (defaults,))
    if ops["parse_stream"] != ops["parse_async_stream"] or len(ops["parse_stream"]) != 2:
        raise ExtractError("sync and async helpers have different limit checks: %r" % (ops,))
    g.nat("maxFormPartsDefault", defaults["parse_stream"][0], "default of max_form_parts (both helpers)")
    g.bool("maxFormMemoryDefaultNone", defaults["parse_stream"][1] is None,
           "default of max_form_memory_size is None (both helpers)")
    g.string("partsCheck", ops["parse_stream"]["form_parts_count"], "comparison of the part counter (both helpers)")
    g.string("memCheck", ops["parse_stream"]["form_memory_size_count"], "comparison of the memory counter (both helpers)")
    return g


GENERATORS = [gen_multipart]
