"""C07: data of the static-file apps (baize/staticfiles.py, baize/{wsgi,asgi}/staticfiles.py)

Extracted with `ast` (nothing is imported):

* BaseFiles.ensure_absolute_path
    - the test that decides whether the trailing slash is put back after abspath():
      `path == <lit>`  or  `path.endswith(<lit>)`            -> slashLit, slashTestIsSuffix
    - the escape test on `os.path.relpath(...)`: every `<relpath> == <lit>` and
      `<relpath>.startswith(<lit>)` of the `if` that returns None (an `or` of such tests;
      `<lit>` may be built from string constants, `os.sep`, `os.pardir`, `+`)
                                                             -> escEq, escPrefix
* BaseFiles.check_path_is_file
    - exception classes of the handlers that swallow the error of os.stat -> caughtStat
    - errno names tested in a guarded `except OSError as exc: if exc.errno == errno.X`
                                                             -> caughtErrno
* Pages.ensure_absolute_path (both interfaces): `abspath.endswith(<lit>)`, `abspath += <lit>`
                                                             -> pagesSlashLit, indexName (+ asgi…)
* Pages.__call__ (both interfaces): `filepath.endswith(<lit>)`, `filepath += <lit>`
                                                             -> htmlSuffixTest, htmlSuffix (+ asgi…)
* RedirectResponse.__init__ default status_code (both interfaces) -> redirectStatus (+ asgi…)
"""
import ast

from tools.extract import ExtractError, Gen, const, cps, find_class, find_func, lean_natlist, lean_str, parse


def _str_expr(node):
    """value of a string expression built from constants, os.sep, os.pardir, os.curdir and +"""
    if isinstance(node, ast.Constant) and isinstance(node.value, str):
        return node.value
    if isinstance(node, ast.Attribute) and isinstance(node.value, ast.Name) and node.value.id == "os":
        table = {"sep": "/", "pardir": "..", "curdir": "."}
        if node.attr in table:
            return table[node.attr]
    if isinstance(node, ast.BinOp) and isinstance(node.op, ast.Add):
        return _str_expr(node.left) + _str_expr(node.right)
    raise ExtractError("unsupported string expression %s" % ast.dump(node)[:80])


def _is_name(node, name):
    return isinstance(node, ast.Name) and node.id == name


def _method_call(node, method):
    """(receiver, single argument) if node is `<receiver>.<method>(<arg>)`"""
    if (isinstance(node, ast.Call) and isinstance(node.func, ast.Attribute) and node.func.attr == method
            and len(node.args) == 1 and not node.keywords):
        return node.func.value, node.args[0]
    return None


def _returns_none(body):
    return (len(body) == 1 and isinstance(body[0], ast.Return)
            and (body[0].value is None or (isinstance(body[0].value, ast.Constant) and body[0].value.value is None)))


def _ensure_absolute_path(g, tree):
    fn = find_func(find_class(tree, "BaseFiles"), "ensure_absolute_path")
    slash = None
    esc = None
    # a test kept in a local variable (`escaped = ...; if escaped:`) is looked through once
    local = {}
    for node in ast.walk(fn):
        if isinstance(node, ast.Assign) and len(node.targets) == 1 and isinstance(node.targets[0], ast.Name):
            local[node.targets[0].id] = node.value
    for node in ast.walk(fn):
        if not isinstance(node, ast.If):
            continue
        t = node.test
        if isinstance(t, ast.Name) and isinstance(local.get(t.id), (ast.BoolOp, ast.Compare, ast.Call)):
            t = local[t.id]
        # trailing-slash test on the request path
        if (isinstance(t, ast.Compare) and _is_name(t.left, "path") and len(t.ops) == 1
                and isinstance(t.ops[0], ast.Eq)):
            slash = (const(t.comparators[0], str), False)
        mc = _method_call(t, "endswith")
        if mc and _is_name(mc[0], "path"):
            slash = (const(mc[1], str), True)
        # escape test: the `if` whose body is `return None`
        if _returns_none(node.body) and not node.orelse:
            tests = t.values if isinstance(t, ast.BoolOp) and isinstance(t.op, ast.Or) else [t]
            eqs, prefixes = [], []
            for x in tests:
                mc = _method_call(x, "startswith")
                if mc:
                    prefixes.append(_str_expr(mc[1]))
                elif isinstance(x, ast.Compare) and len(x.ops) == 1 and isinstance(x.ops[0], ast.Eq):
                    eqs.append(_str_expr(x.comparators[0]))
                else:
                    raise ExtractError("ensure_absolute_path: unsupported escape test %s" % ast.dump(x)[:80])
            esc = (eqs, prefixes)
    if slash is None:
        raise ExtractError("ensure_absolute_path: test on `path` (== / endswith) not found")
    if esc is None:
        raise ExtractError("ensure_absolute_path: `if <relpath test>: return None` not found")
    g.natlist("slashLit", cps(slash[0]), "literal the request path is tested against before `abspath += \"/\"` (%r)" % slash[0])
    g.bool("slashTestIsSuffix", slash[1], "True: `path.endswith(lit)`; False: `path == lit`")
    g.add("escEq", "List (List Nat)", "[" + ", ".join(lean_natlist(cps(s)) for s in esc[0]) + "]",
          "relpath values that are rejected by equality: %r" % (esc[0],), esc[0])
    g.add("escPrefix", "List (List Nat)", "[" + ", ".join(lean_natlist(cps(s)) for s in esc[1]) + "]",
          "relpath prefixes that are rejected by startswith: %r" % (esc[1],), esc[1])


def _check_path_is_file(g, tree):
    fn = find_func(find_class(tree, "BaseFiles"), "check_path_is_file")
    tries = [n for n in ast.walk(fn) if isinstance(n, ast.Try)]
    if len(tries) != 1:
        raise ExtractError("check_path_is_file: expected exactly one try statement")
    classes, errnos = [], []
    for h in tries[0].handlers:
        if h.type is None:
            names = ["BaseException"]
        elif isinstance(h.type, ast.Tuple):
            names = [e.id for e in h.type.elts]
        else:
            names = [h.type.id]
        body = h.body
        if len(body) == 1 and isinstance(body[0], ast.Return):
            classes.extend(names)            # unconditional `return None, False`
            continue
        # guarded: `if exc.errno == errno.X: return ...` followed by `raise`
        if (len(body) == 2 and isinstance(body[0], ast.If) and isinstance(body[1], ast.Raise) and names == ["OSError"]
                and h.name and isinstance(body[0].test, ast.Compare)):
            t = body[0].test
            left_ok = (isinstance(t.left, ast.Attribute) and t.left.attr == "errno" and _is_name(t.left.value, h.name))
            if left_ok and len(t.ops) == 1 and isinstance(t.ops[0], (ast.Eq, ast.In)):
                c = t.comparators[0]
                elts = c.elts if isinstance(c, (ast.Tuple, ast.List, ast.Set)) else [c]
                for e in elts:
                    if isinstance(e, ast.Attribute) and _is_name(e.value, "errno"):
                        errnos.append(e.attr)
                    else:
                        raise ExtractError("check_path_is_file: unsupported errno operand")
                continue
        raise ExtractError("check_path_is_file: unsupported handler for %s" % names)
    g.add("caughtStat", "List String", "[" + ", ".join(lean_str(c) for c in classes) + "]",
          "exception classes of os.stat swallowed unconditionally by check_path_is_file", classes)
    g.add("caughtErrno", "List String", "[" + ", ".join(lean_str(c) for c in errnos) + "]",
          "errno names of an OSError swallowed by check_path_is_file", errnos)


def _pages(g, repo, iface, prefix):
    tree = parse(repo, "baize/%s/staticfiles.py" % iface)
    cls = find_class(tree, "Pages")
    # ensure_absolute_path: `if abspath.endswith(L1): abspath += L2`
    fn = find_func(cls, "ensure_absolute_path")
    found = None
    for node in ast.walk(fn):
        if isinstance(node, ast.If):
            mc = _method_call(node.test, "endswith")
            if mc and _is_name(mc[0], "abspath") and len(node.body) == 1 and isinstance(node.body[0], ast.AugAssign):
                found = (const(mc[1], str), const(node.body[0].value, str))
    if not found:
        raise ExtractError("%s Pages.ensure_absolute_path: index rule not found" % iface)
    # __call__: `not filepath.endswith(L3)` in the test, `filepath += L4` in the body
    fn = find_func(cls, "__call__")
    fb = None
    for node in ast.walk(fn):
        if isinstance(node, ast.If) and node.body and isinstance(node.body[0], ast.AugAssign) \
                and _is_name(node.body[0].target, "filepath"):
            lit = None
            for x in ast.walk(node.test):
                mc = _method_call(x, "endswith")
                if mc and _is_name(mc[0], "filepath"):
                    lit = const(mc[1], str)
            if lit is None:
                raise ExtractError("%s Pages.__call__: endswith test of the fallback not found" % iface)
            fb = (lit, const(node.body[0].value, str))
    if not fb:
        raise ExtractError("%s Pages.__call__: '.html' fallback not found" % iface)
    g.natlist(prefix("pagesSlashLit"), cps(found[0]), "%s Pages.ensure_absolute_path: `abspath.endswith(%r)`" % (iface, found[0]))
    g.natlist(prefix("indexName"), cps(found[1]), "%s Pages.ensure_absolute_path: `abspath += %r`" % (iface, found[1]))
    g.natlist(prefix("htmlSuffixTest"), cps(fb[0]), "%s Pages.__call__: `not filepath.endswith(%r)`" % (iface, fb[0]))
    g.natlist(prefix("htmlSuffix"), cps(fb[1]), "%s Pages.__call__: `filepath += %r`" % (iface, fb[1]))
    # RedirectResponse default status
    rtree = parse(repo, "baize/%s/responses.py" % iface)
    init = find_func(find_class(rtree, "RedirectResponse"), "__init__")
    names = [a.arg for a in init.args.args]
    defaults = init.args.defaults
    if "status_code" not in names:
        raise ExtractError("%s RedirectResponse.__init__: status_code parameter not found" % iface)
    idx = names.index("status_code") - (len(names) - len(defaults))
    if idx < 0:
        raise ExtractError("%s RedirectResponse.__init__: status_code has no default" % iface)
    g.nat(prefix("redirectStatus"), const(defaults[idx], int), "%s RedirectResponse default status_code" % iface)


def gen_static(repo):
    """C07: literals and caught exceptions of Files / Pages"""
    g = Gen("Static", "baize/staticfiles.py, baize/wsgi/staticfiles.py, baize/asgi/staticfiles.py")
    tree = parse(repo, "baize/staticfiles.py")
    _ensure_absolute_path(g, tree)
    _check_path_is_file(g, tree)
    _pages(g, repo, "wsgi", lambda n: n)
    _pages(g, repo, "asgi", lambda n: "asgi" + n[0].upper() + n[1:])
    return g


GENERATORS = [gen_static]
