"""C03: data of FileResponseMixin.parse_range"""
import ast

from tools.extract import ExtractError, Gen, const, cps, find_class, find_func, parse


def gen_range(repo):
    """C03: unit literal and spec regex of FileResponseMixin.parse_range"""
    g = Gen("Range", "baize/responses.py: FileResponseMixin.parse_range")
    tree = parse(repo, "baize/responses.py")
    fn = find_func(find_class(tree, "FileResponseMixin"), "parse_range")
    unit = None
    regex = None
    for node in ast.walk(fn):
        if isinstance(node, ast.Compare) and isinstance(node.left, ast.Name) and node.left.id == "unit":
            if len(node.ops) == 1 and isinstance(node.ops[0], ast.NotEq):
                unit = const(node.comparators[0], str)
        if isinstance(node, ast.Call) and isinstance(node.func, ast.Attribute) and node.func.attr == "findall":
            regex = const(node.args[0], str)
    if unit is None:
        raise ExtractError("parse_range: `unit != <literal>` not found")
    if regex is None:
        raise ExtractError("parse_range: re.findall(<literal>, ...) not found")
    g.natlist("unitLit", cps(unit), "the only accepted range unit (`unit != %r`)" % unit)
    g.string("specRegex", regex, "pattern handed to re.findall")
    return g


GENERATORS = [gen_range]
