"""C17: data of MultiMapping / MutableMultiMapping / QueryParams / FormData (baize/datastructures.py)"""
import ast

from tools.extract import ExtractError, Gen, const, find_class, find_func, lean_str, parse


def _methods(cls):
    return [n.name for n in cls.body if isinstance(n, (ast.FunctionDef, ast.AsyncFunctionDef))]


def _subscript_const(fn, name):
    """the integer literal i of the first `name[i]` inside fn"""
    for node in ast.walk(fn):
        if isinstance(node, ast.Subscript) and isinstance(node.value, ast.Name) and node.value.id == name:
            idx = node.slice
            if isinstance(idx, ast.UnaryOp) and isinstance(idx.op, ast.USub):
                return -const(idx.operand, int)
            if isinstance(idx, ast.Constant):
                return const(idx, int)
    raise ExtractError("%s: `%s[<int>]` not found" % (fn.name, name))


def gen_multimap(repo):
    """C17: parse_qsl flags of QueryParams, index literals of the mutators, method tables of the subclasses"""
    g = Gen("MultiMap", "baize/datastructures.py: MultiMapping, MutableMultiMapping, QueryParams, FormData")
    tree = parse(repo, "baize/datastructures.py")
    qp = find_class(tree, "QueryParams")
    init = find_func(qp, "__init__")
    flags = {}
    codec = None
    for node in ast.walk(init):
        if isinstance(node, ast.If):
            test = node.test
            if (isinstance(test, ast.Call) and isinstance(test.func, ast.Name) and test.func.id == "isinstance"
                    and isinstance(test.args[1], ast.Name)):
                kind = test.args[1].id
                for sub in ast.walk(ast.Module(body=node.body, type_ignores=[])):
                    if isinstance(sub, ast.Call) and isinstance(sub.func, ast.Name) and sub.func.id == "parse_qsl":
                        kb = False
                        extra = []
                        for kw in sub.keywords:
                            if kw.arg == "keep_blank_values":
                                kb = bool(const(kw.value))
                            else:
                                extra.append(kw.arg)
                        if extra or len(sub.args) != 1:
                            raise ExtractError("QueryParams.__init__: parse_qsl called with unexpected arguments %s"
                                               % extra)
                        flags[kind] = kb
                        if kind == "bytes":
                            arg = sub.args[0]
                            if (isinstance(arg, ast.Call) and isinstance(arg.func, ast.Attribute)
                                    and arg.func.attr == "decode" and len(arg.args) == 1):
                                codec = const(arg.args[0], str)
    if "str" not in flags or "bytes" not in flags:
        raise ExtractError("QueryParams.__init__: parse_qsl calls for str / bytes not found")
    if codec is None:
        raise ExtractError("QueryParams.__init__: raw.decode(<codec>) not found")
    g.bool("keepBlankStr", flags["str"], "keep_blank_values of parse_qsl in QueryParams(str)")
    g.bool("keepBlankBytes", flags["bytes"], "keep_blank_values of parse_qsl in QueryParams(bytes)")
    g.string("bytesCodec", codec, "codec QueryParams(bytes) decodes with before parsing")
    strfn = find_func(qp, "__str__")
    call = None
    for node in ast.walk(strfn):
        if isinstance(node, ast.Call) and isinstance(node.func, ast.Name):
            call = node
    if call is None or call.func.id != "urlencode" or call.keywords or len(call.args) != 1:
        raise ExtractError("QueryParams.__str__: expected urlencode(<one argument>)")
    g.string("strEncoder", call.func.id, "function QueryParams.__str__ applies to the pair list (no extra arguments)")
    mm = find_class(tree, "MutableMultiMapping")
    g.add("setitemKeepIndex", "Int", str(_subscript_const(find_func(mm, "__setitem__"), "indexes")),
          "i of `indexes[i]`: which occurrence __setitem__ overwrites in place", "indexes")
    g.add("setlistDictIndex", "Int", "(%d)" % _subscript_const(find_func(mm, "setlist"), "values"),
          "i of `values[i]`: which value setlist stores in the dict", "values")
    for cls, name in (("MultiMapping", "multiMappingMethods"), ("MutableMultiMapping", "mutableMethods"),
                      ("QueryParams", "queryParamsMethods"), ("FormData", "formDataMethods")):
        ms = _methods(find_class(tree, cls))
        g.add(name, "List String", "[" + ", ".join(lean_str(m) for m in ms) + "]",
              "methods defined in the body of class %s" % cls, ms)
    return g


GENERATORS = [gen_multimap]
