"""C11: the two state machines of baize.asgi.websocket.WebSocket as data.

For `receive()` and `send()` the if/elif chain over the state attribute is walked
with `ast`; every branch becomes
    accepted : the literal set of the `assert message_type in {...}` / `== "..."`
    trans    : [(type literal, state index)] of `if message_type == "...": self.X_state = S`
    dflt     : state assigned otherwise (3 = state left unchanged)
    order    : the statement order as an enum list
               0 = assert, 1 = state change, 2 = forward (`await self._send`),
               3 = `await self._receive()`, 4 = return
so "assert -> state change -> forward" (or any other order) is what the code says.
The helper methods (accept, typed receives, iterators, send_text/bytes, close), the
denial response and the two shortcuts give their literals, guards and call order.
"""
import ast

from tools.extract import ExtractError, Gen, const, find_assign, find_class, find_func, lean_str, parse

ASSERT, TRANS, FORWARD, RECV, RETURN, RAISE_DISC = 0, 1, 2, 3, 4, 5


def body_of(fn):
    body = list(fn.body)
    if body and isinstance(body[0], ast.Expr) and isinstance(body[0].value, ast.Constant) \
            and isinstance(body[0].value.value, str):
        body = body[1:]
    return body


def state_names(tree):
    cls = find_class(tree, "WebSocketState")
    names = []
    for node in cls.body:
        if isinstance(node, ast.Assign) and len(node.targets) == 1 and isinstance(node.targets[0], ast.Name):
            names.append(node.targets[0].id)
    if not names:
        raise ExtractError("WebSocketState has no members")
    return names


def state_ref(node, names):
    """WebSocketState.NAME -> index"""
    if isinstance(node, ast.Attribute) and isinstance(node.value, ast.Name) and node.value.id == "WebSocketState":
        if node.attr in names:
            return names.index(node.attr)
    raise ExtractError("expected WebSocketState.<member>, got %s" % ast.dump(node)[:80])


def self_attr(node):
    if isinstance(node, ast.Attribute) and isinstance(node.value, ast.Name) and node.value.id == "self":
        return node.attr
    return None


def state_test(test, attr, names):
    """`self.<attr> <op> WebSocketState.X` -> (op class, index)"""
    if isinstance(test, ast.Compare) and len(test.ops) == 1 and self_attr(test.left) == attr:
        return type(test.ops[0]), state_ref(test.comparators[0], names)
    raise ExtractError("expected a comparison of self.%s with a WebSocketState member, got %s"
                       % (attr, ast.dump(test)[:100]))


def type_set(test, var):
    """`var == "lit"` or `var in {"a", "b"}` -> list of literals"""
    if isinstance(test, ast.Compare) and len(test.ops) == 1 and isinstance(test.left, ast.Name) \
            and test.left.id == var:
        op, rhs = test.ops[0], test.comparators[0]
        if isinstance(op, ast.Eq):
            return [const(rhs, str)]
        if isinstance(op, ast.In) and isinstance(rhs, (ast.Set, ast.Tuple, ast.List)):
            return [const(e, str) for e in rhs.elts]
    raise ExtractError("expected `%s == <lit>` or `%s in {<lits>}`, got %s" % (var, var, ast.dump(test)[:100]))


def awaited_self_call(node):
    """`await self.<name>(...)` (as statement value / assigned value) -> (name, call)"""
    if isinstance(node, ast.Await) and isinstance(node.value, ast.Call):
        name = self_attr(node.value.func)
        if name:
            return name, node.value
    return None, None


def branch(stmts, attr, names, where):
    """classify the statements of one state branch of receive()/send()"""
    accepted, trans, dflt, order = [], [], 3, []
    var = None
    for st in stmts:
        if isinstance(st, ast.Assign) and len(st.targets) == 1:
            tgt, val = st.targets[0], st.value
            name, _call = awaited_self_call(val)
            if name == "_receive":
                order.append(RECV)
                continue
            if isinstance(tgt, ast.Name) and isinstance(val, ast.Subscript) \
                    and isinstance(val.slice, ast.Constant) and val.slice.value == "type":
                var = tgt.id
                continue
            if self_attr(tgt) == attr:
                dflt = state_ref(val, names)
                order.append(TRANS)
                continue
            if self_attr(tgt) is not None:
                raise ExtractError("%s: assignment to self.%s" % (where, self_attr(tgt)))
            continue
        if isinstance(st, ast.Assert):
            if var is None:
                raise ExtractError("%s: assert before the message type is read" % where)
            accepted = accepted + type_set(st.test, var) if ASSERT in order else type_set(st.test, var)
            order.append(ASSERT)
            continue
        if isinstance(st, ast.If):
            if var is None:
                raise ExtractError("%s: `if` before the message type is read" % where)
            lits = type_set(st.test, var)

            def only_assign(body):
                if len(body) == 1 and isinstance(body[0], ast.Assign) and len(body[0].targets) == 1 \
                        and self_attr(body[0].targets[0]) == attr:
                    return state_ref(body[0].value, names)
                raise ExtractError("%s: branch of `if %s ...` is not a single state assignment" % (where, var))

            tgt = only_assign(st.body)
            trans.extend((lit, tgt) for lit in lits)
            if st.orelse:
                dflt = only_assign(st.orelse)
            order.append(TRANS)
            continue
        if isinstance(st, ast.Expr):
            name, _call = awaited_self_call(st.value)
            if name == "_send":
                order.append(FORWARD)
                continue
            if name == "_receive":
                order.append(RECV)
                continue
            if name is not None:
                raise ExtractError("%s: unexpected call self.%s" % (where, name))
            continue
        if isinstance(st, ast.Return):
            order.append(RETURN)
            continue
        raise ExtractError("%s: unexpected statement %s" % (where, type(st).__name__))
    return accepted, trans, dflt, order


def chain(fn, attr, names):
    """if/elif/else chain over self.<attr>: [(state index, stmts)], else-stmts"""
    body = body_of(fn)
    if len(body) != 1 or not isinstance(body[0], ast.If):
        raise ExtractError("%s: body is not a single if/elif/else chain" % fn.name)
    node = body[0]
    branches = []
    while True:
        op, idx = state_test(node.test, attr, names)
        if op is not ast.Eq:
            raise ExtractError("%s: branch test is not `==`" % fn.name)
        branches.append((idx, node.body))
        if len(node.orelse) == 1 and isinstance(node.orelse[0], ast.If):
            node = node.orelse[0]
            continue
        return branches, node.orelse


def raised_class(stmts, where):
    if len(stmts) == 1 and isinstance(stmts[0], ast.Raise) and isinstance(stmts[0].exc, ast.Call) \
            and isinstance(stmts[0].exc.func, ast.Name):
        return stmts[0].exc.func.id
    raise ExtractError("%s: else branch is not a single `raise X(...)`" % where)


def strlist(values):
    return "[" + ", ".join(lean_str(v) for v in values) + "]"


def pairlist(pairs):
    return "[" + ", ".join("(%s, %d)" % (lean_str(a), b) for a, b in pairs) + "]"


def sent_types(fn):
    """types of the dict literals passed to `await self.send({...})`, with the other keys"""
    out = []
    for node in ast.walk(fn):
        name, call = awaited_self_call(node)
        if name == "send" and call.args and isinstance(call.args[0], ast.Dict):
            d = call.args[0]
            keys = [const(k, str) for k in d.keys]
            if "type" not in keys:
                raise ExtractError("%s: sent dict has no literal type" % fn.name)
            out.append((const(d.values[keys.index("type")], str), [k for k in keys if k != "type"]))
    return out


def gen_websocket(repo):
    """C11: accepted-type sets per state, statement order, helper literals of asgi/websocket.py"""
    g = Gen("WebSocket", "baize/asgi/websocket.py: WebSocket, WebsocketDenialResponse; baize/asgi/shortcut.py")
    tree = parse(repo, "baize/asgi/websocket.py")
    names = state_names(tree)
    g.add("stateNames", "List String", strlist(names), "members of WebSocketState in declaration order "
          "(index = state code)", names)
    ws = find_class(tree, "WebSocket")

    init = find_func(ws, "__init__")
    initial = {}
    for st in ast.walk(init):
        if isinstance(st, ast.Assign) and len(st.targets) == 1 and self_attr(st.targets[0]) in (
                "client_state", "application_state"):
            initial[self_attr(st.targets[0])] = state_ref(st.value, names)
    if set(initial) != {"client_state", "application_state"}:
        raise ExtractError("__init__ does not initialise both states")
    g.nat("initClient", initial["client_state"], "initial client_state")
    g.nat("initApp", initial["application_state"], "initial application_state")
    scope_assert = [st for st in body_of(init) if isinstance(st, ast.Assert)]
    if len(scope_assert) != 1:
        raise ExtractError("__init__: expected one assert on the scope type")
    cmp_ = scope_assert[0].test
    if not (isinstance(cmp_, ast.Compare) and isinstance(cmp_.ops[0], ast.Eq)):
        raise ExtractError("__init__: scope assert is not an equality")
    g.string("initScopeType", const(cmp_.comparators[0], str), "scope type demanded by WebSocket.__init__")

    for fname, attr, tag in (("receive", "client_state", "recv"), ("send", "application_state", "send")):
        fn = find_func(ws, fname)
        branches, orelse = chain(fn, attr, names)
        g.natlist(tag + "Branches", [i for i, _ in branches],
                  "states tested by the if/elif chain of %s(), in order" % fname)
        g.string(tag + "Else", raised_class(orelse, fname), "exception raised by the else branch of %s()" % fname)
        want = {"CONNECTING": "Connecting", "CONNECTED": "Connected"}
        seen = {}
        for idx, stmts in branches:
            seen[names[idx]] = branch(stmts, attr, names, "%s()/%s" % (fname, names[idx]))
        for member, suffix in want.items():
            if member not in seen:
                raise ExtractError("%s(): no branch for %s" % (fname, member))
            accepted, trans, dflt, order = seen[member]
            pre = tag + suffix
            g.add(pre + "Accepted", "List String", strlist(accepted),
                  "types accepted by the assert of %s() in state %s" % (fname, member), accepted)
            g.add(pre + "Trans", "List (String × Nat)", pairlist(trans),
                  "conditional state changes of %s() in state %s (type, new state index)" % (fname, member), trans)
            g.nat(pre + "Default", dflt, "state assigned otherwise (3 = unchanged)")
            g.natlist(pre + "Order", order, "statement order: 0 assert, 1 state change, 2 forward, "
                      "3 await _receive, 4 return")

    # ---- accept(): `if client_state == CONNECTING: await self.receive()` then send(accept)
    fn = find_func(ws, "accept")
    when, order = [], []
    for st in body_of(fn):
        if isinstance(st, ast.If):
            op, idx = state_test(st.test, "client_state", names)
            calls = [awaited_self_call(s.value)[0] for s in st.body if isinstance(s, ast.Expr)]
            if calls != ["receive"] or st.orelse:
                raise ExtractError("accept(): guarded block is not a single `await self.receive()`")
            when = [i for i in range(len(names)) if (i == idx) == (op is ast.Eq)]
            order.append(RECV)
        elif isinstance(st, ast.Expr) and awaited_self_call(st.value)[0] == "send":
            order.append(FORWARD)
        elif isinstance(st, ast.Expr) and awaited_self_call(st.value)[0] == "receive":
            when = list(range(len(names)))
            order.append(RECV)
    g.natlist("acceptRecvWhen", when, "client states in which accept() first awaits self.receive()")
    g.natlist("acceptOrder", order, "accept(): 3 = (guarded) receive, 2 = send")
    st_ = sent_types(fn)
    g.add("acceptSends", "List String", strlist([t for t, _ in st_]), "types sent by accept()", st_)

    # ---- typed receives
    for fname, tag in (("receive_text", "recvText"), ("receive_bytes", "recvBytes")):
        fn = find_func(ws, fname)
        guard, order, key = list(range(len(names))), [], None
        for st in body_of(fn):
            if isinstance(st, ast.Assert):
                op, idx = state_test(st.test, "application_state", names)
                guard = [i for i in range(len(names)) if (i == idx) == (op is ast.Eq)]
                order.append(ASSERT)
            elif isinstance(st, ast.Assign) and awaited_self_call(st.value)[0] == "receive":
                order.append(RECV)
            elif isinstance(st, ast.Expr) and isinstance(st.value, ast.Call) \
                    and self_attr(st.value.func) == "_raise_on_disconnect":
                order.append(RAISE_DISC)
            elif isinstance(st, ast.Return):
                if not (isinstance(st.value, ast.Subscript) and isinstance(st.value.slice, ast.Constant)):
                    raise ExtractError("%s(): return is not message[<key>]" % fname)
                key = st.value.slice.value
                order.append(RETURN)
            else:
                raise ExtractError("%s(): unexpected statement %s" % (fname, type(st).__name__))
        g.natlist(tag + "Guard", guard, "application states in which %s() passes its assert" % fname)
        g.natlist(tag + "Order", order, "%s(): 0 assert, 3 await receive(), 5 _raise_on_disconnect, 4 return" % fname)
        g.string(tag + "Key", key if key is not None else "", "message key returned by %s()" % fname)

    fn = find_func(ws, "_raise_on_disconnect")
    body = body_of(fn)
    if len(body) != 1 or not isinstance(body[0], ast.If):
        raise ExtractError("_raise_on_disconnect: not a single if")
    t = body[0].test
    if not (isinstance(t, ast.Compare) and isinstance(t.ops[0], ast.Eq) and isinstance(t.left, ast.Subscript)):
        raise ExtractError("_raise_on_disconnect: test is not message['type'] == <lit>")
    g.string("disconnectType", const(t.comparators[0], str), "type on which _raise_on_disconnect raises")
    g.string("disconnectRaises", raised_class(body[0].body, "_raise_on_disconnect"), "exception class it raises")

    # ---- iterators: `try: while True: yield await self.<typed>() except <classes>: pass`
    for fname, tag in (("iter_text", "iterText"), ("iter_bytes", "iterBytes")):
        fn = find_func(ws, fname)
        body = body_of(fn)
        if len(body) != 1 or not isinstance(body[0], ast.Try):
            raise ExtractError("%s(): not a single try" % fname)
        tr = body[0]
        caught = []
        for h in tr.handlers:
            if isinstance(h.type, ast.Name):
                caught.append(h.type.id)
            elif isinstance(h.type, ast.Tuple):
                caught.extend(e.id for e in h.type.elts if isinstance(e, ast.Name))
            else:
                caught.append("*")
            if not all(isinstance(s, ast.Pass) for s in h.body):
                raise ExtractError("%s(): handler does something" % fname)
        called = [awaited_self_call(n)[0] for n in ast.walk(tr) if awaited_self_call(n)[0]]
        loops = [n for n in tr.body if isinstance(n, ast.While)]
        if len(tr.body) != 1 or len(loops) != 1 or not (isinstance(loops[0].test, ast.Constant)
                                                       and loops[0].test.value is True):
            raise ExtractError("%s(): try body is not `while True`" % fname)
        if tr.finalbody or tr.orelse:
            raise ExtractError("%s(): try has else/finally" % fname)
        g.add(tag + "Catches", "List String", strlist(caught), "exception classes ending %s() silently" % fname, caught)
        g.add(tag + "Calls", "List String", strlist(called), "methods awaited by the loop of %s()" % fname, called)

    # ---- send_text / send_bytes / close
    for fname, tag in (("send_text", "sendText"), ("send_bytes", "sendBytes")):
        st_ = sent_types(find_func(ws, fname))
        if len(st_) != 1 or len(st_[0][1]) != 1:
            raise ExtractError("%s(): expected one send of {type, <key>}" % fname)
        g.string(tag + "Type", st_[0][0], "type sent by %s()" % fname)
        g.string(tag + "Key", st_[0][1][0], "payload key of %s()" % fname)
    fn = find_func(ws, "close")
    body = body_of(fn)
    guard = list(range(len(names)))
    if len(body) == 1 and isinstance(body[0], ast.If) and not body[0].orelse:
        op, idx = state_test(body[0].test, "application_state", names)
        if op not in (ast.Eq, ast.NotEq):
            raise ExtractError("close(): guard is not ==/!=")
        guard = [i for i in range(len(names)) if (i == idx) == (op is ast.Eq)]
    st_ = sent_types(fn)
    g.natlist("closeWhen", guard, "application states in which close() sends")
    g.add("closeSends", "List String", strlist([t for t, _ in st_]), "types sent by close(), in order", st_)

    # ---- denial response
    mapping = find_assign(tree, "WEBSOCKET_DENIAL_RESPONSE_MAPPING")
    if not isinstance(mapping, ast.Dict):
        raise ExtractError("WEBSOCKET_DENIAL_RESPONSE_MAPPING is not a dict literal")
    pairs = [(const(k, str), const(v, str)) for k, v in zip(mapping.keys, mapping.values)]
    g.add("denialMapping", "List (String × String)",
          "[" + ", ".join("(%s, %s)" % (lean_str(a), lean_str(b)) for a, b in pairs) + "]",
          "http event type -> websocket denial event type", pairs)
    call = find_func(find_class(tree, "WebsocketDenialResponse"), "__call__")
    asserts = [s for s in body_of(call) if isinstance(s, ast.Assert)]
    if len(asserts) != 1 or not isinstance(asserts[0].test, ast.Compare):
        raise ExtractError("WebsocketDenialResponse.__call__: expected one scope assert")
    g.string("denialScopeType", const(asserts[0].test.comparators[0], str), "scope type demanded by the denial response")
    ifs = [s for s in body_of(call) if isinstance(s, ast.If)]
    if len(ifs) != 1:
        raise ExtractError("WebsocketDenialResponse.__call__: expected one if")
    ext = None
    for node in ast.walk(ifs[0].test):
        if isinstance(node, ast.Compare) and isinstance(node.ops[0], ast.NotIn):
            ext = const(node.left, str)
    if ext is None:
        raise ExtractError("denial: extension test not found")
    g.string("denialExtension", ext, "extension key tested in the scope")
    closes = []
    for st in ifs[0].body:
        if isinstance(st, ast.Expr) and isinstance(st.value, ast.Await) and isinstance(st.value.value, ast.Call) \
                and isinstance(st.value.value.func, ast.Name) and st.value.value.func.id == "send":
            d = st.value.value.args[0]
            closes.append(const(d.values[[const(k, str) for k in d.keys].index("type")], str))
    g.add("denialFallbackSends", "List String", strlist(closes), "events sent when the extension is unavailable", closes)

    # ---- shortcuts
    sc = parse(repo, "baize/asgi/shortcut.py")
    rr = find_func(find_func(sc, "request_response"), "asgi")
    first = body_of(rr)[0]
    if not (isinstance(first, ast.If) and isinstance(first.test, ast.Compare) and isinstance(first.test.ops[0], ast.Eq)):
        raise ExtractError("request_response.asgi: first statement is not `if scope['type'] == ...`")
    g.string("rrDenyScope", const(first.test.comparators[0], str), "scope type request_response answers with a denial")
    deny = [n for n in ast.walk(first) if isinstance(n, ast.Call) and isinstance(n.func, ast.Name)
            and n.func.id == "WebsocketDenialResponse"]
    if len(deny) != 1:
        raise ExtractError("request_response.asgi: no WebsocketDenialResponse(...) in the websocket branch")
    g.nat("rrDenyStatus", const(deny[0].args[0].args[0], int), "status of the denial response")
    wsn = find_func(find_func(sc, "websocket_session"), "asgi")
    first = body_of(wsn)[0]
    if not (isinstance(first, ast.If) and isinstance(first.test, ast.Compare) and isinstance(first.test.ops[0], ast.Eq)):
        raise ExtractError("websocket_session.asgi: first statement is not `if scope['type'] == ...`")
    g.string("sessionHttpScope", const(first.test.comparators[0], str), "scope type websocket_session answers with 404")
    resp = [n for n in ast.walk(ast.Module(body=first.body, type_ignores=[])) if isinstance(n, ast.Call)
            and isinstance(n.func, ast.Name) and n.func.id == "Response"]
    if len(resp) != 1:
        raise ExtractError("websocket_session.asgi: no Response(...) in the http branch")
    g.nat("sessionHttpStatus", const(resp[0].args[0], int), "status answered on an http scope")
    made = [n for n in ast.walk(ast.Module(body=first.orelse, type_ignores=[])) if isinstance(n, ast.Call)
            and isinstance(n.func, ast.Name) and n.func.id == "WebSocket"]
    if len(made) != 1:
        raise ExtractError("websocket_session.asgi: else branch does not build a WebSocket")
    return g


GENERATORS = [gen_websocket]
