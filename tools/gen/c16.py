"""C16: data of the cookie writer (datastructures.Cookie, BaseResponse.set_cookie/delete_cookie)
and of the cookie reader (HTTPConnection.cookies)."""
import ast
import string as _string

from tools.extract import ExtractError, Gen, const, cps, find_assign, find_class, find_func, lean_natlist, lean_str, \
    parse


def eval_str(node, env):
    """evaluates the small string-expression subset used for `_cookie_legal_chars`"""
    if isinstance(node, ast.Constant) and isinstance(node.value, str):
        return node.value
    if isinstance(node, ast.BinOp) and isinstance(node.op, ast.Add):
        return eval_str(node.left, env) + eval_str(node.right, env)
    if isinstance(node, ast.Attribute) and isinstance(node.value, ast.Name) and node.value.id == "string":
        v = getattr(_string, node.attr, None)
        if isinstance(v, str):
            return v
    if isinstance(node, ast.Name) and node.id in env:
        return env[node.id]
    raise ExtractError("unsupported string expression %s" % ast.dump(node)[:100])


def is_call(node, name):
    return isinstance(node, ast.Call) and (
        (isinstance(node.func, ast.Name) and node.func.id == name)
        or (isinstance(node.func, ast.Attribute) and node.func.attr == name))


def ord_of(node):
    if is_call(node, "ord") and len(node.args) == 1:
        s = const(node.args[0], str)
        if len(s) == 1:
            return ord(s)
    if isinstance(node, ast.Constant) and isinstance(node.value, int):
        return node.value
    raise ExtractError("expected ord('<char>'), got %s" % ast.dump(node)[:80])


def doc(s):
    """text safe inside a Lean doc comment"""
    return s.replace("-/", "- /").replace("/-", "/ -")


def natlist_pairs(pairs):
    return "[" + ", ".join("(%d, %s)" % (k, lean_natlist(v)) for k, v in pairs) + "]"


def strlist(xs):
    return "[" + ", ".join(lean_str(x) for x in xs) + "]"


def self_attr(node, attr=None):
    return (isinstance(node, ast.Attribute) and isinstance(node.value, ast.Name) and node.value.id == "self"
            and (attr is None or node.attr == attr))


def gen_cookie(repo):
    """C16/C13: cookie legal set, translator, Set-Cookie format, expires clock, reader separators"""
    g = Gen("Cookie", "baize/datastructures.py (_cookie_legal_chars, _cookie_translator, Cookie), "
                      "baize/responses.py (set_cookie, delete_cookie), baize/requests.py (cookies)")
    tree = parse(repo, "baize/datastructures.py")

    # ---- legal characters
    legal = eval_str(find_assign(tree, "_cookie_legal_chars"), {})
    env = {"_cookie_legal_chars": legal}
    g.natlist("legalChars", cps(legal), doc("_cookie_legal_chars = %r" % legal))

    # ---- the legal-key test: re.compile("[%s]+" % re.escape(_cookie_legal_chars)).fullmatch
    lk = find_assign(tree, "_cookie_is_legal_key")
    if not (isinstance(lk, ast.Attribute) and is_call(lk.value, "compile") and len(lk.value.args) == 1):
        raise ExtractError("_cookie_is_legal_key: expected re.compile(...).<method>")
    pat = lk.value.args[0]
    if not (isinstance(pat, ast.BinOp) and isinstance(pat.op, ast.Mod) and is_call(pat.right, "escape")
            and len(pat.right.args) == 1 and isinstance(pat.right.args[0], ast.Name)
            and pat.right.args[0].id == "_cookie_legal_chars"):
        raise ExtractError("_cookie_is_legal_key: expected '<template>' % re.escape(_cookie_legal_chars)")
    g.string("legalKeyTemplate", const(pat.left, str), "regex template of _cookie_is_legal_key (%s = escaped legal set)")
    g.string("legalKeyMethod", lk.attr, "regex method used as the legal-key predicate")

    # ---- translator
    tr = find_assign(tree, "_cookie_translator")
    if not isinstance(tr, ast.Dict):
        raise ExtractError("_cookie_translator: expected a dict display")
    overrides = []
    comp = None
    seen_comp_after_override = False
    for k, v in zip(tr.keys, tr.values):
        if k is None:
            if not isinstance(v, ast.DictComp) or comp is not None:
                raise ExtractError("_cookie_translator: expected exactly one **{dict comprehension}")
            comp = v
            if overrides:
                seen_comp_after_override = True
        else:
            overrides.append((ord_of(k), cps(const(v, str))))
    if comp is None:
        raise ExtractError("_cookie_translator: dict comprehension not found")
    if not (isinstance(comp.value, ast.BinOp) and isinstance(comp.value.op, ast.Mod)
            and isinstance(comp.key, ast.Name) and isinstance(comp.value.right, ast.Name)
            and comp.value.right.id == comp.key.id and len(comp.generators) == 1
            and not comp.generators[0].ifs):
        raise ExtractError("_cookie_translator: expected {n: '<fmt>' % n for n in ...}")
    octal_fmt = const(comp.value.left, str)
    it = comp.generators[0].iter
    if not (isinstance(it, ast.BinOp) and isinstance(it.op, ast.Sub) and is_call(it.left, "set")
            and is_call(it.left.args[0], "range") and is_call(it.right, "set") and is_call(it.right.args[0], "map")):
        raise ExtractError("_cookie_translator: expected set(range(N)) - set(map(ord, <chars>))")
    bound = const(it.left.args[0].args[0], int)
    margs = it.right.args[0].args
    if not (len(margs) == 2 and isinstance(margs[0], ast.Name) and margs[0].id == "ord"):
        raise ExtractError("_cookie_translator: expected map(ord, <chars>)")
    unescaped = eval_str(margs[1], env)
    if not unescaped.startswith(legal):
        raise ExtractError("_cookie_translator: unescaped set does not start with the legal set")
    extra = unescaped[len(legal):]
    g.natlist("unescapedExtra", cps(extra), doc("characters kept unescaped inside quotes besides the legal ones: %r" % extra))
    g.nat("escapeBound", bound, "code points below this bound outside legal+extra get an octal escape (range(%d))" % bound)
    g.string("octalFormat", octal_fmt, "format of the octal escape")
    g.add("translatorOverrides", "List (Nat × List Nat)", natlist_pairs(overrides),
          doc("explicit entries of _cookie_translator: %r" % [(chr(k), "".join(map(chr, v))) for k, v in overrides]),
          overrides)
    g.bool("overridesWin", not seen_comp_after_override,
           "the explicit entries come after the ** comprehension in the dict display (so they take precedence)")

    # ---- Cookie._quote
    cookie = find_class(tree, "Cookie")
    q = find_func(cookie, "_quote")
    ifs = [n for n in q.body if isinstance(n, ast.If)]
    if len(ifs) != 1:
        raise ExtractError("Cookie._quote: expected one if/else")
    iff = ifs[0]
    if not (is_call(iff.test, "_cookie_is_legal_key") and len(iff.body) == 1 and isinstance(iff.body[0], ast.Return)
            and isinstance(iff.body[0].value, ast.Name) and len(iff.orelse) == 1
            and isinstance(iff.orelse[0], ast.Return)):
        raise ExtractError("Cookie._quote: expected `if _cookie_is_legal_key(value): return value else: return ...`")
    ret = iff.orelse[0].value
    if not (isinstance(ret, ast.BinOp) and isinstance(ret.left, ast.BinOp) and is_call(ret.left.right, "translate")
            and isinstance(ret.left.right.args[0], ast.Name) and ret.left.right.args[0].id == "_cookie_translator"):
        raise ExtractError("Cookie._quote: expected '<q>' + value.translate(_cookie_translator) + '<q>'")
    g.natlist("quoteOpen", cps(const(ret.left.left, str)), "opening delimiter of a quoted value")
    g.natlist("quoteClose", cps(const(ret.right, str)), "closing delimiter of a quoted value")

    # ---- Cookie.__str__
    fn = find_func(cookie, "__str__")
    order = []
    info = {}

    def appended(stmt):
        if isinstance(stmt, ast.Expr) and is_call(stmt.value, "append") and len(stmt.value.args) == 1:
            return stmt.value.args[0]
        return None

    def prefix_of(node):
        """(literal prefix, the expression after it) of f"<prefix>{x}" / "<prefix>" + x / "<literal>" """
        if isinstance(node, ast.Constant) and isinstance(node.value, str):
            return node.value, None
        if isinstance(node, ast.JoinedStr) and len(node.values) == 2 and isinstance(node.values[0], ast.Constant) \
                and isinstance(node.values[1], ast.FormattedValue):
            return node.values[0].value, node.values[1].value
        if isinstance(node, ast.BinOp) and isinstance(node.op, ast.Add) and isinstance(node.left, ast.Constant):
            return node.left.value, node.right
        raise ExtractError("Cookie.__str__: unsupported attribute expression %s" % ast.dump(node)[:100])

    joiner = None
    for stmt in fn.body:
        a = appended(stmt)
        if a is not None:
            if isinstance(a, ast.JoinedStr) and len(a.values) == 3 and all(
                    isinstance(a.values[i], ast.FormattedValue) for i in (0, 2)):
                v0, v2 = a.values[0].value, a.values[2].value
                info["nameQuoted"] = is_call(v0, "_quote") and self_attr(v0.args[0], "name")
                info["valueQuoted"] = is_call(v2, "_quote") and self_attr(v2.args[0], "value")
                info["pairSep"] = const(a.values[1], str)
                order.append("pair")
            else:
                p, e = prefix_of(a)
                if not (e is not None and self_attr(e)):
                    raise ExtractError("Cookie.__str__: unconditional attribute is not f'<prefix>{self.x}'")
                info[e.attr + "Prefix"] = p
                order.append(e.attr)
        elif isinstance(stmt, ast.If):
            if len(stmt.body) != 1 or stmt.orelse or appended(stmt.body[0]) is None:
                raise ExtractError("Cookie.__str__: expected `if <test>: parts.append(<one thing>)`")
            p, e = prefix_of(appended(stmt.body[0]))
            t = stmt.test
            if self_attr(t, "expires"):
                if not (is_call(e, "strftime") and self_attr(e.func.value, "expires")):
                    raise ExtractError("Cookie.__str__: expires is not formatted with self.expires.strftime")
                info["expiresPrefix"] = p
                info["strftimeFormat"] = const(e.args[0], str)
                order.append("expires")
            elif isinstance(t, ast.Compare) and self_attr(t.left, "max_age") and len(t.ops) == 1:
                info["maxAgeOp"] = {ast.Gt: ">", ast.GtE: ">=", ast.Lt: "<", ast.LtE: "<=", ast.NotEq: "!=",
                                    ast.Eq: "=="}.get(type(t.ops[0]), "?")
                c = t.comparators[0]
                if isinstance(c, ast.UnaryOp) and isinstance(c.op, ast.USub):
                    info["maxAgeBound"] = -const(c.operand, int)
                else:
                    info["maxAgeBound"] = const(c, int)
                if not self_attr(e, "max_age"):
                    raise ExtractError("Cookie.__str__: max-age does not print self.max_age")
                info["maxAgePrefix"] = p
                order.append("max_age")
            elif self_attr(t, "domain") or self_attr(t, "path"):
                if not self_attr(e, t.attr):
                    raise ExtractError("Cookie.__str__: %s prints something else" % t.attr)
                info[t.attr + "Prefix"] = p
                order.append(t.attr)
            elif self_attr(t, "httponly"):
                if e is not None:
                    raise ExtractError("Cookie.__str__: httponly is not a bare literal")
                info["httponlyText"] = p
                order.append("httponly")
            elif isinstance(t, ast.BoolOp) and isinstance(t.op, ast.Or) and len(t.values) == 2 \
                    and self_attr(t.values[0], "secure") and isinstance(t.values[1], ast.Compare) \
                    and self_attr(t.values[1].left, "samesite") and isinstance(t.values[1].ops[0], ast.In):
                if e is not None:
                    raise ExtractError("Cookie.__str__: secure is not a bare literal")
                info["secureText"] = p
                info["secureSamesite"] = [const(x, str) for x in t.values[1].comparators[0].elts]
                order.append("secure")
            else:
                raise ExtractError("Cookie.__str__: unknown condition %s" % ast.dump(t)[:100])
        elif isinstance(stmt, ast.Return):
            if not (is_call(stmt.value, "join") and isinstance(stmt.value.func.value, ast.Constant)):
                raise ExtractError("Cookie.__str__: expected return '<sep>'.join(parts)")
            joiner = stmt.value.func.value.value
    need = ["nameQuoted", "valueQuoted", "pairSep", "expiresPrefix", "strftimeFormat", "maxAgeOp", "maxAgeBound",
            "maxAgePrefix", "domainPrefix", "pathPrefix", "httponlyText", "secureText", "secureSamesite",
            "samesitePrefix"]
    missing = [k for k in need if k not in info]
    if missing or joiner is None:
        raise ExtractError("Cookie.__str__: not found: %s" % (missing or "join"))
    g.add("attrOrder", "List String", strlist(order), "order in which Cookie.__str__ appends its parts", order)
    g.bool("nameQuoted", info["nameQuoted"], "the name goes through self._quote")
    g.bool("valueQuoted", info["valueQuoted"], "the value goes through self._quote")
    g.natlist("pairSep", cps(info["pairSep"]), doc("between name and value: %r" % info["pairSep"]))
    g.natlist("expiresPrefix", cps(info["expiresPrefix"]), doc(repr(info["expiresPrefix"])))
    g.string("strftimeFormat", info["strftimeFormat"], "strftime format of the expires attribute")
    g.string("maxAgeOp", info["maxAgeOp"], "max-age is emitted iff self.max_age <op> maxAgeBound")
    g.add("maxAgeBound", "Int", "(%d)" % info["maxAgeBound"], "see maxAgeOp", info["maxAgeBound"])
    g.natlist("maxAgePrefix", cps(info["maxAgePrefix"]), doc(repr(info["maxAgePrefix"])))
    g.natlist("domainPrefix", cps(info["domainPrefix"]), doc(repr(info["domainPrefix"])))
    g.natlist("pathPrefix", cps(info["pathPrefix"]), doc(repr(info["pathPrefix"])))
    g.natlist("httponlyText", cps(info["httponlyText"]), doc(repr(info["httponlyText"])))
    g.natlist("secureText", cps(info["secureText"]), doc(repr(info["secureText"])))
    g.add("secureSamesite", "List String", strlist(info["secureSamesite"]),
          "samesite values that force the secure attribute", info["secureSamesite"])
    g.natlist("samesitePrefix", cps(info["samesitePrefix"]), doc(repr(info["samesitePrefix"])))
    g.natlist("joiner", cps(joiner), doc("separator between the parts: %r" % joiner))

    # ---- set_cookie / delete_cookie
    rtree = parse(repo, "baize/responses.py")
    base = find_class(rtree, "BaseResponse")
    sc = find_func(base, "set_cookie")
    call = None
    for node in ast.walk(sc):
        if isinstance(node, ast.Call) and isinstance(node.func, ast.Attribute) \
                and node.func.attr in ("fromtimestamp", "utcfromtimestamp"):
            call = node
    if call is None:
        raise ExtractError("set_cookie: datetime.fromtimestamp(...) not found")
    arg = call.args[0] if call.args else None
    clock_ok = (isinstance(arg, ast.BinOp) and isinstance(arg.op, ast.Add)
                and is_call(arg.left, "time") and not arg.left.args
                and isinstance(arg.right, ast.Name) and arg.right.id == "expires")
    if not clock_ok:
        raise ExtractError("set_cookie: expected fromtimestamp(time.time() + expires, ...)")

    def is_utc(n):
        return isinstance(n, ast.Attribute) and n.attr in ("utc", "UTC")

    in_utc = call.func.attr == "utcfromtimestamp" or any(is_utc(a) for a in call.args[1:]) or any(
        k.arg == "tz" and is_utc(k.value) for k in call.keywords)
    g.bool("expiresInUtc", in_utc, "set_cookie builds the expires datetime in UTC (tz=timezone.utc), not in local time")
    defaults = {a.arg: d for a, d in zip(sc.args.args[-len(sc.args.defaults):], sc.args.defaults)}
    g.natlist("defaultPath", cps(const(defaults["path"], str)), "default of set_cookie(path=...)")
    g.string("defaultSamesite", const(defaults["samesite"], str), "default of set_cookie(samesite=...)")

    dc = find_func(base, "delete_cookie")
    dcall = None
    for node in ast.walk(dc):
        if isinstance(node, ast.Call) and isinstance(node.func, ast.Attribute) and node.func.attr == "set_cookie":
            dcall = node
    if dcall is None:
        raise ExtractError("delete_cookie: self.set_cookie(...) not found")
    kw = {k.arg: k.value for k in dcall.keywords}
    if "expires" not in kw or "max_age" not in kw:
        raise ExtractError("delete_cookie: expires= / max_age= not passed to set_cookie")

    def intconst(n):
        if isinstance(n, ast.UnaryOp) and isinstance(n.op, ast.USub):
            return -const(n.operand, int)
        return const(n, int)

    g.add("deleteExpires", "Int", "(%d)" % intconst(kw["expires"]), "delete_cookie: expires=", intconst(kw["expires"]))
    g.add("deleteMaxAge", "Int", "(%d)" % intconst(kw["max_age"]), "delete_cookie: max_age=", intconst(kw["max_age"]))
    g.bool("deletePassesValue", "value" in kw or len(dcall.args) > 1, "delete_cookie forwards its value argument")

    # ---- reader
    qtree = parse(repo, "baize/requests.py")
    ck = find_func(qtree, "cookies")
    chunk_sep = pair_sep = maxsplit = None
    unquote_fn = None
    for node in ast.walk(ck):
        if is_call(node, "split") and isinstance(node.func, ast.Attribute):
            if isinstance(node.func.value, ast.Name) and node.func.value.id == "cookie_header":
                chunk_sep = const(node.args[0], str)
            elif isinstance(node.func.value, ast.Name) and node.func.value.id == "chunk":
                pair_sep = const(node.args[0], str)
                maxsplit = const(node.args[1], int) if len(node.args) > 1 else -1
        if is_call(node, "_unquote"):
            unquote_fn = ast.unparse(node.func)
    if chunk_sep is None or pair_sep is None or unquote_fn is None:
        raise ExtractError("cookies: split(';') / split('=', 1) / _unquote not found")
    g.natlist("readerChunkSep", cps(chunk_sep), "cookie_header.split(%r)" % chunk_sep)
    g.natlist("readerPairSep", cps(pair_sep), "chunk.split(%r, %d)" % (pair_sep, maxsplit))
    g.add("readerMaxSplit", "Int", "(%d)" % maxsplit, "maxsplit of the pair split", maxsplit)
    g.string("readerUnquote", unquote_fn, "function applied to the stripped value")
    return g


GENERATORS = [gen_cookie]
