"""C18: data of baize.datastructures.URL (default-port table, repr mask, the characters escaped when the
request path / query is put into the URL, the error modes of the two UTF-8 decodes) and the stdlib tables the
Lean transcription of urllib.parse.urlsplit / urlunsplit depends on (read from the running interpreter)."""
import ast
import json
import os
import tempfile

from tools.extract import ExtractError, Gen, const, cps, find_assign, find_class, find_func, lean_natlist, parse


def _pairs(values):
    return "[" + ", ".join("(%s, %d)" % (lean_natlist(k), v) for k, v in values) + "]"


def _decode_errors(call):
    """('utf8', 'replace') for `x.decode("utf8", "replace")`; strict when no second argument"""
    codec = const(call.args[0], str) if call.args else "utf-8"
    errors = const(call.args[1], str) if len(call.args) > 1 else "strict"
    for kw in call.keywords:
        if kw.arg == "errors":
            errors = const(kw.value, str)
        if kw.arg == "encoding":
            codec = const(kw.value, str)
    if codec.lower().replace("-", "").replace("_", "") != "utf8":
        raise ExtractError("decode with codec %r (the model has UTF-8 only)" % codec)
    if errors not in ("strict", "replace"):
        raise ExtractError("decode with errors=%r (the model has strict/replace only)" % errors)
    return errors == "replace"


def _decode_calls(node):
    return [n for n in ast.walk(node) if isinstance(n, ast.Call) and isinstance(n.func, ast.Attribute)
            and n.func.attr == "decode"]


def gen_url(repo):
    """C18: constants of class URL"""
    g = Gen("Url", "baize/datastructures.py: class URL (_build_url, __init__, __repr__) and its module constants")
    tree = parse(repo, "baize/datastructures.py")
    cls = find_class(tree, "URL")
    build = find_func(cls, "_build_url")
    table = None
    for node in ast.walk(build):
        if isinstance(node, ast.Subscript) and isinstance(node.value, ast.Dict):
            d = node.value
            table = [(cps(const(k, str)), const(v, int)) for k, v in zip(d.keys, d.values)]
            if not (isinstance(node.slice, ast.Name) and node.slice.id == "scheme"):
                raise ExtractError("_build_url: the default-port table is not indexed by `scheme`")
    if table is None:
        raise ExtractError("_build_url: `{...}[scheme]` default-port table not found")
    g.add("defaultPorts", "List (List Nat × Nat)", _pairs(table),
          "default-port table of _build_url: %s" % ", ".join("%s=%d" % ("".join(map(chr, k)), v) for k, v in table),
          table)
    # which comparison elides the port: `port == default_port or port is None`
    elide = [n for n in ast.walk(build) if isinstance(n, ast.Compare) and isinstance(n.left, ast.Name)
             and n.left.id == "port" and isinstance(n.ops[0], ast.Eq)
             and isinstance(n.comparators[0], ast.Name) and n.comparators[0].id == "default_port"]
    g.bool("elidesDefaultPort", bool(elide), "`port == default_port` is tested before the port is printed")
    # query decode inside _build_url
    qd = _decode_calls(build)
    if len(qd) != 1:
        raise ExtractError("_build_url: expected exactly one .decode(...) (query string), found %d" % len(qd))
    g.bool("queryDecodeReplace", _decode_errors(qd[0]),
           "the query string is decoded with errors='replace' (False: strict, UnicodeDecodeError)")
    init = find_func(cls, "__init__")
    pd = [c for c in _decode_calls(init) if c.args and isinstance(c.args[0], ast.Constant)
          and str(c.args[0].value).lower().replace("-", "") == "utf8"]
    if len(pd) != 1:
        raise ExtractError("URL.__init__: expected one .decode('utf8', ...) of SCRIPT_NAME+PATH_INFO, found %d" % len(pd))
    g.bool("pathDecodeReplace", _decode_errors(pd[0]),
           "SCRIPT_NAME+PATH_INFO is decoded with errors='replace' (False: strict, UnicodeDecodeError)")
    # escape sets (absent in a tree without the repair: empty sets)
    for lean, py in (("pathEscaped", "_URL_PATH_UNSAFE"), ("queryEscaped", "_URL_QUERY_UNSAFE")):
        try:
            val = const(find_assign(tree, py), str)
        except ExtractError:
            val = ""
        used = any(isinstance(n, ast.Name) and n.id == py for n in ast.walk(build))
        g.natlist(lean, cps(val) if used else [],
                  "characters percent-encoded when the %s is put into the URL (%s)" % (lean[:-7], py))
    # mask of __repr__
    rep = find_func(cls, "__repr__")
    mask = None
    for node in ast.walk(rep):
        if isinstance(node, ast.Call) and isinstance(node.func, ast.Attribute) and node.func.attr == "replace":
            for kw in node.keywords:
                if kw.arg == "password":
                    mask = const(kw.value, str)
    if mask is None:
        raise ExtractError("URL.__repr__: self.replace(password=<literal>) not found")
    g.natlist("reprMask", cps(mask), "password shown by repr(url): %r" % mask)
    return g


def _nfkc_delims():
    """code points >= 128 whose NFKC form contains one of '/?#@:' (what urllib.parse._checknetloc rejects)"""
    import unicodedata

    cache = os.path.join(tempfile.gettempdir(), "baize_verif_nfkc_%s.json" % unicodedata.unidata_version)
    try:
        with open(cache) as f:
            return json.load(f)
    except (OSError, ValueError):
        pass
    tab = [c for c in range(128, 0x110000) if not 0xD800 <= c <= 0xDFFF
           and any(d in unicodedata.normalize("NFKC", chr(c)) for d in "/?#@:")]
    try:
        with open(cache + ".tmp%d" % os.getpid(), "w") as f:
            json.dump(tab, f)
        os.replace(cache + ".tmp%d" % os.getpid(), cache)
    except OSError:
        pass
    return tab


def gen_urlstd(repo):
    """C18: tables of urllib.parse / unicodedata of the interpreter that runs baize (trusted snapshot)"""
    import urllib.parse as up

    g = Gen("UrlStd", "urllib.parse / unicodedata of the running interpreter (stdlib snapshot, not from /repo)")
    g.natlist("schemeChars", cps(up.scheme_chars), "urllib.parse.scheme_chars")
    g.add("usesNetloc", "List (List Nat)", "[" + ", ".join(lean_natlist(cps(s)) for s in up.uses_netloc) + "]",
          "urllib.parse.uses_netloc", list(up.uses_netloc))
    g.natlist("stripChars", cps(up._WHATWG_C0_CONTROL_OR_SPACE), "leading characters urlsplit strips from the URL")
    g.natlist("removeChars", cps("".join(up._UNSAFE_URL_BYTES_TO_REMOVE)), "characters urlsplit removes anywhere")
    g.natlist("nfkcDelims", _nfkc_delims(),
              "code points >= 128 whose NFKC form contains one of / ? # @ : (rejected in a netloc by _checknetloc)")
    g.natlist("alwaysSafe", sorted(up._ALWAYS_SAFE), "urllib.parse._ALWAYS_SAFE (never percent-encoded by quote)")
    return g


GENERATORS = [gen_url, gen_urlstd]
